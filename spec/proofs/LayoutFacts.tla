---------------------------- MODULE LayoutFacts ----------------------------
(* Unbounded arithmetic facts behind the layout invariants, proved with TLAPS (TLC checks them only for the nr / n of a     *)
(* configuration).                                                                                                      *)
EXTENDS Naturals, Integers, TLAPS

\* DL_POLY TABEAM: n(n+5)/2 functions = n(n+1)/2 pair blocks + n embe + n dens  (doubled to stay in the integers)
THEOREM TabeamCount == \A n \in Nat : n * (n + 5) = n * (n + 1) + 2 * n + 2 * n
  OBVIOUS

\* DL_POLY EEAM: 3n(n+1)/2 = n(n+1)/2 + n + n^2
THEOREM EeamCount == \A n \in Nat : 3 * n * (n + 1) = n * (n + 1) + 2 * n + 2 * n * n
  OBVIOUS

\* LAMMPS table: row n of N = nr-1 rows between lo = c/(nr-1) and hi = c is n c/(nr-1)
\* (after multiplying by (nr-1)(nr-2)/c):  (nr-2) + (n-1)((nr-1)-1) = n (nr-2)
THEOREM GridIdentity == \A nr \in Nat, n \in Nat : (nr >= 3 /\ n >= 1) => (nr - 2) + (n - 1) * ((nr - 1) - 1) = n * (nr - 2)
  OBVIOUS

\* setfl: number of pair arrays read before the pair (i, j<=i) is i(i-1)/2 + j - 1; the last pair (n, n) is array n(n+1)/2
THEOREM TriangularLast == \A n \in Nat : n >= 1 => n * (n - 1) + 2 * n = n * (n + 1)
  OBVIOUS
=============================================================================
