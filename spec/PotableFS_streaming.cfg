SPECIFICATION Spec
CONSTANTS
  Outs = {1}
  MaxSteps = 2
  MaxEdits = 1
  NoTruncate = FALSE
  Streaming = TRUE
CONSTRAINT Bounded
INVARIANT TypeOK
INVARIANT ContentWellFormed
INVARIANT FailureLeavesEmpty
INVARIANT SuccessDetermines
INVARIANT TablesAreOfValidDocs
INVARIANT ExitStatus
PROPERTY OnlyNamedFileChanges
