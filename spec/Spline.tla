------------------------------- MODULE Spline -------------------------------
(***************************************************************************)
(* C10: splined potentials.                                                *)
(*                                                                         *)
(* (a) Region: which piece acts at r.  Statement: start for r <= detach,   *)
(*     end for r >= attach, between them the spline (buck4: fifth order    *)
(*     below r_min, third order from r_min).  Transcription of             *)
(*     Custom_SplinePotential.__call__ and Buck4_Spline._which_spline, one *)
(*     action per comparison.                                              *)
(* (b) the defining equations of the two spline kinds as rows of exact     *)
(*     rationals (value / first / second derivative of the monomials at    *)
(*     detach, r_min, attach), emitted for the replay, which evaluates     *)
(*     the residual with the implementation's own coefficients;            *)
(* (c) identity families with an exact answer: start = end = a cubic that  *)
(*     is stationary at r_min  =>  the buck4 spline IS that cubic.         *)
(***************************************************************************)
EXTENDS PolyRows, FiniteSets, TLC, SequencesExt, FiniteSetsExt, Json, IOUtils

\* knot triples detach < r_min < attach (halves)
H(n) == <<n, 2>>
Knots == {<<H(a), H(m), H(b)>> : a \in 1..4, m \in 2..6, b \in 3..8}
Triples == {k \in Knots : RLt(k[1], k[2]) /\ RLt(k[2], k[3])}
\* query lattice: quarters from 0 to 5, so every knot and both sides of it are hit
Queries == {<<n, 4>> : n \in 0..20}

VARIABLES kind, knots, r, pc, piece
vars == <<kind, knots, r, pc, piece>>

\* (a) statement
StatementPiece(k, kn, x) ==
  IF RLe(x, kn[1]) THEN "start"
  ELSE IF RLe(kn[3], x) THEN "end"
  ELSE IF k = "exp" THEN "spline"
  ELSE IF RLt(x, kn[2]) THEN "quintic" ELSE "cubic"

Init == /\ kind \in {"exp", "buck4"} /\ knots \in Triples /\ r \in Queries /\ pc = "call" /\ piece = "none"
\* if rij <= self.detachmentX: return self.startPotential(rij)
TestDetach == /\ pc = "call"
              /\ IF RLe(r, knots[1]) THEN piece' = "start" /\ pc' = "done" ELSE pc' = "attach" /\ UNCHANGED piece
              /\ UNCHANGED <<kind, knots, r>>
\* elif rij >= self.attachmentX: return self.endPotential(rij)
TestAttach == /\ pc = "attach"
              /\ IF RLe(knots[3], r) THEN piece' = "end" /\ pc' = "done" ELSE pc' = "inner" /\ UNCHANGED piece
              /\ UNCHANGED <<kind, knots, r>>
\* else: return self._interpolationFunction(rij)   [Buck4_Spline._which_spline: r < r_min -> spline5 else spline3]
Inner == /\ pc = "inner"
         /\ piece' = IF kind = "exp" THEN "spline" ELSE IF RLt(r, knots[2]) THEN "quintic" ELSE "cubic"
         /\ pc' = "done"
         /\ UNCHANGED <<kind, knots, r>>
Next == TestDetach \/ TestAttach \/ Inner
Spec == Init /\ [][Next]_vars
RegionOK == (pc = "done") => piece = StatementPiece(kind, knots, r)
Terminates == (~ENABLED Next) => pc = "done"

-----------------------------------------------------------------------------
(* (b) defining equations: Mono, RowP, Buck4Rows come from PolyRows *)
\* exp spline on ln(V + shift): unknowns B0..B5
ExpRows(kn) == <<
  [row |-> RowP(kn[1], 5, 0), rhs |-> "ln start.v"], [row |-> RowP(kn[3], 5, 0), rhs |-> "ln end.v"],
  [row |-> RowP(kn[1], 5, 1), rhs |-> "start.d1/v"], [row |-> RowP(kn[3], 5, 1), rhs |-> "end.d1/v"],
  [row |-> RowP(kn[1], 5, 2), rhs |-> "start.d2/v - (d1/v)^2"], [row |-> RowP(kn[3], 5, 2), rhs |-> "end.d2/v - (d1/v)^2"] >>

\* (c) cubic stationary at r_min: p(r) = a (r - m)^2 (r - s) + d
Cubic(a, m, s, d) == << RAdd(RNeg(RMul(a, RMul(RMul(m, m), s))), d),
                        RMul(a, RAdd(RMul(m, m), RMul(R(2), RMul(m, s)))),
                        RMul(a, RNeg(RAdd(s, RMul(R(2), m)))),
                        a >>
Identity == {[knots |-> kn, cubic |-> Cubic(a, kn[2], s, d)] : kn \in {k \in Triples : k[3][1] <= 6}, a \in {R(1), <<-1, 2>>}, s \in {R(0), R(5)}, d \in {R(0), R(-2)}}
\* the cubic is stationary at r_min (specification-level sanity)
StationaryOK == \A c \in Identity : LET p == c.cubic
                                         m == c.knots[2] IN
                  RAdd(RAdd(p[2], RMul(RMul(R(2), p[3]), m)), RMul(RMul(R(3), p[4]), RMul(m, m))) = RZero
ASSUME StationaryOK

RegionTable == {[kind |-> k, knots |-> kn, r |-> x, piece |-> StatementPiece(k, kn, x)] : k \in {"exp", "buck4"}, kn \in {t \in Triples : t[1][1] = 2 /\ t[3][1] \in {5, 6}}, x \in Queries}
Emit == IF "EMIT" \in DOMAIN IOEnv /\ IOEnv.EMIT = "1"
        THEN /\ ndJsonSerialize(IOEnv.VERIF_OUT \o "/rows.ndjson", SetToSeq({[knots |-> kn, buck4 |-> Buck4Rows(kn), exp |-> ExpRows(kn)] : kn \in {t \in Triples : t[3][1] <= 6}}))
             /\ ndJsonSerialize(IOEnv.VERIF_OUT \o "/identity.ndjson", SetToSeq(Identity))
             /\ ndJsonSerialize(IOEnv.VERIF_OUT \o "/region.ndjson", SetToSeq(RegionTable))
        ELSE TRUE
ASSUME Emit
=============================================================================
