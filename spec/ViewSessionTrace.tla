-------------------------- MODULE ViewSessionTrace --------------------------
(***************************************************************************)
(* Trace validation (code -> specification) for C13: long random sessions  *)
(* on the real ConfigParser / FilteredConfigParser classes - more parser   *)
(* handles, views, filters and events than the exhaustive bound - recorded *)
(* with the REAL identity of every parser (id() numbered in order of first *)
(* appearance, so address reuse after a release is in the trace) and with  *)
(* the entries every read returned.  TLC accepts a trace when every event  *)
(* is a step of ViewSession and every observed read is the result the      *)
(* specification prescribes.                                               *)
(***************************************************************************)
EXTENDS ViewSession, TLCExt

Traces == ndJsonDeserialize(IOEnv.TRACE_FILE)
VARIABLES tid, l
tvars == <<vars, tid, l>>
ASSUME \A k \in 1..Len(Traces) : TLCSet(k, 0)
ASSUME \A k \in 1..Len(Traces) : TLCSet(1000000 + k, 0)

TInit == tid \in 1..Len(Traces) /\ l = 1 /\ Init
Ev == Traces[tid].ev[l]
IsEvent(e) == l <= Len(Traces[tid].ev) /\ Ev.e = e /\ l' = l + 1 /\ UNCHANGED tid
IdxOf(f) == CHOOSE k \in 1..Len(FilterSeq) : FilterSeq[k] = [mode |-> f.mode, S |-> ToSet(f.S)]
Ids(lst) == [k \in 1..Len(lst) |-> [id |-> lst[k].id, sp |-> lst[k].sp]]

TParse == IsEvent("parse") /\ Parse(Ev.p, Ev.d, Ev.a)
TRelease == IsEvent("release") /\ Release(Ev.p)
TCreate == IsEvent("create") /\ Create(Ev.v, Ev.p, IdxOf(Ev.filter))
TRead == /\ IsEvent("read") /\ Read(Ev.v)
         /\ last'.f = IdxOf(Ev.filter)                                    \* the view still has the filter it was created with
         /\ LET want == Result(last') IN
              /\ Ids(want.pair) = Ids(Ev.obs.pair) /\ Ids(want.embed) = Ids(Ev.obs.embed) /\ Ids(want.dens) = Ids(Ev.obs.dens)
TNext == TParse \/ TRelease \/ TCreate \/ TRead
TSpec == TInit /\ [][TNext]_tvars

Progress == TLCSet(tid, IF TLCGet(tid) < l THEN l ELSE TLCGet(tid))
Complete == (l = Len(Traces[tid].ev) + 1) => TLCSet(1000000 + tid, 1)
Report == \A k \in 1..Len(Traces) : PrintT(<<"TRACE", k, TLCGet(k), Len(Traces[k].ev), TLCGet(1000000 + k)>>)
=============================================================================
