SPECIFICATION Spec
CONSTANTS
  Seeds = {0, 1, 2, 3}
  MaxOps = 4
  SetOrder = TRUE
  Timestamps = FALSE
  ComponentMemo = FALSE
  FailureCorrupts = FALSE
INVARIANT OutputIsFunctionOfModel
