SPECIFICATION Spec
CONSTANTS
  StripsLastChar = TRUE
  MaxLines = 2
  DigitFirstOnly = FALSE
INVARIANT FileReadOK
INVARIANT Terminates
