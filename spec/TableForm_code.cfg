SPECIFICATION Spec
CONSTANTS
  StripsLastChar = TRUE
  MaxLines = 2
INVARIANT FileReadOK
INVARIANT Terminates
