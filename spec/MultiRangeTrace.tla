--------------------------- MODULE MultiRangeTrace ---------------------------
(* Trace validation for C08: recorded queries on real multi-range objects (listings larger than the exhaustive bound)  *)
(* must be behaviours of MultiRange: between a logged query and its logged answer the transcription takes its internal *)
(* steps (Guard, Iter, AfterLoop) unobserved.                                                                         *)
EXTENDS MultiRange, TLCExt

Traces == ndJsonDeserialize(IOEnv.TRACE_FILE)
VARIABLES tid, l
tvars == <<vars, tid, l>>
ASSUME \A k \in 1..Len(Traces) : TLCSet(k, 0) /\ TLCSet(1000000 + k, 0)

TInit == /\ tid \in 1..Len(Traces) /\ l = 1
         /\ listing = [j \in 1..Len(Traces[tid].listing) |-> [ty |-> Traces[tid].listing[j][1], s |-> Traces[tid].listing[j][2], id |-> j]]
         /\ sorted = <<>> /\ r = 0 /\ i = 0 /\ last = 0 /\ ret = 0 /\ pc = "set" /\ nq = 0

Ev == Traces[tid].ev[l]
TQuery == l <= Len(Traces[tid].ev) /\ pc = "idle" /\ r' = Ev.r - 1000 /\ pc' = "guard" /\ i' = 0 /\ last' = 0 /\ ret' = 0 /\ UNCHANGED <<listing, sorted, nq, tid, l>>
TReturn == /\ pc = "done" /\ l <= Len(Traces[tid].ev)
           /\ ret \in ToSet(Ev.ids)               \* the object answered with (one of) the range(s) whose value it returned
           /\ pc' = "idle" /\ nq' = nq + 1 /\ l' = l + 1
           /\ UNCHANGED <<listing, sorted, r, i, last, ret, tid>>
TInternal == (Setter \/ Guard \/ Iter \/ AfterLoop) /\ UNCHANGED <<tid, l>>
TNext == TQuery \/ TReturn \/ TInternal
TSpec == TInit /\ [][TNext]_tvars

Progress == TLCSet(tid, IF TLCGet(tid) < l THEN l ELSE TLCGet(tid))
Complete == (l = Len(Traces[tid].ev) + 1 /\ pc = "idle") => TLCSet(1000000 + tid, 1)
\* every answered query is also one the statement allows
TraceAllowed == (pc = "done") => ret \in Allowed(listing, r)
Report == \A k \in 1..Len(Traces) : PrintT(<<"TRACE", k, TLCGet(k), Len(Traces[k].ev), TLCGet(1000000 + k)>>)
=============================================================================
