SPECIFICATION Spec
CONSTANTS
  Species = {1, 2, 3}
  Unknown = 9
  ViewIds = {1, 2}
  MaxEvents = 3
  SharedSlot = FALSE
  FlattenUnion = FALSE
  ArgAliased = TRUE
INVARIANT ReadIsFilter
INVARIANT SurvivorsInOrder
INVARIANT EmptyInclude
INVARIANT UnknownInert
