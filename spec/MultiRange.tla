----------------------------- MODULE MultiRange -----------------------------
(***************************************************************************)
(* C08: which sub-potential a multi-range potential evaluates at r.        *)
(*                                                                         *)
(* (a) the declarative statement  Allowed(listing, r)                      *)
(* (b) a transcription of the implementation: the sorted setter            *)
(*     (_range_defn_cmp + Python's stable sort) and the loop of            *)
(*     Multi_Range_Potential_Form._range_search, one action per iteration  *)
(* (c) invariants relating them, checked for every listing in the bound.   *)
(*                                                                         *)
(* A range is [ty, s, id]: marker ">" or ">=", start s, id = its position  *)
(* in the listing (so the harness can give every range its own function). *)
(* Queries may be repeated on the same object in any order (history).      *)
(* A range definition is a value: `sorted' belongs to the potential, the   *)
(* listing is never changed by it (the replay builds further potentials    *)
(* from the same definition objects before it queries the first one).      *)
(***************************************************************************)
EXTENDS Integers, Sequences, FiniteSets, TLC, SequencesExt, FiniteSetsExt, Json, IOUtils

CONSTANTS MaxRanges,   \* listings of 1..MaxRanges ranges
          Starts,      \* set of range starts (naturals; the query lattice is finer, see Rs)
          MaxQueries,  \* number of successive queries on one object
          NumericAcross \* a composite none of whose ranges offers a derivative is differentiated numerically as a whole
                        \* (central difference of the composite): the tree as it is - known finding F30; FALSE = the design
                        \* in which every consumer asks the selected range

\* query points: below, at, between and above the starts.  Starts are even numbers; an odd number stands for EVERY
\* separation strictly between two neighbouring lattice starts (the replay takes the midpoint, the floating point
\* neighbours of both ends and ends moved by 1e-12 / a relative 1e-10 as its representatives).
Rs == (Min(Starts) - 1)..(Max(Starts) + 1)

VARIABLES listing,  \* the ranges as listed by the user (never changes)
          sorted,   \* self._range_defns after the setter
          r,        \* the current query
          i, last,  \* loop variables of _range_search (indices into sorted; 0 = None)
          ret,      \* id of the range selected for the current query, 0 = None (default value 0.0)
          pc,       \* "set" | "guard" | "loop" | "done"
          nq        \* number of queries answered

vars == <<listing, sorted, r, i, last, ret, pc, nq>>

Types == {">", ">="}
Listings == UNION {{[j \in 1..n |-> [ty |-> f[j][1], s |-> f[j][2], id |-> j]] : f \in [1..n -> Types \X Starts]} : n \in 1..MaxRanges}

-----------------------------------------------------------------------------
(* (a) the statement *)

InRange(rg, x) == x > rg.s \/ (x = rg.s /\ rg.ty = ">=")
Cands(l, x) == {j \in 1..Len(l) : InRange(l[j], x)}
TopStart(l, x) == Max({l[j].s : j \in Cands(l, x)})
\* ranges with the greatest start among those that contain x.  At x = s only an inclusive range contains x, so
\* "inclusive wins over an exclusive one that shares its start" is built in; for x above a shared start both contain
\* x and the statement's wording is read permissively (DESIGN C08): either may be selected.
Allowed(l, x) == IF Cands(l, x) = {} THEN {0} ELSE {j \in Cands(l, x) : l[j].s = TopStart(l, x)}
\* the strict reading (inclusive wins also above the shared start) - NOT what the suite pins; kept to show the difference
AllowedStrict(l, x) ==
  LET A == Allowed(l, x) IN
  IF A = {0} \/ ~\E j \in A : l[j].ty = ">=" THEN A ELSE {j \in A : l[j].ty = ">="}

\* what the implementation computes, described on the SET of ranges (hence independent of the listing order):
\* among Allowed, the exclusive range if x is above the start and there is one, else the inclusive one
KeyOf(l, j) == IF j = 0 THEN <<"none", 0>> ELSE <<l[j].ty, l[j].s>>
CodeKeys(l, x) ==
  LET A == Allowed(l, x) IN
  IF A = {0} THEN {<<"none", 0>>}
  ELSE IF \E j \in A : l[j].ty = ">" THEN {<<">", TopStart(l, x)>>} ELSE {<<">=", TopStart(l, x)>>}

NoExactDuplicates(l) == \A a, b \in 1..Len(l) : a # b => <<l[a].ty, l[a].s>> # <<l[b].ty, l[b].s>>

-----------------------------------------------------------------------------
(* (b) the implementation *)

\* _range_defn_cmp: by start; at equal starts ">=" sorts before ">"; otherwise equal.  list.sort is stable,
\* so equal elements keep their listing order: the sort key is (start, marker rank, position).
Rank(ty) == IF ty = ">=" THEN 0 ELSE 1
Before(a, b) == \/ a.s < b.s
                \/ a.s = b.s /\ Rank(a.ty) < Rank(b.ty)
                \/ a.s = b.s /\ Rank(a.ty) = Rank(b.ty) /\ a.id < b.id
StableSort(l) == SortSeq(l, Before)

Init == /\ listing \in Listings
        /\ sorted = <<>> /\ r = 0 /\ i = 0 /\ last = 0 /\ ret = 0 /\ pc = "set" /\ nq = 0

\* range_defns.setter
Setter == /\ pc = "set"
          /\ sorted' = StableSort(listing)
          /\ pc' = "idle"
          /\ UNCHANGED <<listing, r, i, last, ret, nq>>

\* __call__(r) / deriv(r) / deriv2(r) all start with _range_search(r)
Query(x) == /\ pc = "idle" /\ nq < MaxQueries
            /\ r' = x /\ pc' = "guard" /\ i' = 0 /\ last' = 0 /\ ret' = 0
            /\ UNCHANGED <<listing, sorted, nq>>

\* if not rt or r < rt[0].start or (r == rt[0].start and rt[0].range_type == '>'): return None
Guard == /\ pc = "guard"
         /\ IF sorted = <<>> \/ r < sorted[1].s \/ (r = sorted[1].s /\ sorted[1].ty = ">")
            THEN /\ ret' = 0 /\ pc' = "done" /\ UNCHANGED <<i, last>>
            ELSE /\ i' = 1 /\ last' = 0 /\ pc' = "loop" /\ UNCHANGED ret
         /\ UNCHANGED <<listing, sorted, r, nq>>

\* for t in rt: ...
Iter == /\ pc = "loop" /\ i <= Len(sorted)
        /\ LET t == sorted[i] IN
           IF r = t.s /\ t.ty = ">="
           THEN /\ ret' = t.id /\ pc' = "done" /\ UNCHANGED <<i, last>>
           ELSE IF last # 0 /\ r <= t.s /\ r > sorted[last].s
           THEN /\ ret' = sorted[last].id /\ pc' = "done" /\ UNCHANGED <<i, last>>
           ELSE /\ last' = i /\ i' = i + 1 /\ UNCHANGED <<ret, pc>>
        /\ UNCHANGED <<listing, sorted, r, nq>>

\* if last and r > last.start: return last   (falls off the end otherwise: None)
AfterLoop == /\ pc = "loop" /\ i > Len(sorted)
             /\ ret' = IF last # 0 /\ r > sorted[last].s THEN sorted[last].id ELSE 0
             /\ pc' = "done"
             /\ UNCHANGED <<listing, sorted, r, i, last, nq>>

Return == /\ pc = "done"
          /\ pc' = "idle" /\ nq' = nq + 1
          /\ UNCHANGED <<listing, sorted, r, i, last, ret>>

Next == Setter \/ (\E x \in Rs : Query(x)) \/ Guard \/ Iter \/ AfterLoop \/ Return

Spec == Init /\ [][Next]_vars

-----------------------------------------------------------------------------
(* (c) properties *)

TypeOK == /\ pc \in {"set", "idle", "guard", "loop", "done"} /\ ret \in 0..Len(listing) /\ last \in 0..Len(sorted)

\* C08: the selected range is one the statement allows
SelectsAllowed == (pc = "done") => ret \in Allowed(listing, r)
\* listing-order independence: the answer is a function of the SET of ranges
OrderIndependent == (pc = "done" /\ NoExactDuplicates(listing)) => KeyOf(listing, ret) \in CodeKeys(listing, r)
\* below the first range the default (0) is returned, and only there
DefaultOnlyBelow == (pc = "done") => ((ret = 0) <=> (Cands(listing, r) = {}))
\* the setter sorts: starts ascending, inclusive before exclusive
SortedOK == (pc # "set") => \A a, b \in 1..Len(sorted) : a < b => ~Before(sorted[b], sorted[a])
\* not an invariant of the implementation (TLC exhibits << >1, >=1 >>, r above 1): documents the tie decision
StrictTie == (pc = "done") => ret \in AllowedStrict(listing, r)

\* C08 "derivatives are taken from the same selected range".  The ranges that contribute to the derivative at x:
\* a composite that offers .deriv (some range has an analytic derivative) asks the selected range; one that offers none
\* is differentiated by its consumer (Potential.force, the spline modifiers): a central difference of the COMPOSITE
\* evaluates it just below and just above x, which on a range start are the separations of the neighbouring intervals.
OnStart(x) == x \in Starts
DerivSources(l, x, offersDeriv) ==
  IF offersDeriv \/ ~NumericAcross THEN CodeKeys(l, x)
  ELSE IF OnStart(x) THEN CodeKeys(l, x - 1) \cup CodeKeys(l, x + 1) ELSE CodeKeys(l, x)
DerivFromSelected == (pc = "done" /\ NoExactDuplicates(listing)) =>
                       \A od \in BOOLEAN : DerivSources(listing, r, od) = {KeyOf(listing, ret)}
\* what the tree as it is (NumericAcross) satisfies: everything but a derivative-less composite queried on a lattice start
DerivFromSelectedButF30 == (pc = "done" /\ NoExactDuplicates(listing)) =>
                             \A od \in BOOLEAN : (od \/ ~OnStart(r)) => DerivSources(listing, r, od) = {KeyOf(listing, ret)}

NoStuck == (~ENABLED Next) => (pc = "idle" /\ nq = MaxQueries)

-----------------------------------------------------------------------------
(* case emission for the replay: every listing with the allowed ids per query point *)
CaseOf(l) == [listing |-> [j \in 1..Len(l) |-> <<l[j].ty, l[j].s>>],
              exp |-> [x \in 1..Cardinality(Rs) |->
                        LET q == Min(Rs) + x - 1 IN
                        [r |-> q + 1000,      \* shifted: JSON integers stay non-negative for the reader's convenience
                         allowed |-> SetToSeq(Allowed(l, q)),
                         nodup |-> NoExactDuplicates(l),
                         code |-> CHOOSE k \in CodeKeys(l, q) : TRUE]]]
EmitCases == IF "EMIT" \in DOMAIN IOEnv /\ IOEnv.EMIT = "1"
             THEN ndJsonSerialize(IOEnv.VERIF_OUT \o "/cases.ndjson", SetToSeq({CaseOf(l) : l \in Listings}))
             ELSE TRUE
ASSUME EmitCases
=============================================================================
