SPECIFICATION Spec
CONSTANTS
  Species = {1, 2, 3}
  Fs = FALSE
  SetOrder = FALSE
  PairSpeciesFiltered = FALSE
INVARIANT BuilderOK
INVARIANT ElementsOnce
INVARIANT Terminates
