SPECIFICATION Spec
