SPECIFICATION Spec
CONSTANTS
  MissingItemCrashes = FALSE
INVARIANT QueriesNeverWrite
INVARIANT OnlySuccessWrites
INVARIANT ExitCodes
INVARIANT FinalAgrees
INVARIANT Terminates
INVARIANT NoInternalErrors
