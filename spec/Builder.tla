------------------------------ MODULE Builder ------------------------------
(***************************************************************************)
(* From a potable file to the objects the EAM writers receive              *)
(* (EAM_Potential_Builder / EAM_Potential_Builder_FS).  Layout.tla takes   *)
(* the element order and the declared / zero-filled functions of a model   *)
(* as given; this module says where they come from:                        *)
(*                                                                         *)
(*   statement   the elements are the species with an embedding entry, in  *)
(*               the order of those entries, followed by the other species *)
(*               of the density section in sorted order; every element has *)
(*               the embedding and density function declared for it, or    *)
(*               zero; pair potentials are handed on untouched.            *)
(*   code        a transcription of _init_eampotentials: the dictionaries  *)
(*               built entry by entry, then _add_null_embedding_functions  *)
(*               and _add_null_density_functions, one action each.         *)
(*                                                                         *)
(* Switches: SetOrder (zero-filled species appended in set-iteration order,*)
(* the tree before finding F02 was repaired), PairSpeciesFiltered (pair    *)
(* potentials of species without an embedding entry are dropped: not the   *)
(* tree as it is).  Serves C03, C04, C05, C12.                             *)
(***************************************************************************)
EXTENDS Integers, Sequences, FiniteSets, TLC, SequencesExt, FiniteSetsExt, Json, IOUtils

CONSTANTS Species,        \* species ranks
          Fs,             \* Finnis-Sinclair (densities per ordered pair) or plain EAM
          SetOrder, PairSpeciesFiltered

Asc(S) == SetToSortSeq(S, <)
Desc(S) == SetToSortSeq(S, >)
InjSeqs(S) == UNION {{q \in [1..n -> S] : \A a, b \in 1..n : a # b => q[a] # q[b]} : n \in 0..Cardinality(S)}

\* a file: embedding entries in file order, density entries (species, or ordered pairs), pair entries (unordered pairs as sets)
DensKeys == IF Fs THEN Species \X Species ELSE {<<a, 0>> : a \in Species}
Files == {f \in {[embed |-> e, dens |-> d, pairs |-> p] :
                   e \in InjSeqs(Species), d \in SUBSET DensKeys, p \in {{}, {{a, b} : a, b \in Species}, {{Min(Species)}}}} :
            f.embed # <<>> \/ f.dens # {}}          \* a model without any EAM species is not an EAM model
DensSpecies(f) == IF Fs THEN {k[1] : k \in f.dens} \cup {k[2] : k \in f.dens} ELSE {k[1] : k \in f.dens}

-----------------------------------------------------------------------------
(* the statement *)
Elements(f) == f.embed \o Asc(DensSpecies(f) \ Range(f.embed))
EmbedOf(f, s) == IF s \in Range(f.embed) THEN <<"embed", s, 0>> ELSE <<"zero", 0, 0>>
DensOf(f, a, b) == IF <<a, b>> \in f.dens THEN <<"dens", a, b>> ELSE <<"zero", 0, 0>>
Objects(f) == [els |-> Elements(f),
               embed |-> [i \in 1..Len(Elements(f)) |-> EmbedOf(f, Elements(f)[i])],
               dens |-> [i \in 1..Len(Elements(f)) |->
                           IF Fs THEN [j \in 1..Len(Elements(f)) |-> DensOf(f, Elements(f)[i], Elements(f)[j])]
                           ELSE <<DensOf(f, Elements(f)[i], 0)>>],
               pairs |-> f.pairs]

-----------------------------------------------------------------------------
(* the code *)
VARIABLES file, pc,
          order,       \* insertion order of embed_dict
          edict,       \* species -> function
          ddict,       \* species -> function, or species -> (species -> function)
          out
vars == <<file, pc, order, edict, ddict, out>>
Zero == <<"zero", 0, 0>>

Init == file \in Files /\ pc = "dicts" /\ order = <<>> /\ edict = <<>> /\ ddict = <<>> /\ out = <<>>

\* _embed_to_potential_form_dict / _density_to_potential_form_dict: entry by entry
BuildDicts ==
  /\ pc = "dicts"
  /\ order' = file.embed
  /\ edict' = [s \in Range(file.embed) |-> <<"embed", s, 0>>]
  /\ ddict' = IF Fs THEN [a \in {k[1] : k \in file.dens} |-> [b \in {k[2] : k \in {x \in file.dens : x[1] = a}} |-> <<"dens", a, b>>]]
                    ELSE [a \in {k[1] : k \in file.dens} |-> <<"dens", a, 0>>]
  /\ pc' = "null-embed" /\ UNCHANGED <<file, out>>

\* _add_null_embedding_functions: for s in sorted(density_species - defined): embed_dict[s] = zero
NullEmbed ==
  /\ pc = "null-embed"
  /\ LET missing == DensSpecies(file) \ DOMAIN edict
         appended == IF SetOrder THEN Desc(missing) ELSE Asc(missing)      \* some other order stands for set-iteration order
     IN /\ order' = order \o appended
        /\ edict' = [s \in DOMAIN edict \cup missing |-> IF s \in DOMAIN edict THEN edict[s] ELSE Zero]
  /\ pc' = "null-dens" /\ UNCHANGED <<file, ddict, out>>

\* _add_null_density_functions: setdefault for every species (and, for Finnis-Sinclair, every ordered pair of species)
NullDens ==
  /\ pc = "null-dens"
  /\ LET all == DOMAIN edict \cup DensSpecies(file) IN
     ddict' = IF Fs
              THEN [a \in all |-> [b \in all |-> IF a \in DOMAIN ddict /\ b \in DOMAIN ddict[a] THEN ddict[a][b] ELSE Zero]]
              ELSE [a \in all |-> IF a \in DOMAIN ddict THEN ddict[a] ELSE Zero]
  /\ pc' = "objects" /\ UNCHANGED <<file, order, edict, out>>

\* for species in embed_dict: EAMPotential(species, embed_dict[species], density_dict[species]); pair potentials come from the
\* pair builder and are handed on as they are
MakeObjects ==
  /\ pc = "objects"
  /\ out' = [els |-> order,
             embed |-> [i \in 1..Len(order) |-> edict[order[i]]],
             dens |-> [i \in 1..Len(order) |-> IF Fs THEN [j \in 1..Len(order) |-> ddict[order[i]][order[j]]] ELSE <<ddict[order[i]]>>],
             pairs |-> IF PairSpeciesFiltered THEN {p \in file.pairs : p \subseteq Range(file.embed)} ELSE file.pairs]
  /\ pc' = "done" /\ UNCHANGED <<file, order, edict, ddict>>

Next == BuildDicts \/ NullEmbed \/ NullDens \/ MakeObjects
Spec == Init /\ [][Next]_vars

-----------------------------------------------------------------------------
BuilderOK == (pc = "done") => out = Objects(file)
ElementsOnce == (pc = "done") => \A i, j \in 1..Len(out.els) : i # j => out.els[i] # out.els[j]
Terminates == (~ENABLED Next) => pc = "done"

Case(f) == [embed |-> f.embed, dens |-> SetToSeq(f.dens), pairs |-> SetToSeq({SetToSeq(p) : p \in f.pairs}), objects |-> Objects(f)]
Emit == IF "EMIT" \in DOMAIN IOEnv /\ IOEnv.EMIT = "1"
        THEN ndJsonSerialize(IOEnv.VERIF_OUT \o "/cases.ndjson", SetToSeq({Case(f) : f \in Files}))
        ELSE TRUE
ASSUME Emit
=============================================================================
