SPECIFICATION Spec
CONSTANTS
  RawStrict = FALSE
  FormulaShadows = FALSE
  DipoleUnchecked = FALSE
  BuiltinClashCrashes = FALSE
  LateBuiltinShadowed = FALSE
  AddRawKey = TRUE
INVARIANT NoDuplicateSurvives
INVARIANT Terminates
