SPECIFICATION Spec
CONSTANTS
  DefaultsLeak = FALSE
  MaxLift = 3
INVARIANT InterpolationIsSubstitution
INVARIANT VariablesInert
