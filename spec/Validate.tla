------------------------------ MODULE Validate ------------------------------
(***************************************************************************)
(* C16: malformed models give configuration errors; valid models are never *)
(* rejected.                                                               *)
(*                                                                         *)
(* A run of potable is a pipeline of stages, in the order the code runs    *)
(* them.  A malformation operator spoils exactly one thing; Where(op) is   *)
(* the first stage that can notice it.  Two stages are LAZY: the formula   *)
(* of a custom form is only parsed by the first evaluation that touches    *)
(* it, i.e. during the write, after the output file has been opened.       *)
(*                                                                         *)
(* The statement: every operator ends in "config" (a                       *)
(* ConfigurationException, printed as 'configuration error - ...', exit    *)
(* status 2) and no table is left behind; an unspoilt model ends in "ok".  *)
(* Crashes(op) lists the operators the unrepaired tree lets escape as      *)
(* internal exceptions or accepts silently (the switch Unrepaired); the    *)
(* replay establishes which class the real code is in.                     *)
(***************************************************************************)
EXTENDS Integers, Sequences, FiniteSets, TLC, SequencesExt, Json, IOUtils

CONSTANTS Unrepaired

Stages == <<"read", "interpolate", "dup-check", "tabulation", "registry", "pair-builder", "eam-builder", "open", "evaluate", "close">>
StageNo(s) == CHOOSE i \in 1..Len(Stages) : Stages[i] = s

Op(id, where) == [id |-> id, where |-> where]
Operators == {
  Op("not-text", "read"), Op("not-ini", "read"), Op("text-before-header", "read"), Op("unclosed-header", "read"), Op("no-delimiter", "read"),
  Op("placeholder-missing", "interpolate"), Op("placeholder-missing-section", "interpolate"), Op("placeholder-syntax", "interpolate"), Op("placeholder-circular", "interpolate"),
  Op("edit-placeholder-syntax", "read"),        \* a malformed place-holder arriving through --override-item / --add-item / overrides=
  Op("pair-key-no-dash", "dup-check"), Op("pair-key-two-dashes", "dup-check"), Op("adp-key-no-dash", "dup-check"), Op("pair-key-empty-species", "dup-check"),
  Op("target-unknown", "tabulation"), Op("target-empty", "tabulation"), Op("target-wrong-case", "tabulation"),
  Op("grid-all-three", "tabulation"), Op("grid-step-alone", "tabulation"), Op("grid-zero-nr", "tabulation"), Op("grid-negative-cutoff", "tabulation"),
  Op("grid-nonnumeric-nr", "tabulation"), Op("grid-float-nr", "tabulation"), Op("grid-nonnumeric-cutoff", "tabulation"),
  Op("rho-all-three", "tabulation"), Op("rho-step-alone", "tabulation"), Op("rho-nonnumeric", "tabulation"),
  Op("grid-one-row", "tabulation"), Op("rho-one-row", "tabulation"), Op("dlpoly-four-rows", "tabulation"), Op("dlpoly-not-multiple-of-four", "tabulation"), Op("dlpoly-default-rows", "tabulation"),
  Op("cutoff-nan", "tabulation"), Op("cutoff-inf", "tabulation"), Op("grid-step-underflow", "tabulation"), Op("grid-overflow", "tabulation"),
  Op("table-no-data", "registry"), Op("table-x-and-xy", "registry"), Op("table-length-mismatch", "registry"), Op("table-odd-xy", "registry"),
  Op("table-nonnumeric", "registry"), Op("table-unknown-interpolation", "registry"), Op("table-empty-interpolation", "registry"),
  Op("table-only-x", "registry"), Op("table-only-y", "registry"), Op("table-three-points", "registry"), Op("table-not-increasing", "registry"),
  Op("table-repeated-x", "registry"), Op("table-empty-data", "registry"), Op("table-not-finite", "registry"), Op("table-empty-name", "registry"),
  Op("table-named-like-library-function", "registry"),
  Op("form-bad-signature", "registry"), Op("form-dotted-name", "registry"), Op("form-no-parameters", "registry"), Op("form-reserved-parameter", "registry"), Op("form-parameters-differ-in-case", "registry"), Op("form-parameter-repeated", "registry"),
  Op("form-named-like-expression-builtin", "registry"), Op("formula-unused-malformed", "registry"), Op("label-not-ascii", "registry"),
  Op("parameter-overflow", "pair-builder"), Op("trans-second-multi-range", "pair-builder"), Op("spline-endpoint-unevaluable", "pair-builder"),
  Op("species-not-finite", "eam-builder"), Op("species-key-empty-part", "eam-builder"), Op("formula-library-call-wrong-arity", "evaluate"), Op("form-numeric-parameter", "registry"),
  Op("form-same-label-other-arity", "registry"), Op("form-parameter-named-like-a-form", "registry"), Op("form-label-reserved", "registry"), Op("form-labels-differ-in-case", "registry"),
  Op("form-signature-trailing-text", "registry"),
  Op("missing-pair-section", "pair-builder"), Op("unknown-form", "pair-builder"), Op("unknown-modifier", "pair-builder"), Op("nested-unknown-form", "pair-builder"),
  Op("too-few-parameters", "pair-builder"), Op("too-many-parameters", "pair-builder"), Op("nonnumeric-parameter", "pair-builder"), Op("empty-value", "pair-builder"),
  Op("empty-sum", "pair-builder"), Op("unbalanced-parenthesis", "pair-builder"), Op("bad-range-marker", "pair-builder"), Op("less-than-marker", "pair-builder"),
  Op("table-with-parameters", "pair-builder"),
  Op("spline-one-part", "pair-builder"), Op("spline-two-parts", "pair-builder"), Op("spline-four-parts", "pair-builder"), Op("spline-two-arguments", "pair-builder"),
  Op("spline-unknown-type", "pair-builder"), Op("spline-starts-not-increasing", "pair-builder"), Op("exp-spline-with-parameters", "pair-builder"),
  Op("buck4-spline-without-rmin", "pair-builder"), Op("buck4-spline-rmin-below-detach", "pair-builder"), Op("buck4-spline-rmin-above-attach", "pair-builder"),
  Op("buck4-form-rmin-outside", "pair-builder"), Op("spline-middle-is-modifier", "pair-builder"),
  Op("trans-one-argument", "pair-builder"), Op("trans-second-not-constant", "pair-builder"), Op("trans-constant-two-values", "pair-builder"), Op("trans-second-is-modifier", "pair-builder"),
  Op("eam-missing-embed-section", "eam-builder"), Op("eam-missing-density-section", "eam-builder"), Op("eam-missing-pair-section", "pair-builder"),
  Op("adp-missing-dipole-section", "eam-builder"), Op("adp-missing-quadrupole-section", "eam-builder"),
  Op("eam-unknown-species", "eam-builder"), Op("fs-plain-keys", "eam-builder"), Op("fs-double-arrow", "eam-builder"), Op("eam-arrow-keys", "eam-builder"), Op("fs-dangling-arrow", "eam-builder"),
  Op("embed-unknown-form", "eam-builder"), Op("density-wrong-arity", "eam-builder"),
  Op("species-key-no-dot", "eam-builder"), Op("species-nonnumeric-number", "eam-builder"), Op("species-nonnumeric-mass", "eam-builder"), Op("species-float-number", "eam-builder"),
  Op("formula-unparsable", "evaluate"), Op("formula-undefined-symbol", "evaluate"), Op("formula-call-wrong-arity", "evaluate") }

\* what the unrepaired tree does with an operator when the noticing stage is reached
Escapes == {"label-not-ascii", "spline-endpoint-unevaluable", "formula-library-call-wrong-arity", "not-text", "edit-placeholder-syntax", "grid-step-underflow", "form-parameter-named-like-a-form", "form-label-reserved", "table-named-like-library-function", "not-ini", "text-before-header", "unclosed-header", "no-delimiter", "placeholder-missing", "placeholder-missing-section", "placeholder-syntax",
            "pair-key-no-dash", "pair-key-two-dashes", "adp-key-no-dash", "grid-one-row", "rho-one-row", "dlpoly-four-rows",
            "table-only-x", "table-only-y", "table-three-points", "table-not-increasing", "table-repeated-x", "table-empty-data", "table-with-parameters",
            "form-no-parameters", "form-numeric-parameter", "exp-spline-with-parameters", "buck4-spline-without-rmin", "spline-middle-is-modifier",
            "trans-second-is-modifier", "fs-plain-keys", "fs-double-arrow", "species-nonnumeric-number", "species-nonnumeric-mass", "species-float-number"}
Accepted == {"form-named-like-expression-builtin", "formula-unused-malformed", "parameter-overflow", "trans-second-multi-range", "species-not-finite", "species-key-empty-part", "form-labels-differ-in-case", "pair-key-empty-species", "grid-overflow", "table-not-finite", "table-empty-name", "form-signature-trailing-text", "cutoff-nan", "cutoff-inf", "buck4-spline-rmin-below-detach", "buck4-spline-rmin-above-attach", "buck4-form-rmin-outside"}

VARIABLES op, stage, outcome, fileOpened, table
vars == <<op, stage, outcome, fileOpened, table>>

NoOp == Op("(none)", "never")

Init == /\ op \in Operators \cup {NoOp} /\ stage = 1 /\ outcome = "running" /\ fileOpened = FALSE /\ table = "absent"

Notice == /\ outcome = "running" /\ op # NoOp /\ Stages[stage] = op.where
          /\ outcome' = IF Unrepaired /\ op.id \in Escapes THEN "internal"
                        ELSE IF Unrepaired /\ op.id \in Accepted THEN "running" ELSE "config"
          /\ IF Unrepaired /\ op.id \in Accepted THEN stage' = stage + 1 ELSE UNCHANGED stage
          /\ UNCHANGED <<op, fileOpened, table>>

Advance == /\ outcome = "running" /\ (op = NoOp \/ Stages[stage] # op.where) /\ stage < Len(Stages)
           /\ stage' = stage + 1
           /\ fileOpened' = (fileOpened \/ Stages[stage] = "open")
           /\ table' = IF Stages[stage] = "open" THEN "empty" ELSE IF Stages[stage] = "evaluate" THEN "whole" ELSE table
           /\ UNCHANGED <<op, outcome>>

Finish == /\ outcome = "running" /\ stage = Len(Stages) /\ (op = NoOp \/ Stages[stage] # op.where)
          /\ outcome' = "ok" /\ UNCHANGED <<op, stage, fileOpened, table>>

Next == Notice \/ Advance \/ Finish
Spec == Init /\ [][Next]_vars

\* C16
MalformedIsConfigError == (op # NoOp /\ outcome # "running") => outcome = "config"
ValidIsAccepted == (op = NoOp /\ outcome # "running") => (outcome = "ok" /\ table = "whole")
\* a rejected model never leaves a table behind, even when the error only surfaces after the output was opened
RejectedMeansNoTable == (outcome \in {"config", "internal"}) => table \in {"absent", "empty"}
Terminates == (~ENABLED Next) => outcome # "running"

Emit == IF "EMIT" \in DOMAIN IOEnv /\ IOEnv.EMIT = "1"
        THEN ndJsonSerialize(IOEnv.VERIF_OUT \o "/operators.ndjson", SetToSeq(Operators))
        ELSE TRUE
ASSUME Emit
=============================================================================
