----------------------------- MODULE ViewSession -----------------------------
(***************************************************************************)
(* C13 over a whole process: several files are parsed, filtered views of   *)
(* them are created and read, parsers are released and new ones take their *)
(* place in memory.  Whatever happened before, a read of a view returns    *)
(* the list of ITS OWN file with the unwanted entries deleted.             *)
(*                                                                         *)
(* Views.tla covers the histories on one parsed file; this module adds the *)
(* life cycle of the parsed files themselves.  The implementation keeps no *)
(* state outside the view and its parser, so in the model of the tree as   *)
(* it is `memo' is a ghost: it records what a process-wide memo keyed on   *)
(* the parser's identity (its address) WOULD hold.  The switch             *)
(* IdentityMemo makes reads consult it - the realistic way to break the    *)
(* property without any test noticing - and the ghost makes TLC's state    *)
(* space distinguish exactly the histories on which that would show, so    *)
(* that the witness history printed for every distinct state includes them *)
(* for the replay on the real classes.                                     *)
(***************************************************************************)
EXTENDS ViewsBase

CONSTANTS Parsers,       \* handles the process holds on parsed files
          Addrs,         \* addresses the allocator hands out (reused after a release)
          ViewIds,
          FilterSeq,     \* the filters views are created with
          Filters,       \* indices into FilterSeq
          MaxEvents,
          IdentityMemo

\* a small pool of filters for model checking (every filter against every file is replayed from Views.tla); the trace
\* specification uses every filter
PoolFilterSeq == << [mode |-> "include", S |-> {1, 2}], [mode |-> "exclude", S |-> {2}], [mode |-> "include", S |-> {2, 3, Unknown}] >>
AllFilterSeq == SetToSeq(ViewSpace)
AllFilters == 1..Len(AllFilterSeq)
ASSUME Filters \subseteq 1..Len(FilterSeq)

Dead == [alive |-> FALSE, doc |-> 0, addr |-> 0]
NoV == [p |-> 0, f |-> 0]

VARIABLES parser,   \* Parsers -> [alive, doc, addr]
          views,    \* ViewIds -> [p, f] or NoV
          memo,     \* <<addr, f>> -> doc whose lists were remembered under that key (0: nothing)
          last,     \* the last read: [v, doc, f, from, ghost] - `from' is the file whose entries were returned, `ghost' what the memo held
          hist      \* the events so far (hidden from the state by the VIEW)

vars == <<parser, views, memo, last, hist>>
View == <<parser, views, memo, last>>

Init == /\ parser = [p \in Parsers |-> Dead]
        /\ views = [v \in ViewIds |-> NoV]
        /\ memo = [k \in Addrs \X Filters |-> 0]
        /\ last = [v |-> 0, doc |-> 0, f |-> 0, from |-> 0, ghost |-> 0]
        /\ hist = <<>>

Free == Addrs \ {parser[p].addr : p \in {q \in Parsers : parser[q].alive}}

\* ConfigParser(file): the new object lands on any free address
Parse(p, d, a) == /\ ~parser[p].alive /\ a \in Free
                  /\ parser' = [parser EXCEPT ![p] = [alive |-> TRUE, doc |-> d, addr |-> a]]
                  /\ hist' = Append(hist, [e |-> "parse", p |-> p, d |-> d, v |-> 0, f |-> 0])
                  /\ UNCHANGED <<views, memo, last>>

\* the last reference to a parser and to its views goes away
Release(p) == /\ parser[p].alive
              /\ parser' = [parser EXCEPT ![p] = Dead]
              /\ views' = [v \in ViewIds |-> IF views[v].p = p THEN NoV ELSE views[v]]
              /\ hist' = Append(hist, [e |-> "release", p |-> p, d |-> 0, v |-> 0, f |-> 0])
              /\ UNCHANGED <<memo, last>>

\* FilteredConfigParser(parser, include= / exclude=)
Create(v, p, f) == /\ parser[p].alive
                   /\ views' = [views EXCEPT ![v] = [p |-> p, f |-> f]]
                   /\ hist' = Append(hist, [e |-> "create", p |-> p, d |-> 0, v |-> v, f |-> f])
                   /\ UNCHANGED <<parser, memo, last>>

\* reading the pair / embedding / density lists of a view
Read(v) == /\ views[v] # NoV
           /\ LET p == views[v].p
                  f == views[v].f
                  key == <<parser[p].addr, f>>
                  held == IF memo[key] # 0 THEN memo[key] ELSE parser[p].doc     \* what such a memo holds after this read
              IN /\ last' = [v |-> v, doc |-> parser[p].doc, f |-> f, from |-> IF IdentityMemo THEN held ELSE parser[p].doc, ghost |-> memo[key]]
                 /\ memo' = [memo EXCEPT ![key] = held]
           /\ hist' = Append(hist, [e |-> "read", p |-> views[v].p, d |-> 0, v |-> v, f |-> views[v].f])
           /\ UNCHANGED <<parser, views>>

Next == \/ \E p \in Parsers, d \in 1..Len(DocSeq), a \in Addrs : Parse(p, d, a)
        \/ \E p \in Parsers : Release(p)
        \/ \E v \in ViewIds, p \in Parsers, f \in Filters : Create(v, p, f)
        \/ \E v \in ViewIds : Read(v)
Spec == Init /\ [][Next]_vars
Bounded == Len(hist) <= MaxEvents

-----------------------------------------------------------------------------
Result(r) == DeleteMentioning(DocSeq[r.from], FilterSeq[r.f])
\* a read returns the lists of the view's own file with the unwanted entries deleted - whatever the process did before
ReadIsFilterOfOwnFile == (last.v # 0) => Result(last) = DeleteMentioning(DocSeq[last.doc], FilterSeq[last.f])
\* a view never outlives its parser, two live parsers never share an address
ViewsOfLiveParsers == \A v \in ViewIds : views[v] # NoV => parser[views[v].p].alive
AddressesDistinct == \A p, q \in Parsers : (p # q /\ parser[p].alive /\ parser[q].alive) => parser[p].addr # parser[q].addr

\* the witness history of every distinct state that ends in a read, for the replay (hist is outside the VIEW, so this is
\* one - shortest - history per distinct (parsers, views, ghost memo, last read))
EmitHistory == (Len(hist) > 0 /\ hist[Len(hist)].e = "read" /\ "EMIT" \in DOMAIN IOEnv /\ IOEnv.EMIT = "1")
               => PrintT(<<"CASE", ToJson([hist |-> hist, stale |-> (last.ghost # 0 /\ last.ghost # last.doc)])>>)
EmitFilters == IF "EMIT" \in DOMAIN IOEnv /\ IOEnv.EMIT = "1"
               THEN ndJsonSerialize(IOEnv.VERIF_OUT \o "/filters.ndjson", [i \in 1..Len(FilterSeq) |-> [mode |-> FilterSeq[i].mode, S |-> SetToSeq(FilterSeq[i].S)]])
               ELSE TRUE
ASSUME EmitFilters
=============================================================================
