SPECIFICATION Spec
CONSTANTS
  K = {"form", "par", "mk", "st", "tail", "body"}
  MaxEvents = 6
CONSTRAINT Bounded
INVARIANT OwnMeaning
