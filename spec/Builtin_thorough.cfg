SPECIFICATION Spec
CONSTANTS
  MaxArity = 7
  Deep = TRUE
INVARIANT RoutesAgree
INVARIANT PotableArityChecked
INVARIANT Terminates
