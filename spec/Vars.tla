-------------------------------- MODULE Vars --------------------------------
(***************************************************************************)
(* C15: ${NAME} / ${SECTION:KEY} placeholders are textual substitution and *)
(* [Variables] changes nothing else.                                       *)
(*                                                                         *)
(* The base file has literal values at a number of POSITIONS (one per      *)
(* option).  A templated file lifts a subset P of the positions into       *)
(* [Variables] (or refers to another section's option holding the same     *)
(* literal) and may define further, unreferenced variables.  What every    *)
(* consumer of a section sees - the section's keys and their resolved      *)
(* values - must be what it sees in the base file.                         *)
(*                                                                         *)
(* The implementation is configparser with ExtendedInterpolation.  The     *)
(* switch DefaultsLeak models the unrepaired tree, where [Variables] is    *)
(* configparser's default section: every variable then appears as an       *)
(* option of EVERY section.                                                *)
(***************************************************************************)
EXTENDS Integers, Sequences, FiniteSets, TLC, SequencesExt, FiniteSetsExt, Json, IOUtils

CONSTANTS DefaultsLeak, MaxLift

\* positions: [p, sec, key, lit]  - option `key` of section `sec` holds literal `lit`
Pos == { [p |-> 1, sec |-> "Tabulation", key |-> "nr", lit |-> "L9"],
         [p |-> 2, sec |-> "Tabulation", key |-> "cutoff_rho", lit |-> "L3"],
         [p |-> 3, sec |-> "Pair", key |-> "A-B", lit |-> "L03"],
         [p |-> 4, sec |-> "Pair", key |-> "B-B", lit |-> "L03"],
         [p |-> 5, sec |-> "Potential-Form", key |-> "f(r,a)", lit |-> "L03"],
         [p |-> 6, sec |-> "Species", key |-> "Al.lattice_constant", lit |-> "L3"],
         [p |-> 7, sec |-> "Table-Form:tf", key |-> "y", lit |-> "Ly"],
         [p |-> 8, sec |-> "EAM-Embed", key |-> "Al", lit |-> "L9"],
         [p |-> 9, sec |-> "EAM-Density", key |-> "Al", lit |-> "L03"],
         \* the tabulation target itself (the replay uses documented synonym spellings too: lammps_eam_alloy, LAMMPS_eam_alloy)
         [p |-> 10, sec |-> "Tabulation", key |-> "target", lit |-> "Ltarget"] }
PosIds == {x.p : x \in Pos}
At(p) == CHOOSE x \in Pos : x.p = p
SectionsOfFile == {x.sec : x \in Pos}
\* keys a section owns in the base file (besides the positions, fixed context keys that hold no liftable literal)
ContextKeys(s) == CASE s = "Tabulation" -> {"nrho"}     \* deliberately NOT cutoff, dr: the defaults apply
                    [] s = "Table-Form:tf" -> {"x"}
                    [] OTHER -> {}
OwnKeys(s) == {x.key : x \in {y \in Pos : y.sec = s}} \cup ContextKeys(s)
\* the templated file's helper options are options of their section too

\* naming schemes for the variables that replace lifted literals
\*  plain   : v1 .. v9
\*  keylike : names that are option names of OTHER sections of the input format
\*  shared  : one variable per distinct literal
\*  secref  : no variable: ${SECTION:KEY} of another position that holds the same literal (when there is one)
\*  chained : v1 .. v9, each defined as ${w1} .. ${w9}, which hold the literals (a variable defined through a variable)
\*  ownkey  : a lifted [Tabulation] position p refers to a helper option h<p> of its OWN section, which holds the literal, while
\*            [Variables] defines a decoy h<p> with another value (${name} means the own section first); the other lifted
\*            positions refer to such a position by ${SECTION:KEY} where they can, else to a plain variable
Schemes == {"plain", "keylike", "shared", "secref", "chained", "ownkey"}
KeyLike(p) == CASE p = 1 -> "A-B" [] p = 2 -> "x" [] p = 3 -> "nr" [] p = 4 -> "cutoff" [] p = 5 -> "target"
                [] p = 6 -> "y" [] p = 7 -> "dr" [] p = 8 -> "drho" [] p = 9 -> "interpolation" [] p = 10 -> "lattice_type"
Partner(p) == \* another position with the same literal in a different section (for ${SECTION:KEY})
  \* only an option whose WHOLE value is the literal can be referred to (positions 1, 2, 6, 7)
  LET c == {q \in PosIds : q # p /\ At(q).lit = At(p).lit /\ At(q).sec # At(p).sec /\ q \in {1, 2, 6, 7, 10}} IN IF c = {} THEN 0 ELSE Min(c)
VarName(scheme, p) == CASE scheme = "plain" -> "v" \o ToString(p)
                        [] scheme = "keylike" -> KeyLike(p)
                        [] scheme = "shared" -> At(p).lit
                        [] scheme = "secref" -> "v" \o ToString(p)
                        [] scheme = "chained" -> "v" \o ToString(p)
                        [] scheme = "ownkey" -> "v" \o ToString(p)
\* unreferenced variables: names chosen to collide with optional keys the sections do NOT define
ExtraVars == {"cutoff", "dr", "xy", "Al.charge", "B-A", "g(r)", "Al-Cu", "Al", "V1", "V2"}      \* V1, V2: the names of lifted variables in another case

VARIABLES P, scheme, extra,    \* the templated file (choices)
          todo,                \* sections not yet read
          seen,                \* section -> [key -> resolved literal] as seen by its consumer
          pc

vars == <<P, scheme, extra, todo, seen, pc>>

-----------------------------------------------------------------------------
(* the templated file *)
\* value of a position in the templated file: a literal, ${var} or ${SEC:KEY}
UsesOwnKey(p) == scheme = "ownkey" /\ p \in P /\ At(p).sec = "Tabulation"
UsesSecRef(p) == \/ scheme = "secref" /\ Partner(p) # 0 /\ Partner(p) \notin P
                 \/ scheme = "ownkey" /\ ~UsesOwnKey(p) /\ Partner(p) # 0 /\ UsesOwnKey(Partner(p))     \* reads the option through ${SECTION:KEY}
HelperKey(p) == "h" \o ToString(p)
Token(p) == IF p \notin P THEN [t |-> "lit", v |-> At(p).lit]
            ELSE IF UsesOwnKey(p) THEN [t |-> "own", n |-> HelperKey(p), v |-> At(p).lit]
            ELSE IF UsesSecRef(p) THEN [t |-> "secref", s |-> At(Partner(p)).sec, k |-> At(Partner(p)).key]
            ELSE [t |-> "var", n |-> VarName(scheme, p)]
\* [Variables]: the variables of the lifted positions, and the unreferenced ones
\* a variable holds a literal (ref = "") or refers to another variable
LiftedVars == IF scheme = "chained"
              THEN {[n |-> VarName(scheme, p), v |-> "", ref |-> "w" \o ToString(p)] : p \in P}
                   \cup {[n |-> "w" \o ToString(p), v |-> At(p).lit, ref |-> ""] : p \in P}
              ELSE {[n |-> VarName(scheme, p), v |-> At(p).lit, ref |-> ""] : p \in {q \in P : ~UsesSecRef(q) /\ ~UsesOwnKey(q)}}
                   \cup {[n |-> HelperKey(p), v |-> "Lextra", ref |-> ""] : p \in {q \in P : UsesOwnKey(q)}}        \* the decoys
Variables == LiftedVars \cup {[n |-> e, v |-> "Lextra", ref |-> ""] : e \in extra}
RECURSIVE VarValue(_)
VarValue(n) == LET x == CHOOSE y \in Variables : y.n = n IN IF x.ref = "" THEN x.v ELSE VarValue(x.ref)
WellFormedTemplate == \A a, b \in LiftedVars : a.n = b.n => (a.v = b.v /\ a.ref = b.ref)     \* one name, one value

-----------------------------------------------------------------------------
(* the statement: what each section's consumer sees = the base file *)
BaseView(s) == [k \in {x.key : x \in {y \in Pos : y.sec = s}} |-> (CHOOSE x \in Pos : x.sec = s /\ x.key = k).lit]

(* the implementation: reading one section through configparser *)
\* ${name}: own section first, then the variables; ${sec:key}: that section (then the variables)
RECURSIVE ResolveTok(_)
ResolveTok(tok) == CASE tok.t = "lit" -> tok.v
                     [] tok.t = "var" -> VarValue(tok.n)
                     [] tok.t = "own" -> tok.v                  \* the helper option of the own section, not the variable of that name
                     [] tok.t = "secref" -> ResolveTok(Token((CHOOSE x \in Pos : x.sec = tok.s /\ x.key = tok.k).p))
\* the keys the consumer iterates over / can look up in section s
Helpers(s) == {HelperKey(p) : p \in {q \in PosIds : UsesOwnKey(q) /\ At(q).sec = s}}
VisibleKeys(s) == IF DefaultsLeak THEN OwnKeys(s) \cup Helpers(s) \cup {x.n : x \in Variables} ELSE OwnKeys(s) \cup Helpers(s)
ImplView(s) == [k \in {x.key : x \in {y \in Pos : y.sec = s}} |-> ResolveTok(Token((CHOOSE x \in Pos : x.sec = s /\ x.key = k).p))]

Init == /\ P \in {Q \in SUBSET PosIds : Cardinality(Q) <= MaxLift}
        /\ scheme \in Schemes /\ extra \in {E \in SUBSET ExtraVars : Cardinality(E) <= 2}
        /\ todo = SectionsOfFile /\ seen = [s \in {} |-> 0] /\ pc = "reading"
        /\ WellFormedTemplate

SecOrder == <<"Tabulation", "Table-Form:tf", "Potential-Form", "Pair", "Species", "EAM-Embed", "EAM-Density">>
NextSec == CHOOSE s \in todo : \A u \in todo : (CHOOSE i \in 1..Len(SecOrder) : SecOrder[i] = s) <= (CHOOSE i \in 1..Len(SecOrder) : SecOrder[i] = u)
ReadSection(s) == /\ pc = "reading" /\ s \in todo /\ s = NextSec
                  /\ seen' = [x \in DOMAIN seen \cup {s} |-> IF x = s THEN [view |-> ImplView(s), keys |-> VisibleKeys(s)] ELSE seen[x]]
                  /\ todo' = todo \ {s}
                  /\ pc' = IF todo' = {} THEN "done" ELSE "reading"
                  /\ UNCHANGED <<P, scheme, extra>>

Next == \E s \in SectionsOfFile : ReadSection(s)
Spec == Init /\ [][Next]_vars

-----------------------------------------------------------------------------
InterpolationIsSubstitution == \A s \in DOMAIN seen : seen[s].view = BaseView(s)
\* defining variables does not give any section options it does not have in the file
VariablesInert == \A s \in DOMAIN seen : seen[s].keys = OwnKeys(s) \cup Helpers(s)

-----------------------------------------------------------------------------
Case(Q, sc, E) == [P |-> SetToSeq(Q), scheme |-> sc, extra |-> SetToSeq(E)]
Emit == IF "EMIT" \in DOMAIN IOEnv /\ IOEnv.EMIT = "1"
        THEN ndJsonSerialize(IOEnv.VERIF_OUT \o "/cases.ndjson",
               SetToSeq({Case(Q, sc, E) : Q \in {Q \in SUBSET PosIds : Cardinality(Q) <= MaxLift}, sc \in Schemes, E \in {E \in SUBSET ExtraVars : Cardinality(E) <= 2}}))
        ELSE TRUE
ASSUME Emit
=============================================================================
