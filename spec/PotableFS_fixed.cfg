SPECIFICATION Spec
CONSTANTS
  Outs = {1}
  MaxSteps = 3
  MaxEdits = 1
  NoTruncate = FALSE
  Streaming = FALSE
CONSTRAINT Bounded
INVARIANT TypeOK
INVARIANT ContentWellFormed
INVARIANT FailureLeavesEmpty
INVARIANT SuccessDetermines
INVARIANT TablesAreOfValidDocs
INVARIANT ExitStatus
PROPERTY OnlyNamedFileChanges
