SPECIFICATION Spec
CONSTANTS
  Secs = {1, 2, 3}
  Keys = {1, 2}
  Vals = {2, 4}
  MaxOps = 3
  RawKeyLookup = FALSE
  RawKeyDup = FALSE
  RawKeyMerge = FALSE
INVARIANT TypeOK
INVARIANT EditsAreHandEdits
INVARIANT ListEachOnce
INVARIANT NoDuplicateSurvives
INVARIANT Terminates
