SPECIFICATION Spec
CONSTANTS
  Family = "pair_dup"
  Targets = {"LAMMPS","DLPOLY","GULP"}
  MaxSp = 2
  MaxPots = 2
  NRs = {3,8}
  NRhos = {0}
  Faults = FALSE
  FlushFixed = TRUE
INVARIANT TypeOK
INVARIANT NoStuck
INVARIANT C01_OneBlockPerPotential
INVARIANT C01_HeaderAgreesWithBody
INVARIANT C01_GridIdentity
INVARIANT C02_Shape
INVARIANT C02_RejectsNonMultiple
INVARIANT C19_Gulp
INVARIANT C17_DoneMeansWhole
INVARIANT C17_NoFaultNoRaise
