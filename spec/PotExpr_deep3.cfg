SPECIFICATION Spec
CONSTANTS
  Depth = 3
  Lattice = {0, 1, 2, 3}
INVARIANT ZeroBelow
INVARIANT OffersMonotone
INVARIANT Commutes
INVARIANT EmitCase
