SPECIFICATION Spec
CONSTANTS
  K = {"form", "par", "mk", "st", "tail"}
  MaxEvents = 6
CONSTRAINT Bounded
INVARIANT OwnMeaning
