SPECIFICATION TSpec
CONSTANTS
  Family = "pair"
  Targets = {}
  MaxSp = 4
  MaxPots = 0
  NRs = {}
  NRhos = {}
  Faults = FALSE
  FlushFixed = TRUE
CONSTRAINT Progress
INVARIANT Complete
POSTCONDITION Report
