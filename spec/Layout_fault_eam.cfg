SPECIFICATION Spec
CONSTANTS
  Family = "eam"
  Targets = {"setfl","DL_POLY_EAM","excel_eam"}
  MaxSp = 2
  MaxPots = 0
  NRs = {3}
  NRhos = {2}
  Faults = TRUE
  FlushFixed = TRUE
INVARIANT TypeOK
INVARIANT NoStuck
INVARIANT C17_AllOrNothing
INVARIANT C17_WholeOrNothing
INVARIANT C17_DoneMeansWhole
INVARIANT C17_NoFaultNoRaise
