SPECIFICATION Spec
CONSTANTS
  Family = "funcfl"
  Targets = {"funcfl"}
  MaxSp = 1
  MaxPots = 0
  NRs = {2,3,5,6,11}
  NRhos = {2,3,5,7}
  Faults = FALSE
  FlushFixed = FALSE
INVARIANT TypeOK
INVARIANT NoStuck
INVARIANT C19_Funcfl
INVARIANT C17_DoneMeansWhole
