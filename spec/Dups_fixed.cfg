SPECIFICATION Spec
CONSTANTS
  RawStrict = FALSE
  FormulaShadows = FALSE
  DipoleUnchecked = FALSE
  BuiltinClashCrashes = FALSE
  LateBuiltinShadowed = FALSE
  AddRawKey = FALSE
  HeaderBlanksKept = FALSE
  AddMerged = FALSE
INVARIANT NoDuplicateSurvives
INVARIANT Terminates
