SPECIFICATION Spec
CONSTANTS
  RawStrict = FALSE
  FormulaShadows = FALSE
  DipoleUnchecked = FALSE
  BuiltinClashCrashes = FALSE
INVARIANT NoDuplicateSurvives
INVARIANT Terminates
