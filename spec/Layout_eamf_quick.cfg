SPECIFICATION Spec
CONSTANTS
  Family = "eam_foreign"
  Targets = {"setfl","DL_POLY_EAM","excel_eam"}
  MaxSp = 2
  MaxPots = 0
  NRs = {3}
  NRhos = {2}
  Faults = FALSE
  FlushFixed = TRUE
INVARIANT TypeOK
INVARIANT NoStuck
INVARIANT C03_ElementsOnce
INVARIANT C03_ReaderSeesModel
INVARIANT C03_ValueCount
INVARIANT C05_DeclaredCountIsBlockCount
INVARIANT C05_BlockCensus
INVARIANT C19_Excel
INVARIANT C17_DoneMeansWhole
INVARIANT C17_NoFaultNoRaise
