SPECIFICATION Spec
CONSTANTS
  Unrepaired = FALSE
INVARIANT MalformedIsConfigError
INVARIANT ValidIsAccepted
INVARIANT RejectedMeansNoTable
INVARIANT Terminates
