SPECIFICATION Spec
CONSTANTS
  Species = {1, 2, 3}
  Fs = FALSE
  SetOrder = FALSE
  PairSpeciesFiltered = TRUE
INVARIANT BuilderOK
INVARIANT ElementsOnce
INVARIANT Terminates
