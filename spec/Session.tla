------------------------------- MODULE Session -------------------------------
(***************************************************************************)
(* C12: tabulation is deterministic and evaluation is pure.                *)
(*                                                                         *)
(* A process has a hash seed, which fixes the iteration order of Python    *)
(* sets of strings.  Within a process any sequence of operations           *)
(*    Build(m)   parse model m and build its tabulation object             *)
(*    Eval(m)    evaluate the potentials of a built tabulation             *)
(*    Write(m)   write a built tabulation                                  *)
(* may occur on several models.  The abstract model carries what the       *)
(* output order can depend on: the species with a declared embedding       *)
(* function (in declaration order) and the species that only appear in the *)
(* density section (zero-filled).                                          *)
(*                                                                         *)
(* Switches for the unrepaired tree:                                       *)
(*   SetOrder   the zero-filled species are appended in set-iteration      *)
(*              order (hash seed dependent)                                *)
(*   Timestamps Excel containers embed the time of writing                 *)
(*   ComponentMemo  a component object shared by two models (an energy     *)
(*              callable given to two Potential objects) remembers the     *)
(*              numerical-differentiation step of the first model that     *)
(*              wrapped it (not the tree as it is: the realistic way to    *)
(*              make a model's table depend on what was built before)      *)
(***************************************************************************)
EXTENDS Integers, Sequences, FiniteSets, TLC, SequencesExt, FiniteSetsExt, Json, IOUtils

CONSTANTS Seeds, MaxOps, SetOrder, Timestamps, ComponentMemo,
          FailureCorrupts     \* an evaluation that FAILS (a formula outside its domain) leaves something behind that later
                              \* evaluations / writes of that model see (not the tree as it is)

\* comp: a component object the model shares with other models (0: none), h: the step it asks that component to be differentiated with
Models == { [id |-> 1, declared |-> <<2>>, filled |-> {1, 3, 4}, excel |-> FALSE, comp |-> 0, h |-> 0],     \* under-specified EAM: zero-filling needed
            [id |-> 2, declared |-> <<3, 1>>, filled |-> {}, excel |-> FALSE, comp |-> 0, h |-> 0],        \* fully specified
            [id |-> 3, declared |-> <<1>>, filled |-> {2}, excel |-> TRUE, comp |-> 0, h |-> 0],
            [id |-> 4, declared |-> <<>>, filled |-> {}, excel |-> FALSE, comp |-> 1, h |-> 50],           \* Python-API pair model, callable f, coarse step
            [id |-> 5, declared |-> <<>>, filled |-> {}, excel |-> FALSE, comp |-> 1, h |-> 1] }           \* the same callable object, default step
Comps == {mm.comp : mm \in Models} \ {0}
ModelOf(i) == CHOOSE mm \in Models : mm.id = i
Ids == {mm.id : mm \in Models}

\* iteration order of a set of species under a hash seed: some permutation that depends on the seed
Perm(S, seed) == LET sorted == SetToSortSeq(S, <) IN
                 IF seed % 2 = 0 THEN sorted ELSE Reverse(sorted)

\* the statement: the output is a function of the model alone
CanonicalOrder(mm) == mm.declared \o SetToSortSeq(mm.filled, <) \o (IF mm.comp # 0 THEN <<mm.h>> ELSE <<>>)

VARIABLES seed, clock, built, last, n,
          memo       \* ghost: the step a memoising component would remember (consulted only under ComponentMemo)
vars == <<seed, clock, built, last, n, memo>>

Init == /\ seed \in Seeds /\ clock = 0 /\ built = [i \in Ids |-> <<>>] /\ last = [op |-> "none", id |-> 0, out |-> <<>>] /\ n = 0
        /\ memo = [c \in Comps |-> 0]

\* the element order the builder produces
BuildOrder(mm) == mm.declared \o (IF SetOrder THEN Perm(mm.filled, seed) ELSE SetToSortSeq(mm.filled, <))
EffectiveStep(mm) == IF ComponentMemo /\ memo[mm.comp] # 0 THEN memo[mm.comp] ELSE mm.h

Build(i) == /\ n < MaxOps
            /\ LET mm == ModelOf(i) IN
               /\ built' = [built EXCEPT ![i] = BuildOrder(mm) \o (IF mm.comp # 0 THEN <<EffectiveStep(mm)>> ELSE <<>>)]
               /\ memo' = IF mm.comp # 0 /\ memo[mm.comp] = 0 THEN [memo EXCEPT ![mm.comp] = mm.h] ELSE memo
            /\ last' = [op |-> "build", id |-> i, out |-> <<>>]
            /\ n' = n + 1 /\ clock' = clock + 1 /\ UNCHANGED seed

Write(i) == /\ n < MaxOps /\ built[i] # <<>>
            /\ last' = [op |-> "write", id |-> i,
                        out |-> IF ModelOf(i).excel /\ Timestamps THEN built[i] \o <<100 + clock>> ELSE built[i]]
            /\ n' = n + 1 /\ clock' = clock + 1 /\ UNCHANGED <<seed, built, memo>>

\* one of the model's potentials is evaluated outside the domain of its formula: the call raises, nothing else happens.
\* (model 2 has such a potential: custom forms, among them mutually recursive ones)
CanFail(i) == i = 2
FailedEval(i) == /\ n < MaxOps /\ built[i] # <<>> /\ CanFail(i)
                 /\ built' = IF FailureCorrupts THEN [built EXCEPT ![i] = Append(@, 999)] ELSE built
                 /\ last' = [op |-> "fail", id |-> i, out |-> <<>>]
                 /\ n' = n + 1 /\ clock' = clock + 1 /\ UNCHANGED <<seed, memo>>

Eval(i) == /\ n < MaxOps /\ built[i] # <<>>
           /\ last' = [op |-> "eval", id |-> i, out |-> <<>>]
           /\ n' = n + 1 /\ clock' = clock + 1 /\ UNCHANGED <<seed, built, memo>>

\* a fresh process: another hash seed, nothing built
NewProcess == /\ n < MaxOps /\ seed' \in Seeds /\ built' = [i \in Ids |-> <<>>]
              /\ last' = [op |-> "none", id |-> 0, out |-> <<>>] /\ n' = n + 1 /\ clock' = clock + 1
              /\ memo' = [c \in Comps |-> 0]

Next == (\E i \in Ids : Build(i) \/ Write(i) \/ Eval(i) \/ FailedEval(i)) \/ NewProcess
Spec == Init /\ [][Next]_vars

\* byte-identical output (the property)
OutputIsFunctionOfModel == (last.op = "write") => last.out = CanonicalOrder(ModelOf(last.id))
\* what holds on the current tree (known finding F03: Excel containers carry the time of writing):
\* text targets are byte-identical, Excel targets are identical cell by cell
Content(o, mm) == IF mm.excel THEN SubSeq(o, 1, Len(CanonicalOrder(mm))) ELSE o
ContentIsFunctionOfModel == (last.op = "write") => Content(last.out, ModelOf(last.id)) = CanonicalOrder(ModelOf(last.id))

\* histories for the replay
Ops == {[op |-> o, id |-> i] : o \in {"build", "write", "eval"}, i \in Ids} \cup {[op |-> "fail", id |-> i] : i \in {j \in Ids : CanFail(j)}}
Histories == UNION {[1..k -> Ops] : k \in 1..MaxOps}
Emit == IF "EMIT" \in DOMAIN IOEnv /\ IOEnv.EMIT = "1"
        THEN ndJsonSerialize(IOEnv.VERIF_OUT \o "/histories.ndjson", SetToSeq(Histories))
        ELSE TRUE
ASSUME Emit
=============================================================================
