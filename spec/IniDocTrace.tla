----------------------------- MODULE IniDocTrace -----------------------------
(* Trace validation for C14: recorded runs on documents and option sequences LARGER than the exhaustive bound.  A trace *)
(* is the file, the options and the observed outcome (error class, or the edited document read back from the parser    *)
(* and from --list-items); TLC runs the transcription (Read, Merge, repeated ApplyOverride and ApplyAdd) on the same input and    *)
(* accepts the trace when the observed outcome is the one it reaches AND the one HandEdit prescribes.                   *)
EXTENDS IniDoc, TLCExt

Traces == ndJsonDeserialize(IOEnv.TRACE_FILE)
VARIABLES tid
tvars == <<vars, tid>>
ASSUME \A k \in 1..Len(Traces) : TLCSet(k, 0)

TInit == /\ tid \in 1..Len(Traces)
         /\ file = Traces[tid].file /\ ops = Traces[tid].ops
         /\ doc = <<>> /\ ovl = <<>> /\ adl = <<>> /\ i = 0 /\ pc = "read" /\ err = ""
TNext == Next /\ UNCHANGED tid
TSpec == TInit /\ [][TNext]_tvars

Obs == Traces[tid].obs
Agrees == /\ err = Obs.err
          /\ (err = "") => doc = Obs.doc
          /\ (err # "duplicate") => Result = HandEdit(ReadDoc(file), ops)
Complete == (pc = "done" /\ Agrees) => TLCSet(tid, 1)
Report == \A k \in 1..Len(Traces) : PrintT(<<"TRACE", k, TLCGet(k), 1, TLCGet(k)>>)
=============================================================================
