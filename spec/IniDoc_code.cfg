SPECIFICATION Spec
CONSTANTS
  Secs = {1, 2, 3}
  Keys = {1, 2, 3}
  Vals = {2}
  MaxOps = 1
  RawKeyLookup = TRUE
  RawKeyDup = TRUE
  RawKeyMerge = FALSE
INVARIANT TypeOK
INVARIANT EditsAreHandEdits
INVARIANT ListEachOnce
INVARIANT NoDuplicateSurvives
INVARIANT Terminates
