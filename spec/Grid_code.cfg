SPECIFICATION Spec
CONSTANTS
  Files = 1
  StickyGrid = FALSE
  Truthiness = TRUE
  As = {1, 2, 5, 25}
  Es = {1, 2, 3, 4}
  Ks = {1, 2, 3, 5, 10, 33, 100, 1000, 20000}
INVARIANT ImplAgrees
INVARIANT AcceptedShape
INVARIANT Terminates
