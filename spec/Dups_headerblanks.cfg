SPECIFICATION Spec
CONSTANTS
  RawStrict = FALSE
  FormulaShadows = FALSE
  DipoleUnchecked = FALSE
  BuiltinClashCrashes = FALSE
  LateBuiltinShadowed = FALSE
  AddRawKey = FALSE
  HeaderBlanksKept = TRUE
  AddMerged = FALSE
INVARIANT NoDuplicateSurvives
INVARIANT Terminates
