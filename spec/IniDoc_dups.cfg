SPECIFICATION Spec
CONSTANTS
  Secs = {1, 2, 3}
  Keys = {1, 2, 3}
  Vals = {2, 4}
  MaxOps = 0
  RawKeyLookup = FALSE
  RawKeyDup = FALSE
  RawKeyMerge = FALSE
INVARIANT TypeOK
INVARIANT EditsAreHandEdits
INVARIANT ListEachOnce
INVARIANT NoDuplicateSurvives
INVARIANT Terminates
