SPECIFICATION TSpec
CONSTANTS
  Species = {1, 2, 3}
  Unknown = 9
  Parsers = {1, 2, 3, 4}
  Addrs = {1, 2, 3, 4, 5, 6, 7, 8, 9, 10, 11, 12, 13, 14, 15, 16}
  ViewIds = {1, 2, 3, 4}
  FilterSeq <- AllFilterSeq
  Filters <- AllFilters
  MaxEvents = 0
  IdentityMemo = FALSE
CONSTRAINT Progress
INVARIANT ReadIsFilterOfOwnFile
INVARIANT ViewsOfLiveParsers
INVARIANT AddressesDistinct
INVARIANT Complete
POSTCONDITION Report
CHECK_DEADLOCK FALSE
