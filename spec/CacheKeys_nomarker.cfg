SPECIFICATION Spec
CONSTANTS
  K = {"form", "par", "st", "tail", "body"}
  MaxEvents = 6
CONSTRAINT Bounded
INVARIANT OwnMeaning
