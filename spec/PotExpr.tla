------------------------------- MODULE PotExpr -------------------------------
(***************************************************************************)
(* C09 / C07: the potable potential-definition language and the            *)
(* derivatives its callables offer.                                        *)
(*                                                                         *)
(* A DEFINITION is a multi-range list of (marker, start, item); an ITEM is *)
(* a potential form instance (leaf) or a modifier applied to definitions.  *)
(* A definition written without a marker is the single range '>0'.         *)
(* The denotation of a definition at a point x is a JET <<v, d1, d2>>:     *)
(* exact rational value, first and second derivative, computed             *)
(* structurally (sum rule, Leibniz rule, power rule, shift, range          *)
(* selection).  Offers says which of .deriv / .deriv2 the implementation's *)
(* callable exposes, Src whether the value it returns is analytic or       *)
(* contains a numerically differentiated component.                        *)
(*                                                                         *)
(* The grammar is explored by growing a definition production by           *)
(* production (the Grow actions), so TLC's coverage shows every production    *)
(* used; cases for the replay are emitted per tree.                        *)
(***************************************************************************)
EXTENDS Rat, Sequences, FiniteSets, TLC, SequencesExt, FiniteSetsExt, Json, IOUtils

CONSTANTS Depth,      \* 1: modifiers over leaves; 2: one argument may itself be a depth-1 definition
          Lattice     \* query points (naturals; halves are not needed: starts are integers, boundaries are flagged)

-----------------------------------------------------------------------------
(* leaves *)
Leaf(kind, c, n) == [t |-> "leaf", kind |-> kind, c |-> c, n |-> n]
Leaves == { Leaf("poly", <<3, 1, 2>>, 0), Leaf("poly", <<1, 2, 0>>, 0), Leaf("poly", <<2, -1, 1>>, 0),
            Leaf("poly", <<-1, 1, 0>>, 0),                      \* crosses zero ON the lattice (r = 1)
            Leaf("formula", <<2, -1, 0>>, 0),                   \* crosses zero at r = 2, no analytic derivatives
            Leaf("formula", <<2, 1, 1>>, 0), Leaf("formula", <<4, 0, 1>>, 0),
            Leaf("const", <<5, 0, 0>>, 0), Leaf("zero", <<0, 0, 0>>, 0),
            Leaf("expn", <<6, 0, 0>>, -1), Leaf("expn", <<2, 0, 0>>, 2) }
Analytic(l) == l.kind # "formula"

Jet(v, a, b) == [v |-> v, d1 |-> a, d2 |-> b]
ZeroJet == Jet(RZero, RZero, RZero)
JAdd(p, q) == Jet(RAdd(p.v, q.v), RAdd(p.d1, q.d1), RAdd(p.d2, q.d2))
\* Leibniz: (pq)' = p'q + pq' ; (pq)'' = p''q + 2p'q' + pq''
JMul(p, q) == Jet(RMul(p.v, q.v), RAdd(RMul(p.d1, q.v), RMul(p.v, q.d1)),
                  RAdd(RAdd(RMul(p.d2, q.v), RMul(R(2), RMul(p.d1, q.d1))), RMul(p.v, q.d2)))
RECURSIVE JPow(_, _)
JPow(p, k) == IF k = 0 THEN Jet(ROne, RZero, RZero) ELSE JMul(p, JPow(p, k - 1))

LeafJet(l, x) ==
  CASE l.kind \in {"poly", "formula", "const"} ->
         Jet(RAdd(RAdd(R(l.c[1]), RMul(R(l.c[2]), x)), RMul(R(l.c[3]), RMul(x, x))),
             RAdd(R(l.c[2]), RMul(R(2 * l.c[3]), x)),
             R(2 * l.c[3]))
    [] l.kind = "zero" -> ZeroJet
    [] l.kind = "expn" ->    \* A r^n  (not defined at 0 for negative n: see Defined)
         IF x = RZero /\ l.n < 2 THEN ZeroJet ELSE
         Jet(RMul(R(l.c[1]), RPow(x, l.n)), RMul(R(l.c[1] * l.n), RPow(x, l.n - 1)), RMul(R(l.c[1] * l.n * (l.n - 1)), RPow(x, l.n - 2)))

-----------------------------------------------------------------------------
(* definitions *)
Rng(ty, s, it) == [ty |-> ty, s |-> s, it |-> it]
Def(rs) == [t |-> "def", rs |-> rs]
Plain(it) == Def(<<Rng(">", 0, it)>>)            \* no marker written: acts for r > 0 only

InRng(rg, x) == RLt(R(rg.s), x) \/ (rg.ty = ">=" /\ REq(R(rg.s), x))
\* the range selected at x: greatest start containing x (an exclusive range wins above a shared start, as the code does;
\* the grammar below never lists two ranges with one start, so the tie never arises here - it is C08's subject)
Selected(d, x) ==
  LET c == {i \in 1..Len(d.rs) : InRng(d.rs[i], x)} IN
  IF c = {} THEN 0 ELSE CHOOSE i \in c : \A j \in c : d.rs[j].s <= d.rs[i].s

RECURSIVE DefJet(_, _), ItemJet(_, _), SumJets(_, _), MulJets(_, _)
DefJet(d, x) == LET i == Selected(d, x) IN IF i = 0 THEN ZeroJet ELSE ItemJet(d.rs[i].it, x)
SumJets(args, x) == IF args = <<>> THEN ZeroJet ELSE JAdd(DefJet(Head(args), x), SumJets(Tail(args), x))
MulJets(args, x) == IF Len(args) = 1 THEN DefJet(args[1], x) ELSE JMul(DefJet(Head(args), x), MulJets(Tail(args), x))
ItemJet(it, x) ==
  CASE it.t = "leaf" -> LeafJet(it, x)
    [] it.t = "sum" -> SumJets(it.args, x)                 \* sum(a, b, ...)(r) = a(r) + b(r) + ...
    [] it.t = "product" -> MulJets(it.args, x)             \* product(a, b, ...)(r) = a(r) * b(r) * ...
    \* pow(a, as.constant k)(r) = a(r) ** b(r) where the exponent b is itself a definition written without a marker: it acts
    \* for r > 0 only, so at r <= 0 the exponent is 0 and the power is 1 (Python: 0.0 ** 0.0 = 1.0)
    [] it.t = "pow" -> JPow(DefJet(it.args[1], x), IF RLt(RZero, x) THEN it.k ELSE 0)
    [] it.t = "trans" -> DefJet(it.args[1], RAdd(x, R(it.x)))  \* trans(f, as.constant X)(r) = f(r + X), f's range included

\* x lies on a range boundary somewhere along the evaluation path: derivatives are not asserted there
RECURSIVE DefBoundary(_, _), ItemBoundary(_, _)
DefBoundary(d, x) == (\E i \in 1..Len(d.rs) : REq(R(d.rs[i].s), x))
                     \/ (Selected(d, x) # 0 /\ ItemBoundary(d.rs[Selected(d, x)].it, x))
ItemBoundary(it, x) ==
  CASE it.t = "leaf" -> FALSE
    [] it.t \in {"sum", "product", "pow"} -> \E i \in 1..Len(it.args) : DefBoundary(it.args[i], x)
    [] it.t = "trans" -> DefBoundary(it.args[1], RAdd(x, R(it.x)))

\* is the definition's value defined at x at all (a negative power of r is not, at r = 0)?
RECURSIVE DefDefined(_, _), ItemDefined(_, _)
DefDefined(d, x) == Selected(d, x) = 0 \/ ItemDefined(d.rs[Selected(d, x)].it, x)
ItemDefined(it, x) ==
  CASE it.t = "leaf" -> ~(it.kind = "expn" /\ it.n < 0 /\ x = RZero)
    [] it.t \in {"sum", "product", "pow"} -> \A i \in 1..Len(it.args) : DefDefined(it.args[i], x)
    [] it.t = "trans" -> DefDefined(it.args[1], RAdd(x, R(it.x)))

\* where are the derivatives of the definition defined?  A power with a CONSTANT exponent k >= 0 is a polynomial in its base:
\* differentiable wherever the base is, whatever the sign of the base (the general power rule a^b (b' ln a + b a'/a) needs a > 0
\* only for an exponent that varies: PowVarCases below)
RECURSIVE DefDomain(_, _), ItemDomain(_, _)
DefDomain(d, x) == Selected(d, x) = 0 \/ ItemDomain(d.rs[Selected(d, x)].it, x)
ItemDomain(it, x) ==
  CASE it.t = "leaf" -> ItemDefined(it, x)
    [] it.t \in {"sum", "product"} -> \A i \in 1..Len(it.args) : DefDomain(it.args[i], x)
    [] it.t = "pow" -> DefDomain(it.args[1], x)
    [] it.t = "trans" -> DefDomain(it.args[1], RAdd(x, R(it.x)))

-----------------------------------------------------------------------------
(* what the callable offers, and where its derivative values come from *)
Off(a, b) == [d1 |-> a, d2 |-> b]
RECURSIVE DefOffers(_), ItemOffers(_), FoldOffers(_)
\* create_Multi_Range_Potential_Form: Deriv2 class if any range has deriv2, Deriv class if any has deriv
DefOffers(d) == Off(\E i \in 1..Len(d.rs) : ItemOffers(d.rs[i].it).d1, \E i \in 1..Len(d.rs) : ItemOffers(d.rs[i].it).d2)
\* plus / product via functools.reduce: .deriv if either operand has one; .deriv2 if either operand has deriv2
FoldOffers(args) == IF Len(args) = 1 THEN DefOffers(args[1])
                    ELSE LET a == DefOffers(Head(args))
                             b == FoldOffers(Tail(args)) IN Off(a.d1 \/ b.d1, (a.d1 \/ b.d1) /\ (a.d2 \/ b.d2))
ItemOffers(it) ==
  CASE it.t = "leaf" -> Off(Analytic(it), Analytic(it))
    [] it.t \in {"sum", "product"} -> FoldOffers(it.args)
    [] it.t = "pow" -> Off(TRUE, TRUE)                      \* the exponent as.constant offers both
    [] it.t = "trans" -> DefOffers(it.args[1])

\* does every leaf that contributes at x have analytic derivatives?  (else a numerically differentiated component is involved)
RECURSIVE DefAnalytic(_, _), ItemAnalytic(_, _)
DefAnalytic(d, x) == Selected(d, x) = 0 \/ ItemAnalytic(d.rs[Selected(d, x)].it, x)
ItemAnalytic(it, x) ==
  CASE it.t = "leaf" -> Analytic(it)
    [] it.t \in {"sum", "product", "pow"} -> \A i \in 1..Len(it.args) : DefAnalytic(it.args[i], x)
    [] it.t = "trans" -> DefAnalytic(it.args[1], RAdd(x, R(it.x)))

-----------------------------------------------------------------------------
(* the grammar, grown production by production *)
Starts == {1, 2}
Shifts == {1, 2}          \* trans by +1, +2 and by -1 (below)
Exps == {0, 1, 2, 3}      \* 0 and 1: the power is the constant 1 / the base itself, also where the base vanishes

VARIABLES tree,     \* the definition under construction
          level,    \* 0: a bare leaf; 1: a modifier / multi-range over leaves; 2: one slot refined once more
          done

vars == <<tree, level, done>>

Mods1(args2, lvl) ==     \* items built from a pair of definitions a, b ; at level >= 1 the large products / cubes are left out (32-bit integers)
  LET a == args2[1]
      b == args2[2] IN
  { [t |-> "sum", args |-> <<a, b>>], [t |-> "product", args |-> <<a, b>>], [t |-> "sum", args |-> <<a>>] }
  \cup (IF lvl = 0 THEN { [t |-> "sum", args |-> <<a, b, a>>], [t |-> "product", args |-> <<b, a, b>>] } ELSE {})
  \* an argument that is itself a multi-range definition: b up to r = 2, nothing from there on
  \cup (IF lvl = 0 /\ Len(b.rs) = 1
        THEN LET cut == Def(<<Rng(">", 0, b.rs[1].it), Rng(">=", 2, Leaf("zero", <<0, 0, 0>>, 0))>>) IN
             { [t |-> "product", args |-> <<a, cut, b>>], [t |-> "sum", args |-> <<cut, a>>], [t |-> "product", args |-> <<cut, a>>] }
        ELSE {})
  \cup {[t |-> "pow", args |-> <<a>>, k |-> k] : k \in IF lvl = 0 THEN Exps ELSE {2}}
  \cup {[t |-> "trans", args |-> <<a>>, x |-> s] : s \in Shifts \cup {-1}}

MultiRanges(i1, i2) ==
  {Def(<<Rng(t1, 0, i1), Rng(t2, s, i2)>>) : t1 \in {">", ">="}, t2 \in {">", ">="}, s \in Starts}
  \cup {Def(<<Rng(">", s, i2), Rng(">=", 0, i1)>>) : s \in Starts}              \* listed out of order
  \cup {Def(<<Rng(">=", 1, i1)>>), Def(<<Rng(">=", 2, i1)>>), Def(<<Rng(">", 2, i1)>>)}   \* a single explicit range (lattice points strictly between 0 and its start)
  \cup {Def(<<Rng(">=", -1, i1)>>), Def(<<Rng(">", -1, i1), Rng(">", 1, i2)>>)}  \* a negative start: r = 0 is an interior point

\* every definition derivable from t by one production
GrowMod(t, lvl) == UNION {UNION {{Plain(it) : it \in Mods1(IF swap THEN <<Plain(l), t>> ELSE <<t, Plain(l)>>, lvl)} : swap \in BOOLEAN} : l \in Leaves}
GrowRng(t) == IF Len(t.rs) # 1 THEN {}
              ELSE UNION {UNION {MultiRanges(IF swap THEN l ELSE t.rs[1].it, IF swap THEN t.rs[1].it ELSE l) : swap \in BOOLEAN} : l \in Leaves}

T0 == {Plain(l) : l \in Leaves}
T1(dummy) == UNION {GrowMod(t, 0) \cup GrowRng(t) : t \in T0}

Init == /\ tree \in T0 /\ level = 0 /\ done = FALSE

\* wrap the current definition and a leaf in a modifier (either operand order)
GrowModifier == /\ ~done /\ level < Depth
                /\ tree' \in GrowMod(tree, level)
                /\ level' = level + 1 /\ UNCHANGED done

\* make the current item one range of a multi-range definition
GrowRanges == /\ ~done /\ level < Depth
              /\ tree' \in GrowRng(tree)
              /\ level' = level + 1 /\ UNCHANGED done

Finish == /\ ~done /\ done' = TRUE /\ UNCHANGED <<tree, level>>

Next == GrowModifier \/ GrowRanges \/ Finish
Spec == Init /\ [][Next]_vars

-----------------------------------------------------------------------------
(* properties of the denotation itself (sanity of the specification; the substance is in the replay) *)
Points == {R(x) : x \in Lattice}
\* below every range the definition is 0 with zero derivatives
ZeroBelow == \A x \in Points : Selected(tree, x) = 0 => DefJet(tree, x) = ZeroJet
\* a derivative that is offered at all is offered by construction of some analytic or numeric component: offers are monotone
OffersMonotone == DefOffers(tree).d2 => DefOffers(tree).d1
\* sum is commutative, product is commutative (pointwise)
Commutes == tree.rs[1].it.t \in {"sum", "product"} /\ Len(tree.rs[1].it.args) = 2 =>
              \A x \in Points : ItemJet(tree.rs[1].it, x) = ItemJet([tree.rs[1].it EXCEPT !.args = <<@[2], @[1]>>], x)

-----------------------------------------------------------------------------
(* case emission: printed from an invariant at finished trees (run with one worker) *)
Row(x) == [x |-> x, jet |-> DefJet(tree, R(x)), boundary |-> DefBoundary(tree, R(x)), dom |-> DefDomain(tree, R(x)), defined |-> DefDefined(tree, R(x)),
           analytic |-> DefAnalytic(tree, R(x))]
CaseOf(tr) == [tree |-> tr, offers |-> DefOffers(tr),
               rows |-> [i \in 1..Cardinality(Lattice) |->
                  LET x == SetToSeq(Lattice)[i] IN
                  [x |-> x, jet |-> DefJet(tr, R(x)), boundary |-> DefBoundary(tr, R(x)), dom |-> DefDomain(tr, R(x)), defined |-> DefDefined(tr, R(x)), analytic |-> DefAnalytic(tr, R(x))]]]
\* pow(a, b) with an exponent that itself varies with r: a(r) ** b(r).  In general value and derivatives involve ln a(r)
\* (the replay then evaluates  v = a^b,  v' = v (b' ln a + b a'/a),  v'' = v [(b' ln a + b a'/a)^2 + b'' ln a + 2 a'b'/a + b a''/a - b a'^2/a^2]
\* in floating point from the exact jets of a and b given here); where a(r) = 1 everything is rational:
PowVarJet(a, b) == Jet(ROne, RMul(b.v, a.d1),
                       RAdd(RAdd(RAdd(RMul(RMul(b.v, a.d1), RMul(b.v, a.d1)), RMul(R(2), RMul(a.d1, b.d1))), RMul(b.v, a.d2)), RNeg(RMul(b.v, RMul(a.d1, a.d1)))))
PowVarBases == {l \in Leaves : l.kind \in {"poly", "formula"} /\ \A x \in Lattice : RLt(RZero, LeafJet(l, R(x)).v)}
                 \cup {Leaf("poly", <<-1, 1, 0>>, 0)}          \* r - 1: equals 1 at r = 2 with slope 1 (asserted where positive)
PowVarExps == {l \in Leaves : l.kind \in {"poly", "formula", "const"}}
PowVarCases ==
  {[base |-> la, exp |-> lb,
    rows |-> [i \in 1..Cardinality(Lattice) |->
                LET x == SetToSeq(Lattice)[i]
                    a == LeafJet(la, R(x))
                    b == LeafJet(lb, R(x)) IN
                [x |-> x, a |-> a, b |-> b, positive |-> RLt(RZero, a.v), one |-> a.v = ROne,
                 e |-> IF a.v = ROne THEN PowVarJet(a, b) ELSE ZeroJet]]] : la \in PowVarBases, lb \in PowVarExps}

\* a power as the EXPONENT of a power: pow(a, pow(b, c)) = a ** (b ** c), not (a ** b) ** c  (constants, exact integers)
RECURSIVE IntPow(_, _)
IntPow(b, k) == IF k = 0 THEN 1 ELSE b * IntPow(b, k - 1)
PowTowerCases == {[a |-> t[1], b |-> t[2], c |-> t[3], v |-> IntPow(t[1], IntPow(t[2], t[3])), other |-> IntPow(IntPow(t[1], t[2]), t[3])] :
                    t \in {u \in {2, 3, -2} \X {2, 3} \X {2, 3} : ~(u[2] = 3 /\ u[3] = 3)}}      \* 3 ** 27 leaves TLC's integers

EmitAll == IF "EMIT" \in DOMAIN IOEnv /\ IOEnv.EMIT = "1"
           THEN /\ ndJsonSerialize(IOEnv.VERIF_OUT \o "/cases.ndjson", SetToSeq({CaseOf(tr) : tr \in T0 \cup T1(0)}))
                /\ ndJsonSerialize(IOEnv.VERIF_OUT \o "/powvar.ndjson", SetToSeq(PowVarCases))
                /\ ndJsonSerialize(IOEnv.VERIF_OUT \o "/powtower.ndjson", SetToSeq(PowTowerCases))
           ELSE TRUE
ASSUME EmitAll
EmitCase == (done /\ level >= 2) => PrintT(<<"CASE", ToJson([tree |-> tree, offers |-> DefOffers(tree), rows |-> [i \in 1..Cardinality(Lattice) |-> Row(SetToSeq(Lattice)[i])]])>>)
=============================================================================
