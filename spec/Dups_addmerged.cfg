SPECIFICATION Spec
CONSTANTS
  RawStrict = FALSE
  FormulaShadows = FALSE
  DipoleUnchecked = FALSE
  BuiltinClashCrashes = FALSE
  LateBuiltinShadowed = FALSE
  AddRawKey = FALSE
  AddMerged = TRUE
INVARIANT NoDuplicateSurvives
INVARIANT Terminates
