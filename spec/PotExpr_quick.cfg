SPECIFICATION Spec
CONSTANTS
  Depth = 1
  Lattice = {0, 1, 2, 3, 4}
INVARIANT ZeroBelow
INVARIANT OffersMonotone
INVARIANT Commutes
