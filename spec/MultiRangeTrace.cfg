SPECIFICATION TSpec
CONSTANTS
  MaxRanges = 1
  Starts = {0, 2}
  MaxQueries = 0
  NumericAcross = TRUE
CONSTRAINT Progress
INVARIANT Complete
INVARIANT TraceAllowed
POSTCONDITION Report
