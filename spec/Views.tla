-------------------------------- MODULE Views --------------------------------
(***************************************************************************)
(* C13: species filtering = deleting the entries that mention an unwanted  *)
(* species; filtered views of one parsed file are independent.             *)
(*                                                                         *)
(* A parsed file has three lists of entries (pair, embedding, density);    *)
(* an entry is the tuple of species it mentions and an identity.  A view   *)
(* is (mode, S).  Histories create views of ONE parsed file and read their *)
(* lists in any order.                                                     *)
(*                                                                         *)
(* The switch SharedSlot models the unrepaired FilteredConfigParser: the   *)
(* wrapt.ObjectProxy forwards attribute assignment to the wrapped parser,  *)
(* so the filter of the most recently created view is the filter of every  *)
(* view.                                                                   *)
(***************************************************************************)
EXTENDS ViewsBase

CONSTANTS ViewIds,
          MaxEvents,
          SharedSlot,
          FlattenUnion,  \* a view created from a view in the same mode wraps the parser directly with the two label lists joined
                         \* (right for exclude of exclude, wrong for include of include): not the tree as it is
          ArgAliased     \* the view keeps the caller's collection object instead of its contents (the tree before finding F46):
                         \* what the caller does to that object afterwards - or the view's own membership tests, when the
                         \* object is a one-shot iterator - changes the filter

VARIABLES doc,     \* the parsed file (never changes)
          views,   \* view id -> its filter, or NoView
          slot,    \* the attribute slot on the wrapped parser (SharedSlot deviation)
          arg,     \* view id -> the collection object the caller passed: [S, kind], kind "list" (can grow later) | "iter" (one-shot)
          last,    \* last read: [id, list, result]
          n

vars == <<doc, views, slot, arg, last, n>>
NoView == [mode |-> "none", S |-> {}, chain |-> <<>>]
\* a view may be created from another view (FilteredConfigParser(FilteredConfigParser(cp, ...), ...)): chain = the filters of the
\* views it wraps, outermost parser side first, as they were when it was created
Own(x) == [mode |-> x.mode, S |-> x.S]
RECURSIVE DelAll(_, _)
DelAll(d, fs) == IF fs = <<>> THEN d ELSE DelAll(DeleteMentioning(d, Head(fs)), Tail(fs))

-----------------------------------------------------------------------------
(* the implementation: FilteredConfigParser *)
NoArg == [S |-> {}, kind |-> "none"]
Init == /\ doc \in Docs /\ views = [x \in ViewIds |-> NoView] /\ slot = NoView /\ n = 0
        /\ arg = [x \in ViewIds |-> NoArg]
        /\ last = [id |-> 0, list |-> "none", v |-> NoView, result |-> <<>>]

Create(id, v, kind, par) ==
                       /\ n < MaxEvents
                       /\ par = 0 \/ (par \in ViewIds /\ par # id /\ views[par] # NoView)
                       /\ views' = [views EXCEPT ![id] = [mode |-> v.mode, S |-> v.S,
                                                          chain |-> IF par = 0 THEN <<>> ELSE Append(views[par].chain, Own(views[par]))]]
                       /\ slot' = [mode |-> v.mode, S |-> v.S, chain |-> <<>>]      \* self._species_list = ... ; self._exclude_flag = ...
                       /\ arg' = [arg EXCEPT ![id] = [S |-> v.S, kind |-> kind]]
                       /\ n' = n + 1
                       /\ UNCHANGED <<doc, last>>

\* the caller goes on using the list it passed (e.g. builds the views of a loop from one growing list)
GrowArg(id, sp) == /\ n < MaxEvents /\ views[id] # NoView /\ arg[id].kind = "list" /\ sp \notin arg[id].S
                   /\ arg' = [arg EXCEPT ![id].S = @ \cup {sp}]
                   /\ n' = n + 1
                   /\ UNCHANGED <<doc, views, slot, last>>

EffectiveFilter(id) == IF SharedSlot THEN Own(slot)
                       ELSE IF ArgAliased THEN [mode |-> views[id].mode, S |-> arg[id].S]
                       ELSE Own(views[id])
\* the filters a read of view id goes through, parser side first
EffectiveChain(id) ==
  LET own == EffectiveFilter(id)
      ch == views[id].chain IN
  IF FlattenUnion /\ ch # <<>> /\ ch[Len(ch)].mode = own.mode
  THEN Append(SubSeq(ch, 1, Len(ch) - 1), [mode |-> own.mode, S |-> ch[Len(ch)].S \cup own.S])
  ELSE Append(ch, own)
\* membership tests on a one-shot iterator use it up (abstractly: nothing is left after a read)
ArgAfterRead(id) == IF ArgAliased /\ arg[id].kind = "iter" THEN [arg EXCEPT ![id].S = {}] ELSE arg

\* _check_tuple over every entry of the wrapped parser's list
Read(id, l) == /\ n < MaxEvents /\ views[id] # NoView
               /\ last' = [id |-> id, list |-> l, v |-> views[id], result |-> DelAll(doc, EffectiveChain(id))[l]]
               /\ arg' = ArgAfterRead(id)
               /\ n' = n + 1
               /\ UNCHANGED <<doc, views, slot>>

\* Configuration().read_from_parser(view) and write(): the builders read all three lists of the view
Tabulate(id) == /\ n < MaxEvents /\ views[id] # NoView
                /\ last' = [id |-> id, list |-> "table", v |-> views[id], result |-> DelAll(doc, EffectiveChain(id))]
                /\ arg' = ArgAfterRead(id)
                /\ n' = n + 1
                /\ UNCHANGED <<doc, views, slot>>

Next == \/ \E id \in ViewIds, v \in ViewSpace, kind \in {"list", "iter"}, par \in {0} \cup ViewIds : Create(id, v, kind, par)
        \/ \E id \in ViewIds, sp \in Species : GrowArg(id, sp)
        \/ \E id \in ViewIds, l \in Lists : Read(id, l)
        \/ \E id \in ViewIds : Tabulate(id)
Spec == Init /\ [][Next]_vars

-----------------------------------------------------------------------------
(* properties *)
\* a read of a view returns the file's list with the unwanted entries deleted - whatever else happened before
Expected(v) == DelAll(doc, Append(v.chain, Own(v)))
ReadIsFilter == (last.id # 0) => last.result = (IF last.list = "table" THEN Expected(last.v) ELSE Expected(last.v)[last.list])
\* survivors are unchanged and keep their relative order
SurvivorsInOrder == (last.id # 0 /\ last.list # "table") =>
    \A a, b \in 1..Len(last.result) : a < b =>
        \E x, y \in 1..Len(doc[last.list]) : x < y /\ doc[last.list][x] = last.result[a] /\ doc[last.list][y] = last.result[b]
EmptyInclude == (last.id # 0 /\ last.list # "table" /\ Own(last.v) = [mode |-> "include", S |-> {}]) => last.result = <<>>
UnknownInert == (last.id # 0 /\ last.list # "table" /\ last.v.chain = <<>> /\ last.v.mode = "exclude" /\ last.v.S = {Unknown}) => last.result = doc[last.list]

-----------------------------------------------------------------------------
(* cases for the replay: every (file, view) with the file after deletion *)
Case(dx, v) == [doc |-> dx, view |-> [mode |-> v.mode, S |-> SetToSeq(v.S)], filtered |-> DeleteMentioning(DocSeq[dx], v)]
Emit == IF "EMIT" \in DOMAIN IOEnv /\ IOEnv.EMIT = "1"
        THEN /\ ndJsonSerialize(IOEnv.VERIF_OUT \o "/docs.ndjson", DocSeq)
             /\ ndJsonSerialize(IOEnv.VERIF_OUT \o "/cases.ndjson", SetToSeq({Case(dx, v) : dx \in 1..Len(DocSeq), v \in ViewSpace}))
        ELSE TRUE
ASSUME Emit
=============================================================================
