SPECIFICATION TSpec
CONSTANTS
  Outs = {1, 2, 3}
  MaxSteps = 0
  MaxEdits = 2
  NoTruncate = FALSE
  Streaming = FALSE
CONSTRAINT Progress
INVARIANT ContentWellFormed
INVARIANT FailureLeavesEmpty
INVARIANT SuccessDetermines
INVARIANT TablesAreOfValidDocs
INVARIANT ExitStatus
INVARIANT Complete
POSTCONDITION Report
CHECK_DEADLOCK FALSE
