------------------------------- MODULE Potable -------------------------------
(***************************************************************************)
(* The potable command line as a whole: which action a combination of      *)
(* arguments selects, its exit status, what goes to standard output and    *)
(* what happens to the named output file.  (Coverage beyond the listed     *)
(* properties; replayed with the C14 check, whose statement covers the     *)
(* query options.)                                                         *)
(*                                                                         *)
(* One behaviour = one invocation, a pipeline of decisions in the order    *)
(* main() takes them: ParseArgs (argparse, mutually exclusive groups),     *)
(* ReadFile + Edits, Filter, then Query or Tabulate.                       *)
(***************************************************************************)
EXTENDS Integers, Sequences, FiniteSets, TLC, SequencesExt, Json, IOUtils

CONSTANTS MissingItemCrashes    \* --item-value of an item that does not exist: internal KeyError (TRUE, the tree as it is) or configuration error

Args == [file : {"valid", "malformed"},                       \* the input file: a well-formed model or one with a configuration error
         out : {"given", "absent"},                            \* OUTPUT_FILE positional
         query : {"none", "list", "labels", "value", "value-missing", "list+value"},
         filter : {"none", "include", "exclude", "both"},
         edit : {"none", "valid", "missing"}]                  \* an --override-item that applies / that names a missing item

VARIABLES a, pc, status, stdout, outfile
vars == <<a, pc, status, stdout, outfile>>

Init == a \in Args /\ pc = "argparse" /\ status = -1 /\ stdout = "" /\ outfile = "untouched"

\* argparse: the query options are mutually exclusive, so are the two filters
ParseArgs == /\ pc = "argparse"
             /\ IF a.query = "list+value" \/ a.filter = "both"
                THEN status' = 2 /\ pc' = "exit" ELSE pc' = "read" /\ UNCHANGED status
             /\ UNCHANGED <<a, stdout, outfile>>

\* ConfigParser(file, overrides, ...): duplicate / edit errors are configuration errors; other malformations surface later
ReadAndEdit == /\ pc = "read"
               /\ IF a.edit = "missing" THEN status' = 2 /\ pc' = "exit" ELSE pc' = "dispatch" /\ UNCHANGED status
               /\ UNCHANGED <<a, stdout, outfile>>

\* a query is answered from the raw document: the rest of the model is not validated, no file is written
Query == /\ pc = "dispatch" /\ a.query # "none"
         /\ IF a.query = "value-missing"
            THEN /\ status' = (IF MissingItemCrashes THEN 1 ELSE 2) /\ UNCHANGED stdout
            ELSE /\ status' = 0 /\ stdout' = a.query
         /\ pc' = "exit" /\ UNCHANGED <<a, outfile>>

NoOutput == /\ pc = "dispatch" /\ a.query = "none" /\ a.out = "absent"
            /\ status' = 2 /\ pc' = "exit" /\ UNCHANGED <<a, stdout, outfile>>      \* "Path of OUTPUT_FILE for tabulation not specified."

Tabulate == /\ pc = "dispatch" /\ a.query = "none" /\ a.out = "given"
            /\ IF a.file = "malformed" THEN status' = 2 /\ UNCHANGED outfile          \* refused before the output is opened
               ELSE status' = 0 /\ outfile' = "table"
            /\ pc' = "exit" /\ UNCHANGED <<a, stdout>>

Next == ParseArgs \/ ReadAndEdit \/ Query \/ NoOutput \/ Tabulate
Spec == Init /\ [][Next]_vars

\* user-level properties of the command line
QueriesNeverWrite == (pc = "exit" /\ a.query # "none") => outfile = "untouched"
OnlySuccessWrites == (outfile = "table") => (status = 0 /\ a.query = "none" /\ a.file = "valid")
ExitCodes == (pc = "exit") => status \in (IF MissingItemCrashes THEN {0, 1, 2} ELSE {0, 2})
NoInternalErrors == (pc = "exit") => status # 1          \* violated while MissingItemCrashes
Terminates == (~ENABLED Next) => pc = "exit"

Final(x) == \* outcome of the invocation with arguments x, computed by running the decisions above
  IF x.query = "list+value" \/ x.filter = "both" THEN [status |-> 2, stdout |-> "", outfile |-> "untouched"]
  ELSE IF x.edit = "missing" THEN [status |-> 2, stdout |-> "", outfile |-> "untouched"]
  ELSE IF x.query = "value-missing" THEN [status |-> IF MissingItemCrashes THEN 1 ELSE 2, stdout |-> "", outfile |-> "untouched"]
  ELSE IF x.query # "none" THEN [status |-> 0, stdout |-> x.query, outfile |-> "untouched"]
  ELSE IF x.out = "absent" THEN [status |-> 2, stdout |-> "", outfile |-> "untouched"]
  ELSE IF x.file = "malformed" THEN [status |-> 2, stdout |-> "", outfile |-> "untouched"]
  ELSE [status |-> 0, stdout |-> "", outfile |-> "table"]
FinalAgrees == (pc = "exit") => [status |-> status, stdout |-> stdout, outfile |-> outfile] = Final(a)

Emit == IF "EMIT" \in DOMAIN IOEnv /\ IOEnv.EMIT = "1"
        THEN ndJsonSerialize(IOEnv.VERIF_OUT \o "/cli.ndjson", SetToSeq({[args |-> x, final |-> Final(x)] : x \in Args}))
        ELSE TRUE
ASSUME Emit
=============================================================================
