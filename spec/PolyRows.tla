------------------------------ MODULE PolyRows ------------------------------
(* Defining equations of piecewise polynomials as rows of exact rationals: shared by Spline (C10) and Builtin (C06, the *)
(* four-range Buckingham form).                                                                                         *)
EXTENDS Rat, Sequences
(* Row of a polynomial of order n at x: value, first and second derivative of 1, x, x^2, ... *)
(*  *)
Mono(x, i, d) == \* d-th derivative of x^i at x
  CASE d = 0 -> RPow(x, i)
    [] d = 1 -> IF i = 0 THEN RZero ELSE RMul(R(i), RPow(x, i - 1))
    [] d = 2 -> IF i < 2 THEN RZero ELSE RMul(R(i * (i - 1)), RPow(x, i - 2))
RowP(x, n, d) == [i \in 1..(n + 1) |-> Mono(x, i - 1, d)]
Zeros(n) == [i \in 1..n |-> RZero]
NegRow(row) == [i \in 1..Len(row) |-> RNeg(row[i])]
\* buck4: unknowns a0..a5 (quintic), b0..b3 (cubic); right hand sides are named
Buck4Rows(kn) == <<
  [row |-> RowP(kn[1], 5, 0) \o Zeros(4), rhs |-> "start.v"],
  [row |-> RowP(kn[1], 5, 1) \o Zeros(4), rhs |-> "start.d1"],
  [row |-> RowP(kn[1], 5, 2) \o Zeros(4), rhs |-> "start.d2"],
  [row |-> RowP(kn[2], 5, 1) \o Zeros(4), rhs |-> "zero"],                           \* stationary at r_min
  [row |-> RowP(kn[2], 5, 0) \o NegRow(RowP(kn[2], 3, 0)), rhs |-> "zero"],           \* value continuous across r_min
  [row |-> RowP(kn[2], 5, 1) \o NegRow(RowP(kn[2], 3, 1)), rhs |-> "zero"],           \* slope continuous
  [row |-> RowP(kn[2], 5, 2) \o NegRow(RowP(kn[2], 3, 2)), rhs |-> "zero"],           \* curvature continuous
  [row |-> Zeros(6) \o RowP(kn[3], 3, 0), rhs |-> "end.v"],
  [row |-> Zeros(6) \o RowP(kn[3], 3, 1), rhs |-> "end.d1"],
  [row |-> Zeros(6) \o RowP(kn[3], 3, 2), rhs |-> "end.d2"] >>
=============================================================================
