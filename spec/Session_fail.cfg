SPECIFICATION Spec
CONSTANTS
  Seeds = {0, 1, 2, 3}
  MaxOps = 4
  SetOrder = FALSE
  Timestamps = TRUE
  ComponentMemo = FALSE
  FailureCorrupts = TRUE
INVARIANT ContentIsFunctionOfModel
