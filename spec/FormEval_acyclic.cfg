SPECIFICATION Spec
CONSTANTS
  NForms = 3
  Cyclic = FALSE
  Args = {0, 1, 2}
  Rs = {1, 2, 3}
  Junk = {0, 5}
  SaveRestore = TRUE
  CallBuffers = TRUE
INVARIANT ImplIsSubstitution
