SPECIFICATION Spec
CONSTANTS
  Family = "pair"
  Targets = {"LAMMPS","DLPOLY","GULP","excel"}
  MaxSp = 3
  MaxPots = 3
  NRs = {3,4,5,6,7,8,9,12,16,20}
  NRhos = {0}
  Faults = FALSE
  FlushFixed = TRUE
INVARIANT TypeOK
INVARIANT NoStuck
INVARIANT C01_OneBlockPerPotential
INVARIANT C01_HeaderAgreesWithBody
INVARIANT C01_GridIdentity
INVARIANT C02_Shape
INVARIANT C02_RejectsNonMultiple
INVARIANT C19_Gulp
INVARIANT C19_Excel
INVARIANT C17_DoneMeansWhole
INVARIANT C17_NoFaultNoRaise
