SPECIFICATION Spec
CONSTANTS
  RawStrict = TRUE
  FormulaShadows = TRUE
  DipoleUnchecked = TRUE
  BuiltinClashCrashes = TRUE
  LateBuiltinShadowed = TRUE
  AddRawKey = FALSE
INVARIANT NoDuplicateSurvives
INVARIANT Terminates
