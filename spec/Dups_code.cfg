SPECIFICATION Spec
CONSTANTS
  RawStrict = TRUE
  FormulaShadows = TRUE
  DipoleUnchecked = TRUE
  BuiltinClashCrashes = TRUE
INVARIANT NoDuplicateSurvives
INVARIANT Terminates
