SPECIFICATION Spec
CONSTANTS
  RawStrict = TRUE
  FormulaShadows = TRUE
  DipoleUnchecked = TRUE
  BuiltinClashCrashes = TRUE
  LateBuiltinShadowed = TRUE
  AddRawKey = FALSE
  HeaderBlanksKept = FALSE
  AddMerged = FALSE
INVARIANT NoDuplicateSurvives
INVARIANT Terminates
