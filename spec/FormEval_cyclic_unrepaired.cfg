SPECIFICATION Spec
CONSTANTS
  NForms = 2
  Cyclic = TRUE
  Args = {0, 1, 2}
  Rs = {1, 2, 3}
  Junk = {0, 5}
  SaveRestore = FALSE
  CallBuffers = TRUE
INVARIANT ImplIsSubstitution
