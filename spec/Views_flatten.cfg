SPECIFICATION Spec
CONSTANTS
  Species = {1, 2, 3}
  Unknown = 9
  ViewIds = {1, 2}
  MaxEvents = 3
  SharedSlot = FALSE
  FlattenUnion = TRUE
  ArgAliased = FALSE
INVARIANT ReadIsFilter
INVARIANT SurvivorsInOrder
INVARIANT EmptyInclude
INVARIANT UnknownInert
