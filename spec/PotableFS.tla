------------------------------ MODULE PotableFS ------------------------------
(***************************************************************************)
(* potable sessions over a directory: a user runs the command line again   *)
(* and again - different model files, edits, species filters, queries,     *)
(* output names that already exist (tables of earlier runs, foreign        *)
(* files) - and relies on the state of the directory afterwards.           *)
(*                                                                         *)
(*   * a successful tabulation leaves in the named file exactly the table  *)
(*     of the document the options describe (file + edits + filter, read   *)
(*     as the hand-edited file would be), whatever the file held before    *)
(*     and whatever ran before (C12, C13, C14);                            *)
(*   * a tabulation that fails while functions are evaluated leaves the    *)
(*     named file EMPTY - in particular nothing of an older, longer file   *)
(*     survives behind or instead of it (C17);                             *)
(*   * a run that is refused before the output is opened (configuration    *)
(*     error of the document, rejected edit, refused row count) and a      *)
(*     query leave every file as it was;                                   *)
(*   * no run touches a file it was not given, or leaves other files       *)
(*     behind in the directory.                                            *)
(*                                                                         *)
(* Documents are abstract: target, row count and for each of three pair    *)
(* keys what the entry is (a good definition, as.zero, a form that does    *)
(* not exist, a formula that leaves its domain inside the table, or no     *)
(* entry).  The content of a file is the document it is the table of.      *)
(* Deviation switches: NoTruncate (the output is opened without            *)
(* truncation) and Streaming (rows reach the file as they are computed).   *)
(***************************************************************************)
EXTENDS Integers, Sequences, FiniteSets, TLC, SequencesExt

CONSTANTS Outs,          \* output file names of the directory
          MaxSteps,      \* bound of the exhaustive exploration
          MaxEdits,      \* options of the Override group per invocation
          NoTruncate, Streaming

PairKeys == {"AlAl", "AlCu", "CuCu"}
Kinds == {"good", "zero", "unknown", "late", "none"}
Targets == {"LAMMPS", "GULP", "DL_POLY"}
Rows == {5, 7, 8}
Doc == [target : Targets, nr : Rows, pairs : [PairKeys -> Kinds]]

AllGood == [k \in PairKeys |-> "good"]
Inputs == [v1    |-> [target |-> "LAMMPS", nr |-> 5, pairs |-> AllGood],
           v2    |-> [target |-> "GULP", nr |-> 7, pairs |-> [AllGood EXCEPT !["AlCu"] = "none"]],
           early |-> [target |-> "LAMMPS", nr |-> 5, pairs |-> [AllGood EXCEPT !["CuCu"] = "unknown"]],
           late  |-> [target |-> "LAMMPS", nr |-> 5, pairs |-> [AllGood EXCEPT !["CuCu"] = "late"]],
           rows  |-> [target |-> "DL_POLY", nr |-> 5, pairs |-> AllGood]]
InputNames == DOMAIN Inputs

EditNames == {"nr7", "nr8", "gulp", "dlpoly", "lammps", "fixCu", "rmCu", "addAlCu", "missing"}
Filters == {"none", "incCu", "excCu"}
Queries == {"none", "list"}

NullDoc == [target |-> "", nr |-> 0, pairs |-> [k \in PairKeys |-> ""]]
Absent == [k |-> "absent", doc |-> NullDoc]
Empty == [k |-> "empty", doc |-> NullDoc]
Foreign == [k |-> "foreign", doc |-> NullDoc]       \* something the user put there (longer than any table)
Mixed == [k |-> "mixed", doc |-> NullDoc]           \* a new table followed by the tail of what was there
Partial == [k |-> "partial", doc |-> NullDoc]       \* the first rows of a table
Table(d) == [k |-> "table", doc |-> d]

\* a refused edit (configuration error) is the document Reject
Reject == [target |-> "reject", nr |-> 0, pairs |-> [k \in PairKeys |-> ""]]
Rejected(d) == d.target = "reject"
\* one option of the Override group applied to a document, as the file edited by hand would read
ApplyEdit(d, e) ==
  CASE e = "nr7" -> [d EXCEPT !.nr = 7]
    [] e = "nr8" -> [d EXCEPT !.nr = 8]
    [] e = "gulp" -> [d EXCEPT !.target = "GULP"]
    [] e = "dlpoly" -> [d EXCEPT !.target = "DL_POLY"]
    [] e = "lammps" -> [d EXCEPT !.target = "LAMMPS"]
    [] e = "fixCu" -> IF d.pairs["CuCu"] = "none" THEN Reject ELSE [d EXCEPT !.pairs["CuCu"] = "zero"]     \* --override-item of a missing item
    [] e = "rmCu" -> IF d.pairs["CuCu"] = "none" THEN Reject ELSE [d EXCEPT !.pairs["CuCu"] = "none"]      \* --remove-item of a missing item
    [] e = "addAlCu" -> IF d.pairs["AlCu"] # "none" THEN Reject ELSE [d EXCEPT !.pairs["AlCu"] = "zero"]   \* --add-item of an existing item
    [] e = "missing" -> Reject                                                                               \* --override-item Pair:Fe-Fe

\* overrides and removals are applied before additions, every option against the file as read so far (IniDoc.tla has the
\* general rule; the options used here address different items, so their order among themselves does not matter)
RECURSIVE ApplyAll(_, _)
ApplyAll(d, es) == IF es = <<>> THEN d
                   ELSE LET x == ApplyEdit(d, Head(es)) IN IF Rejected(x) THEN Reject ELSE ApplyAll(x, Tail(es))

Mentions == [AlAl |-> {"Al"}, AlCu |-> {"Al", "Cu"}, CuCu |-> {"Cu"}]
Keep(f, k) == CASE f = "none" -> TRUE [] f = "incCu" -> Mentions[k] \subseteq {"Cu"} [] f = "excCu" -> "Cu" \notin Mentions[k]
ApplyFilter(d, f) == [d EXCEPT !.pairs = [k \in PairKeys |-> IF Keep(f, k) THEN d.pairs[k] ELSE "none"]]

Has(d, kind) == \E k \in PairKeys : d.pairs[k] = kind
\* what becomes of a tabulation of document d: refused before the output is opened / fails in an evaluation / succeeds
Fate(d) == IF Has(d, "unknown") \/ (d.target = "DL_POLY" /\ d.nr % 4 # 0) THEN "refused"
           ELSE IF Has(d, "late") THEN "fails" ELSE "ok"

EditSeqs == {<<>>} \cup {<<e>> : e \in EditNames} \cup
            (IF MaxEdits >= 2 THEN {<<a, b>> : a \in EditNames, b \in EditNames} ELSE {})
\* an invocation: input file, output name (0: none given), query, edits, filter
Invocations == [i : InputNames, o : Outs \cup {0}, q : Queries, ed : EditSeqs, f : Filters]
\* assumptions on the invocations (outside them nothing is claimed): at least one pair entry is left (an empty [Pair]
\* section is a table of zero bytes, indistinguishable from "empty"); two edits are different options and do not
\* override and remove one item (the command line merges those, IniDoc.tla)
Sensible(x) == LET d == ApplyAll(Inputs[x.i], x.ed) IN
                 /\ (~Rejected(d) => \E k \in PairKeys : ApplyFilter(d, x.f).pairs[k] # "none")
                 /\ (Len(x.ed) = 2 => x.ed[1] # x.ed[2] /\ {x.ed[1], x.ed[2]} # {"fixCu", "rmCu"})

VARIABLES fs,      \* Outs -> content
          last,    \* the last invocation and what it returned
          steps
vars == <<fs, last, steps>>

\* the last run: the output it named, what it returned, and the table it should have written (only what the properties need:
\* the full argument list would multiply the states without adding behaviour)
NoLast == [o |-> 0, status |-> -1, stdout |-> "", fate |-> "none", want |-> Absent]
Init == fs = [o \in Outs |-> Absent] /\ last = NoLast /\ steps = 0

\* the user (or another program) puts something long under an output name / deletes it
Put(o) == fs' = [fs EXCEPT ![o] = Foreign] /\ last' = NoLast /\ steps' = steps + 1
Delete(o) == fs[o] # Absent /\ fs' = [fs EXCEPT ![o] = Absent] /\ last' = NoLast /\ steps' = steps + 1

\* content of the named file after open + write of a table t
Written(old, t) == IF NoTruncate /\ old.k \in {"foreign", "mixed"} THEN Mixed ELSE t
Failed(old) == IF Streaming THEN Partial ELSE IF NoTruncate /\ old.k \notin {"absent", "empty"} THEN old ELSE Empty

\* what the options of an invocation make of its input file - evaluated once per invocation (constant level)
SensibleInv == {x \in Invocations : Sensible(x)}
InvSeq == TLCEval(SetToSeq(SensibleInv))          \* invocations are addressed by their index (array look-up)
PlanOf(n) == LET x == InvSeq[n]
                                       d0 == ApplyAll(Inputs[x.i], x.ed)
                                       d == IF Rejected(d0) THEN Reject ELSE ApplyFilter(d0, x.f) IN
                               [inv |-> x, rejected |-> Rejected(d0), doc |-> d, fate |-> IF Rejected(d0) THEN "refused" ELSE Fate(d)]
Plan == TLCEval([n \in 1..Len(InvSeq) |-> PlanOf(n)])

\* one run of the command line, in the order main() decides: edits, query, output name, model, open, write
Outcome(n, dir) ==
  LET p == Plan[n]
      x == p.inv IN
  IF p.rejected THEN [status |-> 2, stdout |-> "", fate |-> "edit-refused", fs |-> dir]
  ELSE IF x.q = "list" THEN [status |-> 0, stdout |-> "list", fate |-> "query", fs |-> dir]
  ELSE IF x.o = 0 THEN [status |-> 2, stdout |-> "", fate |-> "no-output", fs |-> dir]
  ELSE CASE p.fate = "refused" -> [status |-> 2, stdout |-> "", fate |-> "refused", fs |-> dir]
         [] p.fate = "fails" -> [status |-> 2, stdout |-> "", fate |-> "fails", fs |-> [dir EXCEPT ![x.o] = Failed(dir[x.o])]]
         [] p.fate = "ok" -> [status |-> 0, stdout |-> "", fate |-> "ok", fs |-> [dir EXCEPT ![x.o] = Written(dir[x.o], Table(p.doc))]]

Invoke(n) == /\ LET r == Outcome(n, fs)
                      x == Plan[n].inv IN
                  /\ fs' = r.fs
                  /\ last' = [o |-> x.o, status |-> r.status, stdout |-> r.stdout, fate |-> r.fate,
                              want |-> IF r.fate = "ok" THEN Table(Plan[n].doc) ELSE Absent]
             /\ steps' = steps + 1

Next == (\E o \in Outs : Put(o) \/ Delete(o)) \/ (\E n \in 1..Len(InvSeq) : Invoke(n))
Spec == Init /\ [][Next]_vars
Bounded == steps <= MaxSteps

\* ---- what the user relies on
TypeOK == fs \in [Outs -> {Absent, Empty, Foreign, Mixed, Partial} \cup {Table(d) : d \in Doc}]
\* never a file that is neither a whole table nor empty nor the user's own
ContentWellFormed == \A o \in Outs : fs[o].k \notin {"mixed", "partial"}
\* a tabulation that fails in an evaluation leaves the named file empty
FailureLeavesEmpty == (last.fate = "fails") => fs[last.o] = Empty
\* a successful tabulation determines the named file: the table of (file + edits + filter), nothing of the history
SuccessDetermines == (last.fate = "ok") => fs[last.o] = last.want
\* tables in the directory are tables of valid documents
TablesAreOfValidDocs == \A o \in Outs : fs[o].k = "table" => Fate(fs[o].doc) = "ok"
\* a run changes at most the file it names, and only when it got as far as opening it
OnlyNamedFileChanges == [][(last'.status # -1) =>
                             /\ \A o \in Outs : o # last'.o => fs'[o] = fs[o]
                             /\ (last'.fate \notin {"ok", "fails"} => fs' = fs)]_vars
ExitStatus == last.status \in {-1, 0, 2} /\ (last.status = 0 <=> last.fate \in {"ok", "query"})
=============================================================================
