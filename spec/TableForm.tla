------------------------------ MODULE TableForm ------------------------------
(***************************************************************************)
(* C18: tabulated input.                                                   *)
(*                                                                         *)
(* (a) TableReader (legacy, linear interpolation): declarative Value and   *)
(*     the transcription of getValue / _findIndex (bisect_left);           *)
(* (b) reading the data file: declarative Data(file) and the transcription *)
(*     of DatReader._populate line by line (the switch StripsLastChar      *)
(*     models `line = line[:-1]`, which removes the last character of a    *)
(*     final line that has no newline);                                    *)
(* (c) plotToFile: exactly `steps` rows at lowx + i (highx - lowx)/steps;  *)
(* (d) [Table-Form] cubic splines: exact cases - data sampled from a cubic *)
(*     are reproduced by that cubic (value, first, second derivative), the *)
(*     4-point case is the Lagrange cubic - emitted for the replay.        *)
(***************************************************************************)
EXTENDS Rat, Sequences, FiniteSets, TLC, SequencesExt, FiniteSetsExt, Json, IOUtils

CONSTANTS StripsLastChar, MaxLines,
          DigitFirstOnly     \* the reader keeps only lines whose first character is a digit ("skip titles"): not the tree as it is

-----------------------------------------------------------------------------
(* (a) reader *)
\* data: sequence of <<x, y>> (integers), strictly increasing in x
Sorted(d) == \A i \in 1..(Len(d) - 1) : d[i][1] < d[i + 1][1]
\* value at a rational query q = <<n, 2>> (halves)
Value(d, q) ==
  IF d = <<>> \/ RLt(q, R(d[1][1])) \/ RLt(R(d[Len(d)][1]), q) THEN RZero
  ELSE IF \E i \in 1..Len(d) : REq(R(d[i][1]), q) THEN R(d[CHOOSE i \in 1..Len(d) : REq(R(d[i][1]), q)][2])
  ELSE LET i == CHOOSE i \in 1..(Len(d) - 1) : RLt(R(d[i][1]), q) /\ RLt(q, R(d[i + 1][1]))
           lx == R(d[i][1])
           ly == R(d[i][2])
           hx == R(d[i + 1][1])
           hy == R(d[i + 1][2]) IN
       RAdd(ly, RMul(RDiv(RSub(hy, ly), RSub(hx, lx)), RSub(q, lx)))

\* transcription: _findIndex uses bisect.bisect_left over the x values
BisectLeft(d, q) == Cardinality({i \in 1..Len(d) : RLt(R(d[i][1]), q)}) + 1     \* 1-based insertion point
ImplValue(d, q) ==
  IF d = <<>> THEN RZero     \* a file without data rows: every x is outside (before finding F43: self[0] raised IndexError)
  ELSE IF RLt(q, R(d[1][1])) \/ RLt(R(d[Len(d)][1]), q) THEN RZero                   \* _findIndex returns None
  ELSE LET idx == BisectLeft(d, q)
           low == IF REq(R(d[idx][1]), q) THEN idx ELSE idx - 1 IN
       IF REq(R(d[low][1]), q) THEN R(d[low][2])
       ELSE IF low + 1 > Len(d) THEN RZero
       ELSE LET m == RDiv(RSub(R(d[low + 1][2]), R(d[low][2])), RSub(R(d[low + 1][1]), R(d[low][1])))
                c == RSub(R(d[low][2]), RMul(m, R(d[low][1]))) IN
            RAdd(RMul(m, q), c)

Xs == 0..3
Ys == {-2, 0, 3}
DataSets == UNION {{d \in [1..n -> Xs \X Ys] : Sorted(d)} : n \in 0..3}
Queries == {<<n, 2>> : n \in -1..7}
ReaderOK == \A d \in DataSets, q \in Queries : ImplValue(d, q) = Value(d, q)
BetweenNeighbours == \A d \in DataSets, q \in Queries :
   \A i \in 1..(Len(d) - 1) : (RLt(R(d[i][1]), q) /\ RLt(q, R(d[i + 1][1]))) =>
        LET v == Value(d, q)
            lo == IF d[i][2] <= d[i + 1][2] THEN d[i][2] ELSE d[i + 1][2]
            hi == IF d[i][2] <= d[i + 1][2] THEN d[i + 1][2] ELSE d[i][2] IN RLe(R(lo), v) /\ RLe(v, R(hi))
ASSUME ReaderOK
ASSUME BetweenNeighbours

\* longer tables, unevenly spaced in every way the lattice allows - among them the ones that LOOK evenly spaced from their ends
\* (last x = first x + (rows - 1) * first step) although the interior is refined: 4 to 6 rows out of 0..10, y from two patterns
LongXs == 0..10
Pattern(p, x) == IF p = 1 THEN x * x - 3 * x ELSE IF x % 3 = 0 THEN 7 - x ELSE 2 * x
LongDataSets == {[k \in 1..Cardinality(S) |-> <<SetToSortSeq(S, <)[k], Pattern(p, SetToSortSeq(S, <)[k])>>] :
                    S \in {T \in SUBSET LongXs : Cardinality(T) \in 4..6}, p \in {1, 2}}
LongQueries == {<<n, 2>> : n \in -1..21}
LooksEven(d) == d[Len(d)][1] = d[1][1] + (Len(d) - 1) * (d[2][1] - d[1][1])
IsEven(d) == \A k \in 1..(Len(d) - 1) : d[k + 1][1] - d[k][1] = d[2][1] - d[1][1]
LongReaderOK == \A d \in LongDataSets, q \in LongQueries : ImplValue(d, q) = Value(d, q)
ASSUME LongReaderOK
ASSUME \E d \in LongDataSets : LooksEven(d) /\ ~IsEven(d)

-----------------------------------------------------------------------------
(* (b) the data file, line by line *)
\* a line: kind, x (one digit), y (sequence of digits, printed without separator: "45"), trail (whitespace after y)
LineKinds == {"data", "data-trail", "comment", "blank", "indented"}
Lines == [kind : LineKinds, x : 1..3, y : {<<4>>, <<4, 5>>}]
Files == {f \in UNION {[1..n -> Lines] : n \in 1..MaxLines} : \A a, b \in 1..Len(f) : a # b => f[a].x # f[b].x}

\* how the x of every data line of the file is spelled: 3, +3, .3 (three tenths) or -3 - all of them numbers for float()
XSpellings == {"plain", "plus", "dot", "neg"}
VARIABLES file, finalNewline, xsp, i, rows, pc, crashed
vars == <<file, finalNewline, xsp, i, rows, pc, crashed>>

IsData(l) == l.kind \in {"data", "data-trail", "indented"}
\* what the user means: every data line contributes (x, y); comment and blank lines nothing
DataOf(f) == {<<f[k].x, f[k].y>> : k \in {j \in 1..Len(f) : IsData(f[j])}}

Init == /\ file \in Files /\ finalNewline \in BOOLEAN /\ xsp \in XSpellings /\ i = 1 /\ rows = {} /\ pc = "lines" /\ crashed = FALSE

\* for line in fileobj: line = line[:-1]; line = line.strip(); skip blank / '#'; (x, y) = split(line)[:2]
ReadLine == /\ pc = "lines" /\ i <= Len(file)
            /\ LET l == file[i]
                   lastNoNL == (i = Len(file) /\ ~finalNewline)
                   \* characters lost by [:-1] on a final line without newline: the last character of the line
                   ylost == StripsLastChar /\ lastNoNL /\ l.kind \in {"data", "indented"}     \* "data-trail" loses its trailing blank only
                   y2 == IF ylost THEN SubSeq(l.y, 1, Len(l.y) - 1) ELSE l.y IN
               IF ~IsData(l) \/ (DigitFirstOnly /\ xsp # "plain") THEN UNCHANGED <<rows, crashed>>
               ELSE IF y2 = <<>> THEN crashed' = TRUE /\ UNCHANGED rows            \* only one field left: the unpacking fails
               ELSE rows' = rows \cup {<<l.x, y2>>} /\ UNCHANGED crashed
            /\ i' = i + 1 /\ UNCHANGED <<file, finalNewline, xsp, pc>>
Finish == /\ pc = "lines" /\ i > Len(file) /\ pc' = "done" /\ UNCHANGED <<file, finalNewline, xsp, i, rows, crashed>>
Next == ReadLine \/ Finish
Spec == Init /\ [][Next]_vars

FileReadOK == (pc = "done") => (~crashed /\ rows = DataOf(file))
Terminates == (~ENABLED Next) => pc = "done"

-----------------------------------------------------------------------------
(* (c) plot rows *)
PlotRows(lo, hi, steps) == [k \in 1..steps |-> RAdd(lo, RMul(R(k - 1), RDiv(RSub(hi, lo), R(steps))))]
PlotCases == {[lo |-> lo, hi |-> hi, steps |-> n, xs |-> PlotRows(lo, hi, n)] : lo \in {R(0), <<1, 2>>, R(-1)}, hi \in {R(2), <<7, 2>>, R(10)}, n \in {1, 2, 3, 5, 8, 10}}
PlotOK == \A c \in PlotCases : Len(c.xs) = c.steps /\ c.xs[1] = c.lo
                               /\ (c.steps > 1 => RSub(c.xs[2], c.xs[1]) = RDiv(RSub(c.hi, c.lo), R(c.steps)))
ASSUME PlotOK

-----------------------------------------------------------------------------
(* (d) cubic table forms *)
CubicAt(c, x) == [v |-> RAdd(RAdd(RAdd(c[1], RMul(c[2], x)), RMul(c[3], RMul(x, x))), RMul(c[4], RMul(x, RMul(x, x)))),
                  d1 |-> RAdd(RAdd(c[2], RMul(RMul(R(2), c[3]), x)), RMul(RMul(R(3), c[4]), RMul(x, x))),
                  d2 |-> RAdd(RMul(R(2), c[3]), RMul(RMul(R(6), c[4]), x))]
Grids == { <<R(0), R(1), R(2), R(4)>>, <<<<1, 2>>, R(1), R(3), R(4), R(6)>>, <<R(-2), R(-1), <<1, 2>>, R(1), <<5, 2>>, R(3)>>,
           <<R(0), <<1, 4>>, <<1, 2>>, R(1), R(2), R(3), R(5), R(8)>> }
Cubics == { <<R(1), R(-2), R(0), R(1)>>, <<R(0), R(3), <<-1, 2>>, <<1, 4>>>>, <<R(2), R(0), R(0), R(0)>>, <<R(-1), R(1), R(1), R(0)>> }
QueryOf(g) == {g[1], g[Len(g)]} \cup {RDiv(RAdd(g[k], g[k + 1]), R(2)) : k \in 1..(Len(g) - 1)} \cup {g[k] : k \in 1..Len(g)}
TableCases == {[xs |-> g, ys |-> [k \in 1..Len(g) |-> CubicAt(c, g[k]).v], cubic |-> c,
                inside |-> SetToSeq({[x |-> q, e |-> CubicAt(c, q)] : q \in QueryOf(g)}),
                outside |-> <<RSub(g[1], R(1)), RSub(g[1], <<1, 1000>>), RAdd(g[Len(g)], <<1, 1000>>), RAdd(g[Len(g)], R(3))>>] : g \in Grids, c \in Cubics}

Emit == IF "EMIT" \in DOMAIN IOEnv /\ IOEnv.EMIT = "1"
        THEN /\ ndJsonSerialize(IOEnv.VERIF_OUT \o "/plot.ndjson", SetToSeq(PlotCases))
             /\ ndJsonSerialize(IOEnv.VERIF_OUT \o "/table.ndjson", SetToSeq(TableCases))
             /\ ndJsonSerialize(IOEnv.VERIF_OUT \o "/files.ndjson", SetToSeq({[file |-> f, nl |-> b, data |-> SetToSeq(DataOf(f))] : f \in Files, b \in BOOLEAN}))
             /\ ndJsonSerialize(IOEnv.VERIF_OUT \o "/reader.ndjson", SetToSeq({[d |-> d, vals |-> SetToSeq({[q |-> q, v |-> Value(d, q)] : q \in Queries})] : d \in DataSets}
                                                                                \cup {[d |-> d, vals |-> SetToSeq({[q |-> q, v |-> Value(d, q)] : q \in LongQueries})] : d \in LongDataSets}))
        ELSE TRUE
ASSUME Emit
=============================================================================
