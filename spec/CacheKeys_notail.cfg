SPECIFICATION Spec
CONSTANTS
  K = {"form", "par", "mk", "st", "body"}
  MaxEvents = 6
CONSTRAINT Bounded
INVARIANT OwnMeaning
