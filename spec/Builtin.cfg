SPECIFICATION Spec
CONSTANTS
  MaxArity = 7
INVARIANT RoutesAgree
INVARIANT PotableArityChecked
INVARIANT Terminates
