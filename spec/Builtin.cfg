SPECIFICATION Spec
CONSTANTS
  MaxArity = 4
INVARIANT RoutesAgree
INVARIANT PotableArityChecked
INVARIANT Terminates
