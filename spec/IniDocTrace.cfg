SPECIFICATION TSpec
CONSTANTS
  Secs = {1, 2, 3, 4, 5}
  Keys = {1, 2, 3, 4, 5}
  Vals = {1, 2, 3, 4}
  MaxOps = 0
  RawKeyLookup = FALSE
  RawKeyDup = FALSE
  RawKeyMerge = FALSE
INVARIANT Complete
POSTCONDITION Report
