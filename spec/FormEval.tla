------------------------------ MODULE FormEval ------------------------------
(***************************************************************************)
(* C09 / C12: custom [Potential-Form] formulas.                            *)
(*                                                                         *)
(* A PROGRAM gives each form f1..fn(r, a) a body: an expression over r,    *)
(* the parameter a, integer constants, + - * ^, comparisons, if(), and     *)
(* calls g(r, expr) of other forms.  The statement's meaning is            *)
(* SUBSTITUTION: parameters are bound positionally for the duration of one *)
(* call.  The implementation gives every form ONE mutable symbol table     *)
(* (cexprtk): a call first evaluates its arguments, then overwrites the    *)
(* callee's variables, then evaluates the callee's expression, which reads *)
(* its variables whenever it reaches them.  Impl threads those tables      *)
(* through the evaluation exactly so; it starts from ARBITRARY table       *)
(* contents, which covers every possible history of earlier calls.         *)
(*                                                                         *)
(* ImplIsSubstitution holds for every acyclic call graph; with Cyclic =    *)
(* TRUE TLC exhibits the re-entrancy counterexample (finding F14).         *)
(***************************************************************************)
EXTENDS Integers, Sequences, FiniteSets, TLC, SequencesExt, FiniteSetsExt, Json, IOUtils

CONSTANTS NForms, Cyclic, Args, Rs, Junk,
          SaveRestore,  \* BOOLEAN: __call__ puts the previous bindings back after evaluating (the repaired tree)
          CallBuffers   \* BOOLEAN: a call node of a compiled formula keeps the values of its arguments in a buffer that belongs to
                        \* the NODE, not to the activation (the expression library; the tree as it is - known finding F48): if the
                        \* formula is re-entered while a later argument is evaluated, the earlier arguments are overwritten

Forms == 1..NForms
\* expressions
Par == [op |-> "par"]
Rr == [op |-> "r"]
Num(k) == [op |-> "num", k |-> k]
Bin(o, x, y) == [op |-> o, x |-> x, y |-> y]
Call(g, x) == [op |-> "call", g |-> g, x |-> x]          \* g is RELATIVE: the g-th form after the caller (acyclic) or before (cyclic)
If(c, x, y) == [op |-> "if", c |-> c, x |-> x, y |-> y]
\* a call NODE with two arguments: of the helper form h2(x, y) = x*100 + y, or of pymath.fsum(x, y) = x + y; id tells the
\* call nodes of one body apart (each has its own argument buffer)
Fn2(id, kind, x, y) == [op |-> "fn2", id |-> id, kind |-> kind, x |-> x, y |-> y]
Fn2Value(kind, x, y) == IF kind = "h2" THEN x * 100 + y ELSE x + y

\* body pool: leaf bodies (no calls) and calling bodies
LeafBodies == { Bin("add", Par, Rr), Bin("mul", Par, Rr), Bin("sub", Bin("mul", Par, Par), Rr), If(Bin("lt", Rr, Num(2)), Par, Bin("add", Par, Num(3))) }
CallBodies == { Bin("add", Call(1, Par), Num(1)),
                Bin("mul", Call(1, Bin("add", Par, Num(1))), Par),                \* the parameter is read AFTER the call returned
                Bin("add", Call(1, Num(2)), Call(1, Par)),                        \* two calls of one form
                If(Bin("lt", Rr, Num(2)), Par, Call(1, Par)),
                Bin("sub", Par, Call(1, Call(1, Par))),                           \* a call nested in an argument of the same form
                Bin("add", Call(1, Par), Call(2, Par)) }                          \* two different callees (the second may not exist)
RecursiveBodies == { If(Bin("lt", Par, Num(1)), Num(1), Bin("add", Call(1, Bin("sub", Par, Num(1))), Par)),     \* a(n) = if(n<=0, 1, b(n-1) + n)
                     \* two nested calls at every level, the parameter read after BOTH returned: a(n) = if(n<=0, 0, b(n-1) + b(n-1) + n*r)
                     If(Bin("lt", Par, Num(1)), Num(0), Bin("add", Bin("add", Call(1, Bin("sub", Par, Num(1))), Call(1, Bin("sub", Par, Num(1)))), Bin("mul", Par, Rr))),
                     \* the recursive call is an ARGUMENT of another call: a(n) = if(n<1, 0, h2(n, b(n-1)))
                     If(Bin("lt", Par, Num(1)), Num(0), Fn2(1, "h2", Par, Call(1, Bin("sub", Par, Num(1))))),
                     \* the first two bodies with their sums written as pymath.fsum(x, y) calls
                     If(Bin("lt", Par, Num(1)), Num(1), Fn2(1, "sum", Call(1, Bin("sub", Par, Num(1))), Par)),
                     If(Bin("lt", Par, Num(1)), Num(0), Fn2(1, "sum", Fn2(2, "sum", Call(1, Bin("sub", Par, Num(1))), Call(1, Bin("sub", Par, Num(1)))), Bin("mul", Par, Rr))) }
RECURSIVE UsesH2(_)
UsesH2(e) == CASE e.op = "fn2" -> TRUE
               [] e.op \in {"add", "sub", "mul", "lt"} -> UsesH2(e.x) \/ UsesH2(e.y)
               [] e.op = "if" -> UsesH2(e.c) \/ UsesH2(e.x) \/ UsesH2(e.y)
               [] e.op = "call" -> UsesH2(e.x)
               [] OTHER -> FALSE

\* call target of form f for relative index g; 0 = does not exist
Target(f, g) == IF Cyclic THEN ((f + g - 1) % NForms) + 1 ELSE IF f + g <= NForms THEN f + g ELSE 0
RECURSIVE WellFormed(_, _)
WellFormed(e, f) == CASE e.op \in {"par", "r", "num"} -> TRUE
                      [] e.op \in {"add", "sub", "mul", "lt", "fn2"} -> WellFormed(e.x, f) /\ WellFormed(e.y, f)
                      [] e.op = "call" -> Target(f, e.g) # 0 /\ WellFormed(e.x, f)
                      [] e.op = "if" -> WellFormed(e.c, f) /\ WellFormed(e.x, f) /\ WellFormed(e.y, f)
Programs == IF Cyclic
            THEN \* a(r,n) = if(n < 1, 1, b(r, n-1) + n) ;  b(r,n) = a(r,n) + 0     (the manual allows forms to call each other)
                 {[f \in Forms |-> IF f = 1 THEN b ELSE Bin("add", Call(1, Par), Num(0))] : b \in RecursiveBodies}
            ELSE {p \in [Forms -> LeafBodies \cup CallBodies] :
                    /\ \A f \in Forms : WellFormed(p[f], f)
                    /\ p[NForms] \in LeafBodies}

-----------------------------------------------------------------------------
(* the statement: substitution semantics *)
RECURSIVE Sub(_, _, _, _, _, _)
\* value of expression e of form f with parameter a at r ; fuel bounds recursion of cyclic programs
Sub(p, e, f, a, r, fuel) ==
  CASE e.op = "par" -> a
    [] e.op = "r" -> r
    [] e.op = "num" -> e.k
    [] e.op = "add" -> Sub(p, e.x, f, a, r, fuel) + Sub(p, e.y, f, a, r, fuel)
    [] e.op = "sub" -> Sub(p, e.x, f, a, r, fuel) - Sub(p, e.y, f, a, r, fuel)
    [] e.op = "mul" -> Sub(p, e.x, f, a, r, fuel) * Sub(p, e.y, f, a, r, fuel)
    [] e.op = "lt" -> IF Sub(p, e.x, f, a, r, fuel) < Sub(p, e.y, f, a, r, fuel) THEN 1 ELSE 0
    [] e.op = "fn2" -> Fn2Value(e.kind, Sub(p, e.x, f, a, r, fuel), Sub(p, e.y, f, a, r, fuel))
    [] e.op = "if" -> IF Sub(p, e.c, f, a, r, fuel) # 0 THEN Sub(p, e.x, f, a, r, fuel) ELSE Sub(p, e.y, f, a, r, fuel)
    [] e.op = "call" -> IF fuel = 0 THEN 0
                        ELSE Sub(p, p[Target(f, e.g)], Target(f, e.g), Sub(p, e.x, f, a, r, fuel), r, fuel - 1)

(* the implementation: one mutable symbol table per form *)
\* result: [v |-> value, t |-> tables after the evaluation]   tables: form -> current binding of its parameter a ;
\* tables[-(10 f + id)] is the argument buffer of call node `id' of form f's compiled formula
RECURSIVE Impl(_, _, _, _, _, _)
Res(v, t) == [v |-> v, t |-> t]
Impl(p, e, f, t, r, fuel) ==
  CASE e.op = "par" -> Res(t[f], t)                      \* reads the form's variable NOW
    [] e.op = "r" -> Res(r, t)
    [] e.op = "num" -> Res(e.k, t)
    [] e.op \in {"add", "sub", "mul", "lt"} ->
         LET x == Impl(p, e.x, f, t, r, fuel)
             y == Impl(p, e.y, f, x.t, r, fuel) IN
         Res(CASE e.op = "add" -> x.v + y.v [] e.op = "sub" -> x.v - y.v [] e.op = "mul" -> x.v * y.v
               [] e.op = "lt" -> IF x.v < y.v THEN 1 ELSE 0, y.t)
    [] e.op = "fn2" ->
         LET key == 0 - (10 * f + e.id)
             x == Impl(p, e.x, f, t, r, fuel)
             stored == [x.t EXCEPT ![key] = x.v]                \* the first argument goes into the node's buffer ...
             y == Impl(p, e.y, f, stored, r, fuel) IN           \* ... and is still expected there when the second one is known
         Res(Fn2Value(e.kind, IF CallBuffers THEN y.t[key] ELSE x.v, y.v), y.t)
    [] e.op = "if" -> LET c == Impl(p, e.c, f, t, r, fuel) IN
                      IF c.v # 0 THEN Impl(p, e.x, f, c.t, r, fuel) ELSE Impl(p, e.y, f, c.t, r, fuel)
    [] e.op = "call" ->
         IF fuel = 0 THEN Res(0, t)
         ELSE LET g == Target(f, e.g)
                  arg == Impl(p, e.x, f, t, r, fuel)
                  bound == [arg.t EXCEPT ![g] = arg.v]   \* __call__: self._local_symbol_table.variables[pn] = v
                  res == Impl(p, p[g], g, bound, r, fuel - 1)
              IN IF SaveRestore THEN Res(res.v, [res.t EXCEPT ![g] = arg.t[g]]) ELSE res

BufferKeys == {0 - (10 * g + id) : g \in Forms, id \in 1..2}
-----------------------------------------------------------------------------
VARIABLES prog, tables, call, result
vars == <<prog, tables, call, result>>

Init == /\ prog \in Programs
        /\ tables \in [Forms -> Junk]           \* whatever earlier calls left behind
        /\ call = [f |-> 0, a |-> 0, r |-> 0] /\ result = 0

\* a potential instantiated as `f a` is evaluated at r (one public call)
TopCall(f, a, r) ==
  /\ LET t0 == [k \in Forms \cup BufferKeys |-> IF k = f THEN a ELSE IF k > 0 THEN tables[k] ELSE 0]
         res == Impl(prog, prog[f], f, t0, r, NForms + 3) IN
       /\ result' = res.v /\ tables' = [k \in Forms |-> IF SaveRestore /\ k = f THEN tables[f] ELSE res.t[k]]
  /\ call' = [f |-> f, a |-> a, r |-> r]
  /\ UNCHANGED prog

Next == \E f \in Forms, a \in Args, r \in Rs : TopCall(f, a, r)
Spec == Init /\ [][Next]_vars

ImplIsSubstitution == (call.f # 0) => result = Sub(prog, prog[call.f], call.f, call.a, call.r, NForms + 3)
\* what the tree as it is satisfies (CallBuffers): everything but recursion through the argument of another call (F48)
ImplIsSubstitutionButF48 == (call.f # 0 /\ ~(Cyclic /\ \E g \in Forms : UsesH2(prog[g]))) =>
                              result = Sub(prog, prog[call.f], call.f, call.a, call.r, NForms + 3)

-----------------------------------------------------------------------------
(* pymath.* : each function is Python's math function of the same name with the same argument order.  Exact integer     *)
(* identities, computed here, that pin name, arity and argument order.                                                 *)
RECURSIVE IPow(_, _), Fact(_), IGcd(_, _)
IPow(b, k) == IF k = 0 THEN 1 ELSE b * IPow(b, k - 1)
Fact(k) == IF k = 0 THEN 1 ELSE k * Fact(k - 1)
IGcd(a, b) == IF b = 0 THEN a ELSE IGcd(b, a % b)
PM(fn, args, v) == [fn |-> fn, args |-> args, v |-> v]
PyMathTable ==
  {PM("log", <<IPow(b, k), b>>, k) : b \in {2, 3, 5, 7, 10}, k \in 0..3}           \* log(x, base)
  \cup {PM("pow", <<b, k>>, IPow(b, k)) : b \in {2, 3, 5}, k \in 0..3}
  \cup {PM("log2", <<IPow(2, k)>>, k) : k \in 0..5} \cup {PM("log10", <<IPow(10, k)>>, k) : k \in 0..3}
  \cup {PM("fmod", <<a, b>>, a % b) : a \in {7, 9, 11}, b \in {2, 4, 5}}
  \cup {PM("fmod", <<0 - a, b>>, 0 - (a % b)) : a \in {7, 9, 11}, b \in {2, 4, 5}}     \* C fmod: the result has the sign of the dividend
  \cup {PM("fmod", <<a, 0 - b>>, a % b) : a \in {7, 9}, b \in {2, 4}}
  \cup {PM("pow", <<0 - b, k>>, IF k % 2 = 0 THEN IPow(b, k) ELSE 0 - IPow(b, k)) : b \in {2, 3}, k \in 0..3}
  \cup {PM("floor", <<0 - 7>>, 0 - 7), PM("ceil", <<0 - 7>>, 0 - 7), PM("fabs", <<7>>, 7)}
  \cup {PM("hypot", <<3 * k, 4 * k>>, 5 * k) : k \in 1..3}
  \cup {PM("ldexp", <<a, k>>, a * IPow(2, k)) : a \in {1, 3}, k \in 0..3}
  \cup {PM("copysign", <<a, 0 - b>>, 0 - a) : a \in {2, 5}, b \in {1, 7}} \cup {PM("copysign", <<a, b>>, a) : a \in {2, 5}, b \in {1, 7}}
  \cup {PM("fabs", <<0 - a>>, a) : a \in {0, 3, 8}}
  \cup {PM("gcd", <<a, b>>, IGcd(a, b)) : a \in {12, 18, 35}, b \in {8, 27, 14}}
  \cup {PM("factorial", <<k>>, Fact(k)) : k \in 0..6}
  \cup {PM("sqrt", <<k * k>>, k) : k \in 0..5}
  \cup {PM("fsum", <<a, b, c>>, a + b + c) : a \in {1, 2}, b \in {3, 5}, c \in {7, 11}}
  \cup {PM("atan2", <<0, a>>, 0) : a \in {1, 2}}
  \cup {PM("exp", <<0>>, 1), PM("log1p", <<0>>, 0), PM("sin", <<0>>, 0), PM("cos", <<0>>, 1), PM("tan", <<0>>, 0), PM("sinh", <<0>>, 0),
         PM("cosh", <<0>>, 1), PM("tanh", <<0>>, 0), PM("asinh", <<0>>, 0), PM("atan", <<0>>, 0), PM("acosh", <<1>>, 0), PM("atanh", <<0>>, 0),
         PM("acos", <<1>>, 0), PM("log", <<1>>, 0), PM("floor", <<7>>, 7), PM("ceil", <<7>>, 7), PM("trunc", <<0 - 7>>, 0 - 7)}

\* v: what the formulas denote; impl: what the model of the implementation (SaveRestore, CallBuffers as configured) computes
ImplFresh(p, f, a, r) == Impl(p, p[f], f, [k \in Forms \cup BufferKeys |-> IF k = f THEN a ELSE 0], r, NForms + 3).v
CaseOf(p) == [prog |-> [f \in Forms |-> p[f]],
              h2 |-> \E g \in Forms : UsesH2(p[g]),
              vals |-> SetToSeq({[f |-> f, a |-> a, r |-> r, v |-> Sub(p, p[f], f, a, r, NForms + 3), impl |-> ImplFresh(p, f, a, r)] : f \in Forms, a \in Args, r \in Rs})]
Emit == IF "EMIT" \in DOMAIN IOEnv /\ IOEnv.EMIT = "1"
        THEN /\ ndJsonSerialize(IOEnv.VERIF_OUT \o "/cases.ndjson", SetToSeq({CaseOf(p) : p \in Programs}))
             /\ ndJsonSerialize(IOEnv.VERIF_OUT \o "/pymath.ndjson", SetToSeq(PyMathTable))
        ELSE TRUE
ASSUME Emit
=============================================================================
