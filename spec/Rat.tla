--------------------------------- MODULE Rat ---------------------------------
(* Exact rational arithmetic on pairs <<n, d>> with d > 0, kept in lowest terms.  TLC integers are 32 bit: the      *)
(* models that use this module keep their constants small enough for every intermediate to stay below 2^31.       *)
EXTENDS Integers

RECURSIVE Gcd(_, _)
Gcd(a, b) == IF b = 0 THEN (IF a < 0 THEN -a ELSE a) ELSE Gcd(b, a % b)

Abs(a) == IF a < 0 THEN -a ELSE a
Norm(n, d) == LET g == Gcd(Abs(n), Abs(d))
                  s == IF d < 0 THEN -1 ELSE 1 IN
              IF n = 0 THEN <<0, 1>> ELSE <<(s * n) \div g, (s * d) \div g>>
R(n) == <<n, 1>>
RZero == <<0, 1>>
ROne == <<1, 1>>
RAdd(a, b) == Norm(a[1] * b[2] + b[1] * a[2], a[2] * b[2])
RSub(a, b) == Norm(a[1] * b[2] - b[1] * a[2], a[2] * b[2])
RMul(a, b) == Norm(a[1] * b[1], a[2] * b[2])
RDiv(a, b) == Norm(a[1] * b[2], a[2] * b[1])          \* b # 0
RNeg(a) == <<-a[1], a[2]>>
RLt(a, b) == a[1] * b[2] < b[1] * a[2]
RLe(a, b) == a[1] * b[2] <= b[1] * a[2]
REq(a, b) == a[1] * b[2] = b[1] * a[2]
RECURSIVE RPow(_, _)
RPow(a, k) == IF k = 0 THEN ROne ELSE IF k > 0 THEN RMul(a, RPow(a, k - 1)) ELSE RDiv(ROne, RPow(a, -k))
=============================================================================
