------------------------------- MODULE Layout -------------------------------
(***************************************************************************)
(* Writer step machines ("layouts") for every tabulation target of         *)
(* atsim.potentials, the reader ("consumer") models of the simulation      *)
(* codes that read those files, and the fault model of a write.            *)
(*                                                                         *)
(* The abstract file is a sequence of RECORDS.  A record is either a       *)
(* header-like line or a GROUP of n consecutive values of ONE function     *)
(* sampled on ONE grid with ONE scaling.  Numbers are not stored: a group  *)
(* says which function (fn), which grid indices (k0 .. k0+n-1), which grid *)
(* ("r" or "rho") and which scaling; the exact rational value of every     *)
(* cell follows from that and is computed by the conformance harness from  *)
(* the probe algebra (DESIGN 2.2).                                         *)
(*                                                                         *)
(* Species are natural numbers: the RANK of the species label in Python's  *)
(* string order.  The harness maps ranks to labels order-preservingly.     *)
(***************************************************************************)
EXTENDS Integers, Sequences, FiniteSets, TLC, SequencesExt, FiniteSetsExt, Functions, Json, IOUtils

CONSTANTS Family,       \* "pair" | "eam" | "fs" | "adp" | "funcfl" | "eam_under" | "fs_under" | "eam_foreign" | "fs_foreign" | "pair_dup"
          Targets,      \* set of target names explored by this configuration
          MaxSp,        \* species ranks are 1..MaxSp
          MaxPots,      \* max number of declared pair potentials (pair family)
          NRs,          \* set of nr values
          NRhos,        \* set of nrho values
          Faults,       \* BOOLEAN : also explore a failing evaluation at every position
          FlushFixed    \* BOOLEAN : TRUE = every writer flushes once, at the end (tree with the F11 repair)

VARIABLES m,        \* the abstract model (never changes)
          plan,     \* Plan(m): the abstract file the writer is going to produce (never changes)
          pos,      \* next record of plan to be produced
          nEval,    \* number of function evaluations performed so far
          flushed,  \* number of records of plan that have reached the sink (the sink is always a prefix of plan)
          phase,    \* "writing" | "done" | "raised" | "rejected"
          failAt    \* 0 = no fault; k > 0 = the k-th evaluation raises

vars == <<m, plan, pos, nEval, flushed, phase, failAt>>

Sp == 1..MaxSp

-----------------------------------------------------------------------------
(* Generic helpers *)

Zero == [f |-> "zero", s |-> 0, t |-> 0]
Fn(f, s, t) == [f |-> f, s |-> s, t |-> t]

Min2(a, b) == IF a <= b THEN a ELSE b
Max2(a, b) == IF a <= b THEN b ELSE a

IndexOf(seq, x) == CHOOSE i \in 1..Len(seq) : seq[i] = x
InSeq(seq, x) == \E i \in 1..Len(seq) : seq[i] = x

\* (i, j<=i) in the order the setfl format lists element pairs
Tri(n) == FlattenSeq([i \in 1..n |-> [j \in 1..i |-> <<i, j>>]])

\* ascending sequence of a set of naturals
Ascending(S) == SetToSortSeq(S, LAMBDA a, b : a < b)

\* unordered pairs (a<=b) of a set of ranks, in Python's sorted() order of tuples
SortedPairs(S) == SetToSortSeq({<<a, b>> \in S \X S : a <= b},
                               LAMBDA p, q : p[1] < q[1] \/ (p[1] = q[1] /\ p[2] < q[2]))

Group(sec, who, fn, grid, k0, n, scl, per) ==
  [t |-> "cells", sec |-> sec, who |-> who, fn |-> fn, grid |-> grid, k0 |-> k0, n |-> n, scl |-> scl,
   ev |-> IF fn = Zero THEN 0 ELSE n * per]     \* a zero-filled slot is not evaluated through any user function: it cannot fail

Line(t) == [t |-> t, ev |-> 0]

-----------------------------------------------------------------------------
(* Model spaces.  A model is what the user declares.                        *)

\* pair family: pots is the declaration order; labels may be given either way round
PotSeqsUpTo(MP) == UNION {{ps \in [1..n -> Sp \X Sp] :
                     \A i, j \in 1..n : i # j => {ps[i][1], ps[i][2]} # {ps[j][1], ps[j][2]}} : n \in 1..MP}

PairModels(Tg) ==
  {mm \in {[fam |-> "pair", tgt |-> t, nr |-> n, nrho |-> 0, pots |-> ps, els |-> <<>>,
            embedDecl |-> {}, densDecl |-> {}, dip |-> <<>>, quad |-> <<>>] :
               t \in Tg, n \in NRs, ps \in PotSeqsUpTo(MaxPots)} :
      \* delpot = cutoff/(ngrid-4) is undefined for ngrid = 4: outside C02's domain (it is C16's subject)
      ~(mm.tgt = "DLPOLY" /\ mm.nr = 4)}

\* a Python-API list may name one pair of labels more than once (potable refuses such a file): every potential still gets
\* its block, in list order
PairDupModels(Tg) ==
  {mm \in {[fam |-> "pair", tgt |-> t, nr |-> n, nrho |-> 0, pots |-> ps, els |-> <<>>,
            embedDecl |-> {}, densDecl |-> {}, dip |-> <<>>, quad |-> <<>>] :
               t \in Tg, n \in NRs, ps \in UNION {[1..k -> Sp \X Sp] : k \in 2..3}} :
      /\ \E i, j \in 1..Len(mm.pots) : i # j /\ mm.pots[i] = mm.pots[j]
      /\ ~(mm.tgt = "DLPOLY" /\ mm.nr = 4)}

\* EAM family: els is the order in which the elements reach the writer (= declaration order of the embedding
\* entries, followed by density-only species).  pots: any subset of unordered pairs, each in one orientation.
Perms(S) == {p \in [1..Cardinality(S) -> S] : \A i, j \in 1..Cardinality(S) : i # j => p[i] # p[j]}

OrientedSubsets(S) ==   \* sets of ordered pairs containing at most one orientation of each unordered pair
  {P \in SUBSET (S \X S) : \A p \in P : (p[1] # p[2]) => <<p[2], p[1]>> \notin P}

PotSeqOf(P) == SetToSortSeq(P, LAMBDA p, q : p[1] < q[1] \/ (p[1] = q[1] /\ p[2] < q[2]))

EamModelsOver(Tg, S, fam, wantADP) ==
  {[fam |-> fam, tgt |-> t, nr |-> n, nrho |-> nh, pots |-> PotSeqOf(P), els |-> e,
    embedDecl |-> S, densDecl |-> (S \X {0}),
    dip |-> IF wantADP THEN PotSeqOf(DP) ELSE <<>>, quad |-> IF wantADP THEN PotSeqOf(QP) ELSE <<>>] :
      t \in Tg, n \in NRs, nh \in NRhos, P \in OrientedSubsets(S), e \in Perms(S),
      DP \in IF wantADP THEN OrientedSubsets(S) ELSE {{}}, QP \in IF wantADP THEN OrientedSubsets(S) ELSE {{}}}

EamModels(Tg) == UNION {EamModelsOver(Tg, 1..k, "eam", FALSE) : k \in 1..MaxSp}

\* ADP: dipole / quadrupole declarations are independent oriented subsets; to keep the space small the pair
\* potentials are all declared or none
\* (built directly: filtering EamModelsOver would first construct every pair subset x dipole subset x quadrupole subset).
\* For three species the quadrupole declarations are tied to the dipole ones (none, the same pairs the other way round, all).
QuadChoices(S, DP) == IF Cardinality(S) <= 2 THEN OrientedSubsets(S)
                      ELSE {{}, {<<p[2], p[1]>> : p \in DP}, {<<a, b>> \in S \X S : a >= b}}
AdpModelsOver(Tg, S) ==
  UNION {{[fam |-> "adp", tgt |-> t, nr |-> n, nrho |-> nh, pots |-> PotSeqOf(P), els |-> e,
           embedDecl |-> S, densDecl |-> (S \X {0}), dip |-> PotSeqOf(DP), quad |-> PotSeqOf(QP)] :
             t \in Tg, n \in NRs, nh \in NRhos, P \in {{}, {<<a, b>> \in S \X S : a <= b}}, e \in Perms(S), QP \in QuadChoices(S, DP)} :
         DP \in OrientedSubsets(S)}
AdpModels(Tg) == UNION {AdpModelsOver(Tg, 1..k) : k \in 1..MaxSp}

\* Finnis-Sinclair family: densDecl is ANY subset of ordered pairs (site, neighbour); embedDecl the declared
\* embedding entries; every species mentioned anywhere becomes an element.  els lists the embed-declared
\* species in declaration order first; density-only species follow (their relative order is whatever the
\* implementation chooses: the harness reads it from the file header, see DESIGN 4.1).
FsModelsOver(Tg, S) ==
  {[fam |-> "fs", tgt |-> t, nr |-> n, nrho |-> nh, pots |-> PotSeqOf(P), els |-> e,
    embedDecl |-> S, densDecl |-> D, dip |-> <<>>, quad |-> <<>>] :
      t \in Tg, n \in NRs, nh \in NRhos, e \in Perms(S), D \in SUBSET (S \X S),
      P \in {{}, {<<a, b>> \in S \X S : a <= b}, {<<a, b>> \in S \X S : a > b} \cup {<<a, a>> : a \in {Min(S)}}}}

FsModels(Tg) == UNION {FsModelsOver(Tg, 1..k) : k \in 1..MaxSp}

\* Under-specified models: some species have no embedding entry (they only appear in the density section) and / or no
\* density entry.  The missing functions are zero; species without an embedding entry follow the declared ones in sorted order.
PermsThenSorted(E, S) == {p \o SetToSortSeq(S \ E, <) : p \in Perms(E)}
EamUnderModels(Tg) ==
  UNION {UNION {{[fam |-> "eam", tgt |-> t, nr |-> n, nrho |-> nh, pots |-> PotSeqOf(P), els |-> e,
                  embedDecl |-> E, densDecl |-> (Dn \X {0}), dip |-> <<>>, quad |-> <<>>] :
                    t \in Tg, n \in NRs, nh \in NRhos, Dn \in (SUBSET (1..k)) \ {{}},
                    P \in {{}, {<<a, b>> \in (1..k) \X (1..k) : a <= b}}, e \in PermsThenSorted(E, 1..k)} :
                 E \in (SUBSET (1..k)) \ {{}}} : k \in 2..MaxSp}
EamUnder(Tg) == {mm \in EamUnderModels(Tg) : mm.embedDecl \cup {d[1] : d \in mm.densDecl} = Range(mm.els) /\ mm.embedDecl # Range(mm.els)}
FsUnderModels(Tg) ==
  UNION {UNION {{[fam |-> "fs", tgt |-> t, nr |-> n, nrho |-> nh, pots |-> <<>>, els |-> e,
                  embedDecl |-> E, densDecl |-> D, dip |-> <<>>, quad |-> <<>>] :
                    t \in Tg, n \in NRs, nh \in NRhos, D \in (SUBSET ((1..k) \X (1..k))) \ {{}},
                    e \in PermsThenSorted(E, 1..k)} :
                 E \in (SUBSET (1..k)) \ {{}, 1..k}} : k \in 2..MaxSp}
FsUnder(Tg) == {mm \in FsUnderModels(Tg) : mm.embedDecl \cup {d[1] : d \in mm.densDecl} \cup {d[2] : d \in mm.densDecl} = Range(mm.els)}

\* under-specified ADP models: the dipole / quadrupole functions are declared for every element pair (or for none), also for the
\* elements whose embedding function is zero-filled
AdpUnder(Tg) ==
  UNION {{[mm EXCEPT !.fam = "adp", !.dip = PotSeqOf(DP), !.quad = PotSeqOf(QP)] :
            DP \in {{}, {<<a, b>> \in Range(mm.els) \X Range(mm.els) : a >= b}},
            QP \in {{}, {<<a, b>> \in Range(mm.els) \X Range(mm.els) : a <= b}}} : mm \in EamUnder(Tg)}

\* Pair potentials that name a species without any EAM function ("foreign": rank MaxSp + 1).  Such a species is not an
\* element of the table: the setfl / TABEAM pair blocks run over element pairs only, the declaration is not used there.
Foreign == MaxSp + 1
ForeignSets(k) == {{<<1, Foreign>>}, {<<Foreign, k>>}, {<<Foreign, Foreign>>}, {<<1, Foreign>>, <<Foreign, Foreign>>}}
EamForeign(Tg) ==
  UNION {{[mm EXCEPT !.pots = PotSeqOf(Range(mm.pots) \cup FP)] : mm \in EamModelsOver(Tg, 1..k, "eam", FALSE), FP \in ForeignSets(k)} : k \in 1..MaxSp}
FsForeign(Tg) ==
  UNION {{[mm EXCEPT !.pots = PotSeqOf(Range(mm.pots) \cup FP)] : mm \in {x \in FsModelsOver(Tg, 1..k) : x.densDecl \in {{}, (1..k) \X (1..k)}}, FP \in ForeignSets(k)} : k \in 1..MaxSp}

FuncflModels(Tg) == {[fam |-> "funcfl", tgt |-> "funcfl", nr |-> n, nrho |-> nh, pots |-> <<<<1, 1>>>>, els |-> <<1>>,
                  embedDecl |-> {1}, densDecl |-> {<<1, 0>>}, dip |-> <<>>, quad |-> <<>>] : n \in NRs, nh \in NRhos}

Models == CASE Family = "pair" -> PairModels(Targets)
            [] Family = "eam" -> EamModels(Targets)
            [] Family = "fs" -> FsModels(Targets)
            [] Family = "adp" -> AdpModels(Targets)
            [] Family = "funcfl" -> FuncflModels(Targets)
            [] Family = "eam_under" -> EamUnder(Targets)
            [] Family = "adp_under" -> AdpUnder(Targets)
            [] Family = "fs_under" -> FsUnder(Targets)
            [] Family = "pair_dup" -> PairDupModels(Targets)
            [] Family = "eam_foreign" -> EamForeign(Targets)
            [] Family = "fs_foreign" -> FsForeign(Targets)

-----------------------------------------------------------------------------
(* What the user declared, as functions of the model (the SPECIFICATION side) *)

\* the pair potential declared for the unordered pair {a,b}, whichever way round; Zero when undeclared
DeclaredIn(pots, kind, a, b) ==
  IF \E i \in 1..Len(pots) : {pots[i][1], pots[i][2]} = {a, b}
  THEN Fn(kind, Min2(a, b), Max2(a, b))
  ELSE Zero

DeclaredPair(mm, a, b) == DeclaredIn(mm.pots, "pair", a, b)
DeclaredDip(mm, a, b) == DeclaredIn(mm.dip, "dip", a, b)
DeclaredQuad(mm, a, b) == DeclaredIn(mm.quad, "quad", a, b)

DeclaredEmbed(mm, a) == IF a \in mm.embedDecl THEN Fn("embed", a, 0) ELSE Zero
DeclaredDens(mm, a) == IF <<a, 0>> \in mm.densDecl THEN Fn("dens", a, 0) ELSE Zero
\* Finnis-Sinclair: density contributed at a site of species a by a neighbour of species b
DeclaredFsDens(mm, a, b) == IF <<a, b>> \in mm.densDecl THEN Fn("dens", a, b) ELSE Zero

N(mm) == Len(mm.els)

-----------------------------------------------------------------------------
(* WRITER MODELS: transcriptions of the loops of the writers (the IMPLEMENTATION side).                *)
(* Each returns the abstract file.  Names follow the code.                                             *)

\* _lammps_writeTABLE.writePotentials via LAMMPS_PairTabulation.write: (minr, maxr, gridPoints) = (dr, cutoff, nr-1)
LammpsPlan(mm) ==
  FlattenSeq([i \in 1..Len(mm.pots) |->
    << [t |-> "title", a |-> mm.pots[i][1], b |-> mm.pots[i][2], ev |-> 0],
       [t |-> "hdr", N |-> mm.nr - 1, lo |-> 1, hi |-> mm.nr - 1, ev |-> 0],
       \* rows n = 1..N at r = lo + (n-1)(hi-lo)/(N-1); GridIdentity below shows this is grid index n
       [t |-> "rows", fn |-> Fn("pair", Min2(mm.pots[i][1], mm.pots[i][2]), Max2(mm.pots[i][1], mm.pots[i][2])),
        k0 |-> 1, n |-> mm.nr - 1, n0 |-> 1, ev |-> 2 * (mm.nr - 1)] >>])

\* _dlpoly_writeTABLE.writePotentials: header, then per potential label, nr energies, nr forces in records of 4
DlpolyRejects(mm) == mm.nr % 4 # 0
DlpolyPlan(mm) ==
  << Line("title"), [t |-> "hdr", ngrid |-> mm.nr, delden |-> mm.nr - 4, ev |-> 0] >> \o
  FlattenSeq([i \in 1..Len(mm.pots) |->
    LET f == Fn("pair", Min2(mm.pots[i][1], mm.pots[i][2]), Max2(mm.pots[i][1], mm.pots[i][2])) IN
    << [t |-> "label", a |-> mm.pots[i][1], b |-> mm.pots[i][2], ev |-> 0],
       [t |-> "recs", sec |-> "E", fn |-> f, k0 |-> 1, n |-> mm.nr, per |-> 4, ev |-> mm.nr],
       [t |-> "recs", sec |-> "F", fn |-> f, k0 |-> 1, n |-> mm.nr, per |-> 4, ev |-> mm.nr] >>])

\* GULP_PairTabulation.write
GulpPlan(mm) ==
  FlattenSeq([i \in 1..Len(mm.pots) |->
    << Line("spline"),
       [t |-> "ghdr", a |-> mm.pots[i][1], b |-> mm.pots[i][2], ev |-> 0],
       [t |-> "grows", fn |-> Fn("pair", Min2(mm.pots[i][1], mm.pots[i][2]), Max2(mm.pots[i][1], mm.pots[i][2])),
        k0 |-> 0, n |-> mm.nr, ev |-> mm.nr] >>])

\* Excel_PairTabulation: sheet "Pair", column heads = sorted "a-b" with (a,b) sorted; every row evaluates every column
ExcelPairSheet(mm) ==
  LET keys == SortedPairs({Min2(p[1], p[2]) : p \in Range(mm.pots)} \cup {Max2(p[1], p[2]) : p \in Range(mm.pots)})
      cols == SelectSeq(keys, LAMBDA k : DeclaredPair(mm, k[1], k[2]) # Zero)
  IN [t |-> "sheet", name |-> "Pair", first |-> "r", grid |-> "r", n |-> mm.nr,
      cols |-> [c \in 1..Len(cols) |-> [who |-> cols[c], fn |-> DeclaredPair(mm, cols[c][1], cols[c][2])]],
      ev |-> mm.nr * Len(cols)]

ExcelPlan(mm) == << ExcelPairSheet(mm) >>

\* _lammpsWriteEAM._writeSetFLPairPots: for i, for j<=i, key sorted, ZeroPair when missing
SetflPairPlan(mm, pots, kind, scl) ==
  LET tri == Tri(N(mm)) IN
  [x \in 1..Len(tri) |->
     LET a == mm.els[tri[x][1]]
         b == mm.els[tri[x][2]] IN
     Group(kind, <<a, b>>, DeclaredIn(pots, kind, a, b), "r", 0, mm.nr, scl, 1)]

SetflHeader(mm) ==
  << Line("comment"), Line("comment"), Line("comment"),
     [t |-> "els", names |-> mm.els, ev |-> 0],
     [t |-> "grid", nrho |-> mm.nrho, nr |-> mm.nr, ev |-> 0] >>

\* writeSetFL: one density function per element
SetflPlan(mm) ==
  SetflHeader(mm) \o
  FlattenSeq([i \in 1..N(mm) |->
    << [t |-> "elhdr", sp |-> mm.els[i], ev |-> 0],
       Group("embed", <<mm.els[i]>>, DeclaredEmbed(mm, mm.els[i]), "rho", 0, mm.nrho, "none", 1),
       Group("dens", <<mm.els[i]>>, DeclaredDens(mm, mm.els[i]), "r", 0, mm.nr, "none", 1) >>]) \o
  SetflPairPlan(mm, mm.pots, "pair", "r")

\* writeSetFLFinnisSinclair / _writeSetFLDensityFunctionFinnisSinclair:
\*   inside the block of eampot (element i) : for otherpot in eampots : otherpot.electronDensityFunction[eampot.species]
\*   i.e. the function stored in dictionary of `other` under key `this`  =  "central other, neighbour this"
SetflFsPlan(mm) ==
  SetflHeader(mm) \o
  FlattenSeq([i \in 1..N(mm) |->
    << [t |-> "elhdr", sp |-> mm.els[i], ev |-> 0],
       Group("embed", <<mm.els[i]>>, DeclaredEmbed(mm, mm.els[i]), "rho", 0, mm.nrho, "none", 1) >> \o
    [s \in 1..N(mm) |->
       Group("dens", <<mm.els[s], mm.els[i]>>, DeclaredFsDens(mm, mm.els[s], mm.els[i]), "r", 0, mm.nr, "none", 1)]]) \o
  SetflPairPlan(mm, mm.pots, "pair", "r")

\* ADP_EAMTabulation.write: writeSetFL, then dipoles, then quadrupoles (unscaled)
AdpPlan(mm) ==
  SetflPlan(mm) \o SetflPairPlan(mm, mm.dip, "dip", "none") \o SetflPairPlan(mm, mm.quad, "quad", "none")

\* _dlpoly_writeTABEAM
TabeamBlock(kw, who, fn, grid, n) ==
  << [t |-> "blk", kw |-> kw, who |-> who, n |-> n, ev |-> 0],
     Group(kw, who, fn, grid, 0, n, "none", 1) >>

TabeamCommon(mm, count) ==
  << Line("title"), [t |-> "count", n |-> count, ev |-> 0] >> \o
  \* _writePairPotentials: set of sorted pairs over eamPotentials, written in sorted order, nullfunc when missing
  FlattenSeq([x \in 1..Len(SortedPairs(Range(mm.els))) |->
     LET p == SortedPairs(Range(mm.els))[x] IN
     TabeamBlock("pair", p, DeclaredPair(mm, p[1], p[2]), "r", mm.nr)]) \o
  FlattenSeq([i \in 1..N(mm) |-> TabeamBlock("embe", <<mm.els[i]>>, DeclaredEmbed(mm, mm.els[i]), "rho", mm.nrho)])

TabeamPlan(mm) ==
  TabeamCommon(mm, (N(mm) * (N(mm) + 5)) \div 2) \o
  FlattenSeq([i \in 1..N(mm) |-> TabeamBlock("dens", <<mm.els[i]>>, DeclaredDens(mm, mm.els[i]), "r", mm.nr)])

\* writeTABEAMFinnisSinclair: for eamPotential in eampots (A), for speciesB in sorted(species): eamPotential.electronDensityFunction[B]
TabeamFsPlan(mm) ==
  TabeamCommon(mm, (3 * N(mm) * (N(mm) + 1)) \div 2) \o
  FlattenSeq([i \in 1..N(mm) |->
    FlattenSeq([y \in 1..N(mm) |->
      LET b == Ascending(Range(mm.els))[y] IN
      TabeamBlock("dens", <<mm.els[i], b>>, DeclaredFsDens(mm, mm.els[i], b), "r", mm.nr)])])

\* Excel_EAMTabulation / Excel_FinnisSinclair_EAMTabulation: Pair sheet, EAM-Density sheet, EAM-Embed sheet
ExcelEamPlan(mm, isFs) ==
  LET S == Ascending(Range(mm.els))
      densCols == IF isFs
                  THEN [c \in 1..(Len(S) * Len(S)) |->
                          LET a == S[((c - 1) \div Len(S)) + 1]
                              b == S[((c - 1) % Len(S)) + 1] IN
                          [who |-> <<a, b>>, fn |-> DeclaredFsDens(mm, a, b)]]
                  ELSE [c \in 1..Len(S) |-> [who |-> <<S[c]>>, fn |-> DeclaredDens(mm, S[c])]]
  IN << ExcelPairSheet(mm),
        [t |-> "sheet", name |-> "EAM-Density", first |-> "r", grid |-> "r", n |-> mm.nr, cols |-> densCols,
         ev |-> mm.nr * Len(densCols)],
        [t |-> "sheet", name |-> "EAM-Embed", first |-> "rho", grid |-> "rho", n |-> mm.nrho,
         cols |-> [c \in 1..Len(S) |-> [who |-> <<S[c]>>, fn |-> DeclaredEmbed(mm, S[c])]],
         ev |-> mm.nrho * Len(S)] >>

\* writeFuncFL: title, element line, grid line, then embed / effective charge / density, five values per line
FuncflPlan(mm) ==
  << Line("title"), [t |-> "elhdr", sp |-> 1, ev |-> 0], [t |-> "grid", nrho |-> mm.nrho, nr |-> mm.nr, ev |-> 0],
     Group("embed", <<1>>, Fn("embed", 1, 0), "rho", 0, mm.nrho, "none", 1),
     Group("Z", <<1, 1>>, Fn("pair", 1, 1), "r", 0, mm.nr, "sqrt(r*phi/27.2/0.529)", 1),
     Group("dens", <<1>>, Fn("dens", 1, 0), "r", 0, mm.nr, "none", 1) >>

Rejects(mm) == mm.tgt = "DLPOLY" /\ DlpolyRejects(mm)

Plan(mm) ==
  CASE mm.tgt = "LAMMPS" -> LammpsPlan(mm)
    [] mm.tgt = "DLPOLY" -> IF DlpolyRejects(mm) THEN <<>> ELSE DlpolyPlan(mm)
    [] mm.tgt = "GULP" -> GulpPlan(mm)
    [] mm.tgt = "excel" -> ExcelPlan(mm)
    [] mm.tgt = "setfl" -> SetflPlan(mm)
    [] mm.tgt = "setfl_fs" -> SetflFsPlan(mm)
    [] mm.tgt = "eam_adp" -> AdpPlan(mm)
    [] mm.tgt = "DL_POLY_EAM" -> TabeamPlan(mm)
    [] mm.tgt = "DL_POLY_EAM_fs" -> TabeamFsPlan(mm)
    [] mm.tgt = "excel_eam" -> ExcelEamPlan(mm, FALSE)
    [] mm.tgt = "excel_eam_fs" -> ExcelEamPlan(mm, TRUE)
    [] mm.tgt = "funcfl" -> FuncflPlan(mm)

\* Flush discipline of each writer: after which records does the data reach the file object?
\*   whole      : one out.write() at the end (LAMMPS, DL_POLY, setfl, TABEAM, funcfl, Excel)
\*   per record : GULP before the F11 repair (fp.write per line)
\*   adp        : ADP before the F11 repair: setfl part, dipoles, quadrupoles are three writes
FlushAfter(mm, pl, p) ==
  IF FlushFixed THEN p = Len(pl)
  ELSE CASE mm.tgt = "GULP" -> TRUE
         [] mm.tgt = "eam_adp" -> LET tri == Len(Tri(N(mm))) IN p \in {Len(pl) - 2 * tri, Len(pl) - tri, Len(pl)}
         [] OTHER -> p = Len(pl)

TotalEv(pl) == FoldSeq(LAMBDA r, acc : acc + r.ev, 0, pl)

-----------------------------------------------------------------------------
(* CONSUMER MODELS: how the simulation codes locate functions in a file.  Purely positional /           *)
(* keyword based: they never look at the writer's bookkeeping fields `who`.                             *)

Groups(file, sec) == SelectSeq(file, LAMBDA r : r.t = "cells" /\ r.sec = sec)

\* LAMMPS pair_style eam/alloy and adp (pair_eam_alloy.cpp::read_file / pair_adp.cpp): elements from line 4; per
\* element one line, nrho embed values, nr density values; then r*phi arrays for (i, j<=i); adp: then u, then w.
FileEls(file) == (CHOOSE r \in Range(file) : r.t = "els").names

SetflBody(file) == SubSeq(file, 6, Len(file))      \* after three comments, elements, grid

\* element block i of an eam/alloy file = records (3(i-1)+1 .. 3i) of the body: line, embed, density
ReadAlloyEmbed(file, a) == SetflBody(file)[3 * (IndexOf(FileEls(file), a) - 1) + 2]
ReadAlloyDens(file, a) == SetflBody(file)[3 * (IndexOf(FileEls(file), a) - 1) + 3]
ReadTriangular(file, first, a, b) ==   \* array number of the pair in the (i, j<=i) listing starting at record `first`
  LET i == Max2(IndexOf(FileEls(file), a), IndexOf(FileEls(file), b))
      j == Min2(IndexOf(FileEls(file), a), IndexOf(FileEls(file), b)) IN
  SetflBody(file)[first + ((i * (i - 1)) \div 2) + j - 1]
ReadAlloyPair(file, a, b) == ReadTriangular(file, 3 * Len(FileEls(file)) + 1, a, b)
ReadAdpDip(file, a, b) == LET n == Len(FileEls(file)) IN ReadTriangular(file, 3 * n + (n * (n + 1)) \div 2 + 1, a, b)
ReadAdpQuad(file, a, b) == LET n == Len(FileEls(file)) IN ReadTriangular(file, 3 * n + n * (n + 1) + 1, a, b)

\* LAMMPS pair_style eam/fs (pair_eam_fs.cpp): element block i holds the line, the embedding function and then n
\* density arrays; array j of block i is "the density contributed BY an atom of element i AT an atom of element j"
\* (rho[i] += rhor_spline[type2rhor[jtype][itype]] : block = neighbour's type, array = site's type).
ReadFsBlockStart(file, x) == (2 + Len(FileEls(file))) * (IndexOf(FileEls(file), x) - 1)
ReadFsEmbed(file, a) == SetflBody(file)[ReadFsBlockStart(file, a) + 2]
ReadFsDens(file, site, nbr) == SetflBody(file)[ReadFsBlockStart(file, nbr) + 2 + IndexOf(FileEls(file), site)]
ReadFsPair(file, a, b) == ReadTriangular(file, (2 + Len(FileEls(file))) * Len(FileEls(file)) + 1, a, b)

\* DL_POLY TABEAM (metal_table_read): functions are located by keyword and atom names.
\*   pair a b (either order), embe a, dens a (EAM), dens a b (EEAM: density at a site of type a due to neighbour b)
ReadTabeam(file, kw, who) ==
  LET i == CHOOSE i \in 1..Len(file) : file[i].t = "blk" /\ file[i].kw = kw /\
                 (file[i].who = who \/ (kw = "pair" /\ file[i].who = <<who[2], who[1]>>))
  IN file[i + 1]
HasTabeam(file, kw, who) ==
  \E i \in 1..Len(file) : file[i].t = "blk" /\ file[i].kw = kw /\ (file[i].who = who \/ (kw = "pair" /\ file[i].who = <<who[2], who[1]>>))

\* Excel: a human / script looks the column up by its heading
ReadSheet(file, name, who) ==
  LET sh == CHOOSE r \in Range(file) : r.t = "sheet" /\ r.name = name IN
  IF \E c \in 1..Len(sh.cols) : sh.cols[c].who = who
  THEN sh.cols[CHOOSE c \in 1..Len(sh.cols) : sh.cols[c].who = who].fn
  ELSE Zero     \* an absent column contributes nothing

-----------------------------------------------------------------------------
(* State machine *)

Init == /\ m \in Models
        /\ plan = Plan(m)
        /\ pos = 1 /\ nEval = 0 /\ flushed = 0
        /\ phase = IF Rejects(m) THEN "rejected" ELSE IF Plan(m) = <<>> THEN "done" ELSE "writing"
        /\ failAt \in IF Faults THEN 0..TotalEv(Plan(m)) ELSE {0}

\* produce the next record; its evaluations may contain the failing one
Produce == /\ phase = "writing" /\ pos <= Len(plan)
           /\ ~(failAt > nEval /\ failAt <= nEval + plan[pos].ev)
           /\ nEval' = nEval + plan[pos].ev
           /\ pos' = pos + 1
           /\ flushed' = IF FlushAfter(m, plan, pos) THEN pos ELSE flushed
           /\ phase' = IF pos = Len(plan) THEN "done" ELSE "writing"
           /\ UNCHANGED <<m, plan, failAt>>

EvalFails == /\ phase = "writing" /\ pos <= Len(plan)
             /\ failAt > nEval /\ failAt <= nEval + plan[pos].ev
             /\ nEval' = failAt
             /\ phase' = "raised"
             /\ UNCHANGED <<m, plan, pos, flushed, failAt>>

Next == Produce \/ EvalFails

Spec == Init /\ [][Next]_vars

-----------------------------------------------------------------------------
(* PROPERTIES *)

Done == phase = "done"
\* plan never changes, so properties of the plan alone are evaluated once per model, in its initial state
AtStart == pos = 1 /\ nEval = 0 /\ phase # "raised"

\* ---- C01
C01_OneBlockPerPotential ==
  (AtStart /\ m.tgt = "LAMMPS") =>
    /\ Len(SelectSeq(plan, LAMBDA r : r.t = "title")) = Len(m.pots)
    /\ \A i \in 1..Len(m.pots) :
         \* as many blocks with that pair's labels as the list has potentials for it (one, unless the caller listed a pair twice)
         LET ts == SelectSeq(plan, LAMBDA r : r.t = "title" /\ {r.a, r.b} = {m.pots[i][1], m.pots[i][2]}) IN
         Len(ts) = Cardinality({j \in 1..Len(m.pots) : {m.pots[j][1], m.pots[j][2]} = {m.pots[i][1], m.pots[i][2]}})
C01_HeaderAgreesWithBody ==
  (AtStart /\ m.tgt = "LAMMPS") =>
    \A i \in 1..Len(plan) : plan[i].t = "hdr" =>
       /\ plan[i + 1].t = "rows" /\ plan[i + 1].n = plan[i].N /\ plan[i].N = m.nr - 1
       /\ plan[i + 1].k0 = plan[i].lo /\ plan[i + 1].k0 + plan[i + 1].n - 1 = plan[i].hi
       /\ plan[i].lo = 1 /\ plan[i].hi = m.nr - 1          \* lo = dr, hi = cutoff, r = 0 omitted
       /\ plan[i + 1].n0 = 1                                \* rows numbered from 1

\* the writer computes r_n = lo + (n-1)(hi-lo)/(N-1) with lo = c/(nr-1), hi = c, N = nr-1; this is n*c/(nr-1)
\* (exact rational identity, cross-multiplied; c cancels)
GridIdentityAt(nr, n) ==
  \* lo + (n-1)(hi-lo)/(N-1) = n/(nr-1)  with lo = 1/(nr-1), hi = 1, N-1 = nr-2
  \*  <=>  (nr-2) + (n-1)(nr-2) = n (nr-2)    after multiplying by (nr-1)(nr-2)
  (nr - 2) + (n - 1) * ((nr - 1) - 1) = n * (nr - 2)
C01_GridIdentity == (AtStart /\ m.tgt = "LAMMPS" /\ m.nr >= 3) => \A n \in 1..(m.nr - 1) : GridIdentityAt(m.nr, n)

\* ---- C02
C02_Shape ==
  (AtStart /\ m.tgt = "DLPOLY" /\ ~Rejects(m)) =>
    /\ plan[2].t = "hdr" /\ plan[2].ngrid = m.nr /\ plan[2].delden = m.nr - 4
    /\ \A i \in 1..Len(plan) : plan[i].t = "label" =>
          /\ plan[i + 1].t = "recs" /\ plan[i + 1].sec = "E" /\ plan[i + 1].n = plan[2].ngrid
          /\ plan[i + 2].t = "recs" /\ plan[i + 2].sec = "F" /\ plan[i + 2].n = plan[2].ngrid
          /\ plan[i + 1].fn = plan[i + 2].fn /\ plan[i + 1].k0 = 1 /\ plan[i + 2].k0 = 1
          /\ plan[i + 1].n % plan[i + 1].per = 0           \* no ragged record
    /\ Len(SelectSeq(plan, LAMBDA r : r.t = "label")) = Len(m.pots)
C02_RejectsNonMultiple == (m.tgt = "DLPOLY") => ((m.nr % 4 # 0) <=> (phase = "rejected" /\ plan = <<>>))

\* ---- C03 (and the setfl part of C19/ADP)
IsAlloy == AtStart /\ m.tgt \in {"setfl", "eam_adp"}
C03_ElementsOnce == (AtStart /\ m.tgt \in {"setfl", "setfl_fs", "eam_adp"}) =>
    /\ \A i, j \in 1..Len(FileEls(plan)) : i # j => FileEls(plan)[i] # FileEls(plan)[j]
    /\ Range(FileEls(plan)) = Range(m.els)
C03_ReaderSeesModel == IsAlloy =>
    /\ \A a \in Range(m.els) :
         /\ ReadAlloyEmbed(plan, a).fn = DeclaredEmbed(m, a) /\ ReadAlloyEmbed(plan, a).n = m.nrho
         /\ ReadAlloyEmbed(plan, a).grid = "rho" /\ ReadAlloyEmbed(plan, a).k0 = 0
         /\ ReadAlloyDens(plan, a).fn = DeclaredDens(m, a) /\ ReadAlloyDens(plan, a).n = m.nr
         /\ ReadAlloyDens(plan, a).grid = "r" /\ ReadAlloyDens(plan, a).k0 = 0
    /\ \A a, b \in Range(m.els) :
         /\ ReadAlloyPair(plan, a, b).fn = DeclaredPair(m, a, b)
         /\ ReadAlloyPair(plan, a, b).scl = "r" /\ ReadAlloyPair(plan, a, b).n = m.nr /\ ReadAlloyPair(plan, a, b).k0 = 0
C03_ValueCount == (AtStart /\ m.tgt = "setfl") =>
    /\ Len(Groups(plan, "pair")) = (N(m) * (N(m) + 1)) \div 2
    /\ Len(Groups(plan, "embed")) = N(m) /\ Len(Groups(plan, "dens")) = N(m)
    /\ Len(plan) = 5 + 3 * N(m) + (N(m) * (N(m) + 1)) \div 2

\* ---- C04
C04_SetflFsConsumerReadsDeclared == (AtStart /\ m.tgt = "setfl_fs") =>
    /\ \A a, b \in Range(m.els) :
         /\ ReadFsDens(plan, a, b).fn = DeclaredFsDens(m, a, b)
         /\ ReadFsDens(plan, a, b).sec = "dens" /\ ReadFsDens(plan, a, b).n = m.nr /\ ReadFsDens(plan, a, b).scl = "none"
         /\ ReadFsPair(plan, a, b).fn = DeclaredPair(m, a, b) /\ ReadFsPair(plan, a, b).scl = "r"
    /\ \A a \in Range(m.els) : ReadFsEmbed(plan, a).fn = DeclaredEmbed(m, a) /\ ReadFsEmbed(plan, a).sec = "embed"
C04_EeamConsumerReadsDeclared == (AtStart /\ m.tgt = "DL_POLY_EAM_fs") =>
    \A a, b \in Range(m.els) :
       /\ HasTabeam(plan, "dens", <<a, b>>)
       /\ ReadTabeam(plan, "dens", <<a, b>>).fn = DeclaredFsDens(m, a, b)
C04_ExcelConsumerReadsDeclared == (AtStart /\ m.tgt = "excel_eam_fs") =>
    \A a, b \in Range(m.els) : ReadSheet(plan, "EAM-Density", <<a, b>>) = DeclaredFsDens(m, a, b)

\* the cluster form: the density at every site of every small cluster, as a formal sum (bag) of functions,
\* is the same from the file as from the model.  A cluster here is a site species and a bag of neighbour species.
ClusterRho(read(_, _), site, nbrs) == [j \in 1..Len(nbrs) |-> read(site, nbrs[j])]
C04_ClusterDensity == (AtStart /\ m.tgt \in {"setfl_fs", "DL_POLY_EAM_fs", "excel_eam_fs"}) =>
    \A site \in Range(m.els) : \A n1, n2 \in Range(m.els) :
       LET fromFile(s, b) == CASE m.tgt = "setfl_fs" -> ReadFsDens(plan, s, b).fn
                               [] m.tgt = "DL_POLY_EAM_fs" -> ReadTabeam(plan, "dens", <<s, b>>).fn
                               [] m.tgt = "excel_eam_fs" -> ReadSheet(plan, "EAM-Density", <<s, b>>)
           fromModel(s, b) == DeclaredFsDens(m, s, b)
       IN ClusterRho(fromFile, site, <<n1, n2, n1>>) = ClusterRho(fromModel, site, <<n1, n2, n1>>)

\* ---- C05
C05_DeclaredCountIsBlockCount == (AtStart /\ m.tgt \in {"DL_POLY_EAM", "DL_POLY_EAM_fs"}) =>
    /\ plan[2].t = "count"
    /\ plan[2].n = Len(SelectSeq(plan, LAMBDA r : r.t = "blk"))
    /\ plan[2].n = IF m.tgt = "DL_POLY_EAM" THEN (N(m) * (N(m) + 5)) \div 2 ELSE (3 * N(m) * (N(m) + 1)) \div 2
C05_BlockCensus == (AtStart /\ m.tgt \in {"DL_POLY_EAM", "DL_POLY_EAM_fs"}) =>
    /\ \A a, b \in Range(m.els) :
         /\ HasTabeam(plan, "pair", <<a, b>>) /\ ReadTabeam(plan, "pair", <<a, b>>).fn = DeclaredPair(m, a, b)
         /\ Len(SelectSeq(plan, LAMBDA r : r.t = "blk" /\ r.kw = "pair" /\ {r.who[1], r.who[2]} = {a, b})) = 1
    /\ \A a \in Range(m.els) :
         /\ Len(SelectSeq(plan, LAMBDA r : r.t = "blk" /\ r.kw = "embe" /\ r.who = <<a>>)) = 1
         /\ ReadTabeam(plan, "embe", <<a>>).fn = DeclaredEmbed(m, a)
         /\ (m.tgt = "DL_POLY_EAM") =>
               /\ Len(SelectSeq(plan, LAMBDA r : r.t = "blk" /\ r.kw = "dens" /\ r.who = <<a>>)) = 1
               /\ ReadTabeam(plan, "dens", <<a>>).fn = DeclaredDens(m, a)
    /\ \A i \in 1..Len(plan) : plan[i].t = "blk" =>
         /\ plan[i + 1].t = "cells" /\ plan[i + 1].n = plan[i].n /\ plan[i + 1].k0 = 0
         /\ plan[i].n = IF plan[i].kw = "embe" THEN m.nrho ELSE m.nr

\* ---- C19
C19_Gulp == (AtStart /\ m.tgt = "GULP") =>
    /\ Len(SelectSeq(plan, LAMBDA r : r.t = "ghdr")) = Len(m.pots)
    /\ \A i \in 1..Len(plan) : plan[i].t = "ghdr" =>
         /\ plan[i - 1].t = "spline" /\ plan[i + 1].t = "grows" /\ plan[i + 1].n = m.nr /\ plan[i + 1].k0 = 0
         /\ plan[i + 1].fn = DeclaredPair(m, plan[i].a, plan[i].b)
C19_Adp == (AtStart /\ m.tgt = "eam_adp") =>
    /\ SubSeq(plan, 1, Len(SetflPlan(m))) = SetflPlan(m)         \* "is the setfl file of the same model followed by ..."
    /\ \A a, b \in Range(m.els) :
         /\ ReadAdpDip(plan, a, b).fn = DeclaredDip(m, a, b) /\ ReadAdpDip(plan, a, b).scl = "none"
         /\ ReadAdpQuad(plan, a, b).fn = DeclaredQuad(m, a, b) /\ ReadAdpQuad(plan, a, b).scl = "none"
         /\ ReadAdpDip(plan, a, b).sec = "dip" /\ ReadAdpQuad(plan, a, b).sec = "quad"
    /\ Len(plan) = 5 + 3 * N(m) + 3 * ((N(m) * (N(m) + 1)) \div 2)
C19_Funcfl == (AtStart /\ m.tgt = "funcfl") =>
    /\ plan[3].t = "grid" /\ plan[3].nrho = m.nrho /\ plan[3].nr = m.nr
    /\ plan[4].n = plan[3].nrho /\ plan[5].n = plan[3].nr /\ plan[6].n = plan[3].nr
    /\ plan[5].fn = DeclaredPair(m, 1, 1)
C19_Excel == (AtStart /\ m.tgt \in {"excel", "excel_eam", "excel_eam_fs"}) =>
    /\ \A p \in Range(m.pots) : ReadSheet(plan, "Pair", <<Min2(p[1], p[2]), Max2(p[1], p[2])>>) = DeclaredPair(m, p[1], p[2])
    /\ (m.tgt = "excel_eam") => \A a \in Range(m.els) :
          /\ ReadSheet(plan, "EAM-Density", <<a>>) = DeclaredDens(m, a)
          /\ ReadSheet(plan, "EAM-Embed", <<a>>) = DeclaredEmbed(m, a)
    /\ \A r \in Range(plan) : r.t = "sheet" => r.n = IF r.grid = "r" THEN m.nr ELSE m.nrho

\* ---- C17
C17_AllOrNothing == (phase = "raised") => (flushed = 0)
C17_WholeOrNothing == (phase \in {"raised", "done"}) => (flushed \in {0, Len(plan)})
C17_DoneMeansWhole == (phase = "done") => (flushed = Len(plan))
C17_NoFaultNoRaise == (failAt = 0) => (phase # "raised")

\* every behaviour terminates in done / raised / rejected
Terminal == phase \in {"done", "raised", "rejected"}
NoStuck == (~ENABLED Next) => Terminal

TypeOK == /\ pos \in 1..(Len(plan) + 1) /\ flushed \in 0..Len(plan) /\ nEval \in 0..TotalEv(plan)
          /\ phase \in {"writing", "done", "raised", "rejected"}

-----------------------------------------------------------------------------
(* Case emission for the replay (spec -> code): every model with its plan, once, at start-up. *)
CaseOf(mm) == [m |-> [fam |-> mm.fam, tgt |-> mm.tgt, nr |-> mm.nr, nrho |-> mm.nrho, pots |-> mm.pots, els |-> mm.els,
                      embedDecl |-> Ascending(mm.embedDecl), densDecl |-> SetToSeq(mm.densDecl),
                      dip |-> mm.dip, quad |-> mm.quad],
               rejects |-> Rejects(mm), plan |-> Plan(mm), totalEv |-> TotalEv(Plan(mm))]

EmitCases == IF "EMIT" \in DOMAIN IOEnv /\ IOEnv.EMIT = "1"
             THEN ndJsonSerialize(IOEnv.VERIF_OUT \o "/cases.ndjson", SetToSeq({CaseOf(mm) : mm \in Models}))
             ELSE TRUE
ASSUME EmitCases
=============================================================================
