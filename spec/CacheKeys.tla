------------------------------ MODULE CacheKeys ------------------------------
(***************************************************************************)
(* C12, second sentence: "the energy of a potential at r is a function of  *)
(* that potential's definition and r alone" - and the definition is ALL of *)
(* it.  A definition site of a potable model has a dozen attributes (the   *)
(* file it stands in, its section and key, the form, its parameters, the   *)
(* marker and start of its first range, the ranges that follow, the body   *)
(* of the custom formula or the data of the table form it names); what the *)
(* implementation remembers about one site - a memo, a registry, an object *)
(* shared between builds - must never stand in for another site that       *)
(* differs in ANY of them.                                                 *)
(*                                                                         *)
(* The module states this with a ghost memo keyed on a subset K of the     *)
(* CONTENT attributes (form, parameters, marker, start, following ranges,  *)
(* body): keyed on all of them a memo is a harmless optimisation, keyed on *)
(* fewer it is the realistic way to break the property.  It defines the    *)
(* TWIN scenarios - two sites that differ in exactly one meaning-relevant  *)
(* attribute, in one file or in two files built in one process, evaluated  *)
(* in either order, with or without releasing the first model - and TLC    *)
(* shows (TwinsComplete) that for EVERY attribute a memo that leaves it    *)
(* out is exposed by some twin scenario: the replay of the scenarios on    *)
(* the real code is therefore complete for single-attribute omissions.     *)
(***************************************************************************)
EXTENDS Integers, Sequences, FiniteSets, TLC, SequencesExt, Json, IOUtils

CONSTANTS K,            \* the attributes a memo of the implementation is keyed on
          MaxEvents

Attrs == {"file", "sec", "key", "form", "par", "mk", "st", "tail", "body"}
Secs == {"Pair", "Embed", "Dens"}
Forms == {"poly", "pf", "tab"}
\* a site; body = version of the formula body (form pf) / of the table data (form tab) in ITS file
Sites == [file : {1, 2}, sec : Secs, key : {1, 2}, form : Forms, par : {1, 2}, mk : {">", ">="}, st : {0, 2}, tail : {0, 1, 2}, body : {1, 2}]
\* separations, in half units: 0, 1/2, ... 5/2
Xs == 0..5

\* attributes that are part of a site's meaning (a table form takes no parameters, a built-in form has no body; file, section and
\* key say where the definition stands, not what it means)
Relevant(s) == {"form", "mk", "st", "tail"} \cup (IF s.form = "tab" THEN {} ELSE {"par"}) \cup (IF s.form = "poly" THEN {} ELSE {"body"})

\* symbolic meaning at separation x: which piece with which numbers
Meaning(s, x) ==
  IF x < s.st \/ (x = s.st /\ s.mk = ">") THEN <<"zero">>
  ELSE IF s.tail # 0 /\ x >= 4 THEN (IF s.tail = 1 THEN <<"const7">> ELSE <<"zero">>)
  ELSE <<"main", s.form, IF s.form = "tab" THEN 0 ELSE s.par, IF s.form = "poly" THEN 0 ELSE s.body>>
SameMeaning(a, b) == \A x \in Xs : Meaning(a, x) = Meaning(b, x)

Proj(s, k) == [a \in k |-> s[a]]
DiffersIn(a, b) == {at \in Attrs : a[at] # b[at]}

\* twin scenarios: a base site and a site one attribute away from it (or its exact twin).  Two sites of one file necessarily
\* have different keys and see the same formula body / table data; two files define the same key.
Vals == [form |-> Forms, par |-> {1, 2}, mk |-> {">", ">="}, st |-> {0, 2}, tail |-> {0, 1, 2}, body |-> {1, 2}]
OneOff(a, ats) == {a} \cup UNION {{[a EXCEPT ![at] = v] : v \in Vals[at]} : at \in ats}
\* every base in [Pair]; in the EAM sections the bases without a tail that start at 0 (the builders are shared)
Bases == {a \in Sites : a.file = 1 /\ a.key = 1 /\ (a.sec = "Pair" \/ (a.tail = 0 /\ a.st = 0))}
SameFileTwins == UNION {{<<a, [b EXCEPT !.key = 2]>> : b \in OneOff(a, {"form", "par", "mk", "st", "tail"})} : a \in Bases}
TwoFileTwins == UNION {{<<a, [b EXCEPT !.file = 2]>> : b \in OneOff(a, {"form", "par", "mk", "st", "tail", "body"})} : a \in Bases}
Twins == SameFileTwins \cup TwoFileTwins

\* what a definition says (as opposed to where it stands)
Content == {"form", "par", "mk", "st", "tail", "body"}
ASSUME K \subseteq Content
\* for every content attribute there is a twin pair that differs in it alone (besides standing under another key / in another file)
\* and whose meanings differ, in both arrangements: a memo keyed without that attribute returns the wrong function for one of the two
TwinsComplete ==
  \A at \in Content :
     /\ (at # "body" => \E p \in SameFileTwins : DiffersIn(p[1], p[2]) = {"key", at} /\ ~SameMeaning(p[1], p[2]))
     /\ \E p \in TwoFileTwins : DiffersIn(p[1], p[2]) = {"file", at} /\ ~SameMeaning(p[1], p[2])
ASSUME TwinsComplete

-----------------------------------------------------------------------------
(* the process: models are built, released, their sites evaluated *)
VARIABLES pair,     \* the twin pair of this behaviour
          live,     \* files whose model object exists
          memo,     \* ghost: what a memo keyed on K holds (projection -> site first evaluated under it)
          last,     \* the last evaluation: the site asked and the site whose function answered
          n
vars == <<pair, live, memo, last, n>>
NoSite == [file |-> 0, sec |-> "", key |-> 0, form |-> "", par |-> 0, mk |-> "", st |-> 0, tail |-> 0, body |-> 0]

\* a sample of the pairs for the state machine (every pair is replayed; the machine explores the event orders)
MachinePairs == {p \in Twins : p[1].sec = "Pair" /\ p[1].form \in {"poly", "tab"} /\ p[1].par = 1 /\ p[1].st = 0 /\ p[1].tail \in {0, 1} /\ p[1].body = 1}
Init == pair \in MachinePairs /\ live = {} /\ memo = << >> /\ last = [asked |-> NoSite, from |-> NoSite] /\ n = 0

Build(f) == f \notin live /\ f \in {pair[1].file, pair[2].file} /\ live' = live \cup {f} /\ n' = n + 1 /\ UNCHANGED <<pair, memo, last>>
Release(f) == f \in live /\ live' = live \ {f} /\ n' = n + 1 /\ UNCHANGED <<pair, memo, last>>      \* the memo outlives the model
Eval(s) == /\ s.file \in live
           /\ LET k == Proj(s, K)
                  hit == k \in DOMAIN memo IN
                /\ last' = [asked |-> s, from |-> IF hit THEN memo[k] ELSE s]
                /\ memo' = IF hit THEN memo ELSE [q \in DOMAIN memo \cup {k} |-> IF q = k THEN s ELSE memo[q]]
           /\ n' = n + 1 /\ UNCHANGED <<pair, live>>
Next == (\E f \in {1, 2} : Build(f) \/ Release(f)) \/ Eval(pair[1]) \/ Eval(pair[2])
Spec == Init /\ [][Next]_vars
Bounded == n <= MaxEvents

\* whatever was built, released and evaluated before: the function that answers is the one the asked site defines
OwnMeaning == last.asked # NoSite => SameMeaning(last.asked, last.from)

-----------------------------------------------------------------------------
(* scenarios for the replay: every twin pair with the event orders that matter *)
Orders(p) == IF p[1].file = p[2].file
             THEN {<<"B1", "E1", "E2">>, <<"B1", "E2", "E1">>, <<"B1", "E1", "E2", "E1">>}
             ELSE {<<"B1", "E1", "B2", "E2">>, <<"B1", "B2", "E2", "E1">>, <<"B1", "E1", "R1", "B2", "E2">>, <<"B2", "E2", "R2", "B1", "E1", "B2", "E2">>}
Emit == IF "EMIT" \in DOMAIN IOEnv /\ IOEnv.EMIT = "1"
        THEN ndJsonSerialize(IOEnv.VERIF_OUT \o "/twins.ndjson",
                             SetToSeq({[a |-> p[1], b |-> p[2], differs |-> SetToSeq(DiffersIn(p[1], p[2])), orders |-> SetToSeq(Orders(p)),
                                        ma |-> [x \in 1..6 |-> Meaning(p[1], x - 1)], mb |-> [x \in 1..6 |-> Meaning(p[2], x - 1)]] : p \in Twins}))
        ELSE TRUE
ASSUME Emit
=============================================================================
