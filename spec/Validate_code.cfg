SPECIFICATION Spec
CONSTANTS
  Unrepaired = TRUE
INVARIANT MalformedIsConfigError
INVARIANT ValidIsAccepted
INVARIANT RejectedMeansNoTable
INVARIANT Terminates
