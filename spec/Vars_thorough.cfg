SPECIFICATION Spec
CONSTANTS
  DefaultsLeak = FALSE
  MaxLift = 9
INVARIANT InterpolationIsSubstitution
INVARIANT VariablesInert
