SPECIFICATION Spec
CONSTANTS
  Files = 1
  StickyGrid = FALSE
  Truthiness = FALSE
  As = {1, 2, 3, 4, 5, 7, 25, 1234, 3125}
  Es = {1, 2, 3, 4, 7}
  Ks = {1,2,3,4,5,6,7,8,9,10,11,12,13,14,15,16,17,18,19,20,21,22,23,24,25,26,27,28,29,30,31,32,33,34,35,36,37,38,39,40,41,42,43,44,45,46,47,48,49,50,51,52,53,54,55,56,57,58,59,60,70,80,90,100,110,120,130,140,150,200,224,250,300,333,400,419,444,500,600,700,838,900,1000,1500,2000,3000,4001,5000,10000,20000}
INVARIANT ImplAgrees
INVARIANT AcceptedShape
INVARIANT CutoffGivenIsKept
INVARIANT Terminates
