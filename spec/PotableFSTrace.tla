--------------------------- MODULE PotableFSTrace ---------------------------
(***************************************************************************)
(* Trace validation (code -> specification) for PotableFS: random sessions *)
(* of the real command line in one directory - a dozen runs and more over  *)
(* three output names, with foreign files put in and taken out between the *)
(* runs - recorded as one event per run: the options, the exit status, the *)
(* class of the standard output and the state of EVERY file of the         *)
(* directory afterwards.  A file's content is identified by the harness    *)
(* against the tables of all valid documents (tabulated from hand-written  *)
(* files in a fresh directory); bytes that are no such table, not empty    *)
(* and not the foreign text arrive as "unknown" and match nothing.         *)
(* TLC accepts a trace when every event is a step of PotableFS with        *)
(* exactly the observed outcome.                                           *)
(***************************************************************************)
EXTENDS PotableFS, Json, IOUtils, TLCExt

Traces == ndJsonDeserialize(IOEnv.TRACE_FILE)
VARIABLES tid, l
tvars == <<vars, tid, l>>
ASSUME \A k \in 1..Len(Traces) : TLCSet(k, 0)
ASSUME \A k \in 1..Len(Traces) : TLCSet(1000000 + k, 0)

TInit == tid \in 1..Len(Traces) /\ l = 1 /\ Init
Ev == Traces[tid].ev[l]
IsEvent(e) == l <= Len(Traces[tid].ev) /\ Ev.e = e /\ l' = l + 1 /\ UNCHANGED tid

Obs(c) == IF c.k = "table" THEN Table(c.doc) ELSE [k |-> c.k, doc |-> NullDoc]
\* the directory as observed after the event: every output name, no other entry, the model files untouched
DirAgrees == /\ \A o \in Outs : fs'[o] = Obs(Ev.fs[o])
             /\ Ev.stray = 0 /\ Ev.inputs_intact

EdSeq(ed) == [k \in 1..Len(ed) |-> ed[k]]
IndexOfInv(x) == CHOOSE n \in 1..Len(InvSeq) : InvSeq[n] = x

TPut == IsEvent("put") /\ Put(Ev.o) /\ DirAgrees
TDelete == IsEvent("delete") /\ Delete(Ev.o) /\ DirAgrees
TInvoke == /\ IsEvent("invoke")
           /\ LET x == [i |-> Ev.i, o |-> Ev.o, q |-> Ev.q, ed |-> EdSeq(Ev.ed), f |-> Ev.f] IN
                /\ x \in SensibleInv
                /\ Invoke(IndexOfInv(x))
           /\ last'.status = Ev.status /\ last'.stdout = Ev.stdout
           /\ DirAgrees
TNext == TPut \/ TDelete \/ TInvoke
TSpec == TInit /\ [][TNext]_tvars

Progress == TLCSet(tid, IF TLCGet(tid) < l THEN l ELSE TLCGet(tid))
Complete == (l = Len(Traces[tid].ev) + 1) => TLCSet(1000000 + tid, 1)
Report == \A k \in 1..Len(Traces) : PrintT(<<"TRACE", k, TLCGet(k), Len(Traces[k].ev), TLCGet(1000000 + k)>>)
=============================================================================
