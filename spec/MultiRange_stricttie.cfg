SPECIFICATION Spec
CONSTANTS
  MaxRanges = 3
  Starts = {0, 2, 4, 6}
  MaxQueries = 1
  NumericAcross = TRUE
INVARIANT TypeOK
INVARIANT StrictTie
INVARIANT OrderIndependent
INVARIANT DefaultOnlyBelow
INVARIANT SortedOK
INVARIANT NoStuck
