SPECIFICATION Spec
CONSTANTS
  MaxRanges = 4
  Starts = {0, 2, 4, 6}
  MaxQueries = 1
INVARIANT TypeOK
INVARIANT SelectsAllowed
INVARIANT OrderIndependent
INVARIANT DefaultOnlyBelow
INVARIANT SortedOK
INVARIANT NoStuck
