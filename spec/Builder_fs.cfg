SPECIFICATION Spec
CONSTANTS
  Species = {1, 2}
  Fs = TRUE
  SetOrder = FALSE
  PairSpeciesFiltered = FALSE
INVARIANT BuilderOK
INVARIANT ElementsOnce
INVARIANT Terminates
