---- MODULE Potable_TTrace_1791149636 ----
EXTENDS Sequences, TLCExt, Potable, Toolbox, Naturals, TLC

_expression ==
    LET Potable_TEExpression == INSTANCE Potable_TEExpression
    IN Potable_TEExpression!expression
----

_trace ==
    LET Potable_TETrace == INSTANCE Potable_TETrace
    IN Potable_TETrace!trace
----

_inv ==
    ~(
        TLCGet("level") = Len(_TETrace)
        /\
        a = ([file |-> "valid", out |-> "given", query |-> "value-missing", filter |-> "none", edit |-> "valid"])
        /\
        pc = ("exit")
        /\
        stdout = ()
        /\
        outfile = ("untouched")
        /\
        status = (1)
    )
----

_init ==
    /\ a = _TETrace[1].a
    /\ pc = _TETrace[1].pc
    /\ outfile = _TETrace[1].outfile
    /\ stdout = _TETrace[1].stdout
    /\ status = _TETrace[1].status
----

_next ==
    /\ \E i,j \in DOMAIN _TETrace:
        /\ \/ /\ j = i + 1
              /\ i = TLCGet("level")
        /\ a  = _TETrace[i].a
        /\ a' = _TETrace[j].a
        /\ pc  = _TETrace[i].pc
        /\ pc' = _TETrace[j].pc
        /\ outfile  = _TETrace[i].outfile
        /\ outfile' = _TETrace[j].outfile
        /\ stdout  = _TETrace[i].stdout
        /\ stdout' = _TETrace[j].stdout
        /\ status  = _TETrace[i].status
        /\ status' = _TETrace[j].status

\* Uncomment the ASSUME below to write the states of the error trace
\* to the given file in Json format. Note that you can pass any tuple
\* to `JsonSerialize`. For example, a sub-sequence of _TETrace.
    \* ASSUME
    \*     LET J == INSTANCE Json
    \*         IN J!JsonSerialize("Potable_TTrace_1791149636.json", _TETrace)

=============================================================================

 Note that you can extract this module `Potable_TEExpression`
  to a dedicated file to reuse `expression` (the module in the 
  dedicated `Potable_TEExpression.tla` file takes precedence 
  over the module `Potable_TEExpression` below).

---- MODULE Potable_TEExpression ----
EXTENDS Sequences, TLCExt, Potable, Toolbox, Naturals, TLC

expression == 
    [
        \* To hide variables of the `Potable` spec from the error trace,
        \* remove the variables below.  The trace will be written in the order
        \* of the fields of this record.
        a |-> a
        ,pc |-> pc
        ,outfile |-> outfile
        ,stdout |-> stdout
        ,status |-> status
        
        \* Put additional constant-, state-, and action-level expressions here:
        \* ,_stateNumber |-> _TEPosition
        \* ,_aUnchanged |-> a = a'
        
        \* Format the `a` variable as Json value.
        \* ,_aJson |->
        \*     LET J == INSTANCE Json
        \*     IN J!ToJson(a)
        
        \* Lastly, you may build expressions over arbitrary sets of states by
        \* leveraging the _TETrace operator.  For example, this is how to
        \* count the number of times a spec variable changed up to the current
        \* state in the trace.
        \* ,_aModCount |->
        \*     LET F[s \in DOMAIN _TETrace] ==
        \*         IF s = 1 THEN 0
        \*         ELSE IF _TETrace[s].a # _TETrace[s-1].a
        \*             THEN 1 + F[s-1] ELSE F[s-1]
        \*     IN F[_TEPosition - 1]
    ]

=============================================================================



Parsing and semantic processing can take forever if the trace below is long.
 In this case, it is advised to uncomment the module below to deserialize the
 trace from a generated binary file.

\*
\*---- MODULE Potable_TETrace ----
\*EXTENDS IOUtils, Potable, TLC
\*
\*trace == IODeserialize("Potable_TTrace_1791149636.bin", TRUE)
\*
\*=============================================================================
\*

---- MODULE Potable_TETrace ----
EXTENDS Potable, TLC

trace == 
    <<
    ([a |-> [file |-> "valid", out |-> "given", query |-> "value-missing", filter |-> "none", edit |-> "valid"],pc |-> "argparse",stdout |-> "",outfile |-> "untouched",status |-> -1]),
    ([a |-> [file |-> "valid", out |-> "given", query |-> "value-missing", filter |-> "none", edit |-> "valid"],pc |-> "read",stdout |-> "",outfile |-> "untouched",status |-> -1]),
    ([a |-> [file |-> "valid", out |-> "given", query |-> "value-missing", filter |-> "none", edit |-> "valid"],pc |-> "dispatch",stdout |-> "",outfile |-> "untouched",status |-> -1]),
    ([a |-> [file |-> "valid", out |-> "given", query |-> "value-missing", filter |-> "none", edit |-> "valid"],pc |-> "exit",stdout |-> ,outfile |-> "untouched",status |-> 1])
    >>
----


=============================================================================

---- CONFIG Potable_TTrace_1791149636 ----
CONSTANTS
    MissingItemCrashes = TRUE

INVARIANT
    _inv

CHECK_DEADLOCK
    \* CHECK_DEADLOCK off because of PROPERTY or INVARIANT above.
    FALSE

INIT
    _init

NEXT
    _next

CONSTANT
    _TETrace <- _trace

ALIAS
    _expression
=============================================================================
\* Generated on Sun Oct 04 21:33:57 UTC 2026