SPECIFICATION Spec
CONSTANTS
  StripsLastChar = FALSE
  MaxLines = 2
INVARIANT FileReadOK
INVARIANT Terminates
