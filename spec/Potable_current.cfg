SPECIFICATION Spec
CONSTANTS
  MissingItemCrashes = TRUE
INVARIANT QueriesNeverWrite
INVARIANT OnlySuccessWrites
INVARIANT ExitCodes
INVARIANT FinalAgrees
INVARIANT Terminates
