-------------------------------- MODULE Names --------------------------------
(***************************************************************************)
(* Which definition a NAME denotes (C20's consequence: "every function in  *)
(* the output is bound to the one definition the user can see for it";     *)
(* C09: formulas "may call other custom forms, as.* forms and pymath.*      *)
(* functions").                                                            *)
(*                                                                         *)
(* A model defines custom formulas and table forms under labels of its own *)
(* choosing - among them labels that are the bare name of a standard form  *)
(* ('buck', 'morse': the manual's own examples), labels that differ from   *)
(* another only in case, and a label the expression library reserves.  A   *)
(* name is USED in three places: as the form of a potential definition, as *)
(* the form of a modifier's argument, and as a function called inside      *)
(* another formula.                                                        *)
(*                                                                         *)
(* Declarative reading (Accept / Denotes) against a transcription of the   *)
(* stages in which Potential_Form_Registry fills its dictionary (standard  *)
(* forms, table forms, formulas, the case check, the library functions):   *)
(* RegistryAgrees.  Every (model, use) of the bound is emitted and         *)
(* replayed on Configuration.read; each definition returns a number of its *)
(* own, so the number tabulated names the definition that was bound.       *)
(***************************************************************************)
EXTENDS Integers, Sequences, FiniteSets, TLC, SequencesExt, Json, IOUtils

CustomPool == {"f", "F", "g", "buck", "morse", "exp"}       \* "exp": reserved by the expression library
TablePool == {"tab", "f", "buck", "G"}
Standard == {"as.buck", "as.morse", "as.zero"}              \* the standard forms this module speaks about
Library == {"pymath.floor"}
Reserved == {"exp"}
Contexts == {"def", "modarg", "call"}

Lower(s) == CASE s = "F" -> "f" [] s = "G" -> "g" [] OTHER -> s
Models == {[custom |-> c, table |-> t] : c \in {x \in SUBSET CustomPool : Cardinality(x) <= 2}, t \in {x \in SUBSET TablePool : Cardinality(x) <= 1}}
UseNames == CustomPool \cup TablePool \cup {"as.buck", "pymath.floor", "h"}      \* "h": defined nowhere
Uses == [ctx : Contexts, name : UseNames]

\* ---- the statement
\* a label the expression library reserves for itself clashes as soon as a formula exists that could call it (alone it is a form
\* like any other: nothing can mistake it for the library's function)
ReservedClash(m) == m.custom \cap Reserved # {} /\ Cardinality(m.custom) >= 2
\* each thing is defined at most once, names that the expression library cannot tell apart count as one, its own names are not the user's
Accept(m) ==
  /\ m.custom \cap m.table = {}
  /\ \A a, b \in m.custom \cup m.table : a # b => Lower(a) # Lower(b)
  /\ ~ReservedClash(m)
Defined(m) == m.custom \cup m.table
Denotes(m, u) ==
  IF ~Accept(m) THEN <<"config", "">>
  ELSE IF u.ctx = "call" /\ m.custom \cap Reserved # {} THEN <<"config", "">>       \* the calling formula is a second formula (ReservedClash)
  ELSE IF u.name \in m.custom THEN <<"custom", u.name>>
  ELSE IF u.name \in m.table THEN <<"table", u.name>>
  ELSE IF u.name \in Standard THEN <<"standard", u.name>>
  ELSE IF u.name \in Library THEN (IF u.ctx = "call" THEN <<"library", u.name>> ELSE <<"config", "">>)   \* not a potential form
  \* inside a formula names are matched without regard to case (the expression library's rule)
  ELSE IF u.ctx = "call" /\ \E d \in Defined(m) : Lower(d) = Lower(u.name)
       THEN LET d == CHOOSE d \in Defined(m) : Lower(d) = Lower(u.name) IN <<IF d \in m.custom THEN "custom" ELSE "table", d>>
  ELSE <<"config", "">>                                                                                  \* a name nothing defines

\* ---- transcription of Potential_Form_Registry.__init__ : a dictionary label -> kind, filled stage by stage
Reject == [x \in {"reject"} |-> "reject"]
RECURSIVE AddAll(_, _, _)
AddAll(dict, labels, kind) ==        \* labels: a sequence; an existing key is a clash
  IF dict = Reject THEN Reject
  ELSE IF labels = <<>> THEN dict
  ELSE IF Head(labels) \in DOMAIN dict THEN Reject
  ELSE AddAll([k \in DOMAIN dict \cup {Head(labels)} |-> IF k = Head(labels) THEN kind ELSE dict[k]], Tail(labels), kind)
CaseCheck(dict) == IF dict = Reject THEN Reject
                   ELSE IF \E a, b \in DOMAIN dict : a # b /\ Lower(a) = Lower(b) THEN Reject ELSE dict
ReservedCheck(dict, m) == IF dict = Reject \/ ReservedClash(m) THEN Reject ELSE dict       \* registering the form with the other formulas fails
Registry(m) ==
  LET std == [k \in Standard |-> "standard"]
      withTables == AddAll(std, SetToSeq(m.table), "table")
      withForms == AddAll(withTables, SetToSeq(m.custom), "custom") IN
  CaseCheck(ReservedCheck(withForms, m))
\* what the registry hands out for a name used as a potential form
Lookup(m, name) == LET d == Registry(m) IN
                     IF d = Reject THEN <<"config", "">> ELSE IF name \in DOMAIN d THEN <<d[name], name>> ELSE <<"config", "">>
RegistryAgrees == \A m \in Models, u \in Uses : u.ctx \in {"def", "modarg"} => Lookup(m, u.name) = Denotes(m, u)
ASSUME RegistryAgrees
\* a user's label that is the bare name of a standard form denotes the user's definition, never the standard form
BareNamesAreTheUsers == \A m \in Models, u \in Uses : (Accept(m) /\ u.name \in Defined(m) /\ m.custom \cap Reserved = {}) => Denotes(m, u)[1] \in {"custom", "table"}
ASSUME BareNamesAreTheUsers
\* at most one definition stands behind a name
OneDefinition == \A m \in Models : Accept(m) => \A a, b \in Defined(m) : Lower(a) = Lower(b) => a = b
ASSUME OneDefinition

Emit == IF "EMIT" \in DOMAIN IOEnv /\ IOEnv.EMIT = "1"
        THEN ndJsonSerialize(IOEnv.VERIF_OUT \o "/names.ndjson",
                             SetToSeq({[custom |-> SetToSeq(m.custom), table |-> SetToSeq(m.table), accept |-> Accept(m),
                                        uses |-> SetToSeq({[ctx |-> u.ctx, name |-> u.name, den |-> Denotes(m, u)] : u \in Uses})] : m \in Models}))
        ELSE TRUE
ASSUME Emit

VARIABLE done
Init == done = FALSE
Next == done' = TRUE
Spec == Init /\ [][Next]_done
=============================================================================
