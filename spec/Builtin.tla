------------------------------- MODULE Builtin -------------------------------
(***************************************************************************)
(* C06 (and the leaf part of C07): the built-in potential forms.           *)
(*                                                                         *)
(* (a) Sig: the documented signature of every form (reference manual,      *)
(*     "potable signature"); the callable takes r first.                   *)
(* (b) Binding: the four access routes as transformations of the argument  *)
(*     vector, one action per step, each ending in Apply(base, vector):    *)
(*       R1  f(r, p...)                   potentialfunctions.NAME          *)
(*       R2  NAME(p...)(r)                potentialforms factory (_rpartial appends the stored arguments AFTER r)  *)
(*       R3  'as.NAME p...' in a section  Potential_Form: arity check n-1, then the factory                       *)
(*       R4  as.NAME(r, p...) in a formula  _Python_Potential_Function: arity check n                             *)
(* (c) Exact: for the forms that are Laurent polynomials in r over Q their *)
(*     exact value, first and second derivative at rational points, for    *)
(*     parameter vectors with pairwise distinct entries (so that any       *)
(*     permutation of parameters changes the value); exact special points  *)
(*     and exact algebraic / differential relations for the rest.          *)
(***************************************************************************)
EXTENDS PolyRows, FiniteSets, TLC, SequencesExt, FiniteSetsExt, Json, IOUtils

Sig == [ bornmayer |-> <<"A", "rho">>, buck |-> <<"A", "rho", "C">>, constant |-> <<"constant">>, coul |-> <<"qi", "qj">>,
         exponential |-> <<"A", "n">>, exp_spline |-> <<"B0", "B1", "B2", "B3", "B4", "B5", "C">>, hbnd |-> <<"A", "B">>,
         lj |-> <<"epsilon", "sigma">>, morse |-> <<"gamma", "r_star", "D">>, sqrt |-> <<"G">>,
         tang_toennies |-> <<"A", "b", "C_6", "C_8", "C_10">>, zbl |-> <<"z1", "z2">>, zero |-> <<>>,
         buck4 |-> <<"A", "rho", "C", "r_detach", "r_min", "r_attach">> ]
Names == DOMAIN Sig
\* the four-range Buckingham form exists as a factory (R2) and as 'as.buck4 ...' in a section (R3) only
FactoryOnly == {"buck4"}
RouteExists(nm, rt) == nm \in FactoryOnly => rt \in {"R2", "R3"}
Arity(nm) == IF nm = "polynomial" THEN -1 ELSE Len(Sig[nm])        \* polynomial is variadic

-----------------------------------------------------------------------------
(* (b) binding *)
CONSTANTS MaxArity,
          Deep        \* larger parameter and separation lattices (thorough tier)
VARIABLES form, route, given,   \* the parameters the user wrote (abstract tokens 1..k), r is token 0
          stage, vec, outcome
vars == <<form, route, given, stage, vec, outcome>>
Routes == {"R1", "R2", "R3", "R4"}

Init == /\ form \in Names /\ route \in Routes /\ RouteExists(form, route)
        \* the machine treats the written parameters as opaque tokens: the ascending and the descending labelling of every
        \* length cover it (all injective labellings were 740 000 initial states for arity 7 and add nothing)
        /\ given \in UNION {{[i \in 1..k |-> i], [i \in 1..k |-> k + 1 - i]} : k \in 0..MaxArity}
        /\ stage = "start" /\ vec = <<>> /\ outcome = "pending"

\* R3 / R4 check the number of arguments against the signature before anything is evaluated
ArityCheck == /\ stage = "start" /\ route \in {"R3", "R4"}
              /\ IF Len(given) = Arity(form) THEN stage' = "checked" /\ UNCHANGED outcome
                 ELSE stage' = "done" /\ outcome' = "config-error"
              /\ UNCHANGED <<form, route, given, vec>>
\* R2 / R3: the factory stores the parameters; the later call with r puts r FIRST (_rpartial: args + self.args)
Factory == /\ (stage = "start" /\ route = "R2") \/ (stage = "checked" /\ route = "R3")
           /\ vec' = given /\ stage' = "partial"
           /\ UNCHANGED <<form, route, given, outcome>>
CallPartial == /\ stage = "partial"
               /\ vec' = <<0>> \o vec /\ stage' = "apply"
               /\ UNCHANGED <<form, route, given, outcome>>
\* R1 / R4: direct call f(r, p...)
Direct == /\ (stage = "start" /\ route = "R1") \/ (stage = "checked" /\ route = "R4")
          /\ vec' = <<0>> \o given /\ stage' = "apply"
          /\ UNCHANGED <<form, route, given, outcome>>
\* the base function receives the vector; Python itself rejects a wrong number of arguments on R1 / R2
Apply == /\ stage = "apply"
         /\ outcome' = IF Len(vec) = Arity(form) + 1 THEN "value" ELSE "type-error"
         /\ stage' = "done"
         /\ UNCHANGED <<form, route, given, vec>>
Next == ArityCheck \/ Factory \/ CallPartial \/ Direct \/ Apply
Spec == Init /\ [][Next]_vars

\* every route hands the base function r followed by the parameters in the order written
RoutesAgree == (outcome = "value") => vec = <<0>> \o given
\* the potable routes never reach the base function with a wrong number of arguments
PotableArityChecked == (route \in {"R3", "R4"} /\ Len(given) # Arity(form)) => outcome \in {"pending", "config-error"}
Terminates == (~ENABLED Next) => outcome # "pending"

-----------------------------------------------------------------------------
(* (c) exact denotations.  Parameters and r are rationals <<n, d>>. *)
E(v, a, b) == [v |-> v, d1 |-> a, d2 |-> b]
PowTerm(c, x, n) == \* c * x^n with its derivatives
  E(RMul(c, RPow(x, n)), RMul(RMul(c, R(n)), RPow(x, n - 1)), RMul(RMul(c, R(n * (n - 1))), RPow(x, n - 2)))
EAdd(p, q) == E(RAdd(p.v, q.v), RAdd(p.d1, q.d1), RAdd(p.d2, q.d2))
ENeg(p) == E(RNeg(p.v), RNeg(p.d1), RNeg(p.d2))
RECURSIVE PolyE(_, _, _)
PolyE(cs, x, i) == IF i > Len(cs) THEN E(RZero, RZero, RZero)
                   ELSE EAdd(IF i = 1 THEN E(cs[1], RZero, RZero)
                             ELSE IF i = 2 THEN E(RMul(cs[2], x), cs[2], RZero)
                             ELSE PowTerm(cs[i], x, i - 1), PolyE(cs, x, i + 1))

Exact(nm, p, x) ==
  CASE nm = "constant" -> E(p[1], RZero, RZero)
    [] nm = "zero" -> E(RZero, RZero, RZero)
    [] nm = "polynomial" -> PolyE(p, x, 1)
    [] nm = "hbnd" -> EAdd(PowTerm(p[1], x, -12), ENeg(PowTerm(p[2], x, -10)))                 \* A/r^12 - B/r^10
    [] nm = "lj" -> EAdd(PowTerm(RMul(R(4), RMul(p[1], RPow(p[2], 12))), x, -12),               \* 4 eps (sigma^12/r^12 - sigma^6/r^6)
                         ENeg(PowTerm(RMul(R(4), RMul(p[1], RPow(p[2], 6))), x, -6)))
    [] nm = "coulnum" -> PowTerm(RMul(p[1], p[2]), x, -1)                                       \* coul * 4 pi eps0 = qi qj / r
    [] nm = "buckA0" -> ENeg(PowTerm(p[3], x, -6))                                              \* buck with A = 0 : -C/r^6

\* parameter lattices: pairwise distinct entries, including zero and negative values
Vec2 == {<<R(2), R(3)>>, <<R(3), R(2)>>, <<R(-1), R(2)>>, <<R(0), R(5)>>, <<<<1, 2>>, R(2)>>, <<R(5), <<-3, 2>>>>}
        \cup (IF Deep THEN {<<R(7), R(0)>>, <<<<-7, 4>>, <<2, 5>>>>, <<R(11), R(-13)>>, <<<<1, 8>>, <<9, 4>>>>} ELSE {})
LjVec == {<<R(2), R(1)>>, <<R(1), R(2)>>, <<<<1, 2>>, R(2)>>, <<R(-3), R(2)>>}
PolyVecs == {SubSeq(<<R(3), R(-1), R(2), R(5), R(-4), R(1), R(7), R(-2), R(6)>>, 1, n) : n \in 1..9}
                \cup {<<R(0), R(0), R(4)>>, <<<<1, 2>>, <<-3, 4>>>>}
                \cup (IF Deep THEN {<<R(-2), <<5, 4>>, R(0), <<-1, 8>>>>, <<R(0), R(0), R(0), R(0), R(0), R(1)>>, <<<<7, 2>>, R(0), R(0), R(-3), <<1, 5>>>>, <<R(1), R(-1), R(1), R(-1), R(1), R(-1), R(1)>>} ELSE {})
Xs == {R(1), R(2), <<3, 2>>, R(3)} \cup (IF Deep THEN {<<1, 2>>, <<5, 2>>, R(4), R(5)} ELSE {})
XsPoly == Xs \cup {R(0), R(-1), <<1, 2>>}

Case(nm, p, x) == [form |-> nm, p |-> p, x |-> x, e |-> Exact(nm, p, x)]
ExactCases ==
  {Case("constant", <<c>>, x) : c \in {R(0), R(-3), <<7, 2>>}, x \in XsPoly}
  \cup {Case("zero", <<>>, x) : x \in XsPoly}
  \cup {Case("polynomial", p, x) : p \in PolyVecs, x \in XsPoly}
  \cup {Case("hbnd", p, x) : p \in Vec2, x \in {R(1), R(2)}}
  \cup {Case("lj", p, x) : p \in LjVec, x \in {R(1), R(2)}}
  \cup {Case("coulnum", p, x) : p \in Vec2, x \in Xs}
  \cup {Case("buckA0", <<R(0), rho, c>>, x) : rho \in {R(1), <<3, 10>>}, c \in {R(32), R(-5), <<1, 2>>}, x \in {R(1), R(2), <<3, 2>>}}

\* A r^n : integer n on the rational lattice; half-integer n at perfect squares (value A * k^(2n))
ExponentialCases ==
  {[form |-> "exponential", A |-> a, n |-> <<n, 1>>, x |-> x, e |-> PowTerm(a, x, n)] : a \in {R(3), <<-5, 2>>}, n \in {-3, -2, -1, 0, 1, 2, 3, 4}, x \in Xs}
  \cup {[form |-> "exponential", A |-> a, n |-> <<m, 2>>, x |-> R(k * k),
         e |-> E(RMul(a, RPow(R(k), m)), RMul(RMul(a, <<m, 2>>), RPow(R(k), m - 2)), RMul(RMul(a, RMul(<<m, 2>>, <<m - 2, 2>>)), RPow(R(k), m - 4)))] :
            a \in {R(3), <<-5, 2>>}, m \in {-3, -1, 1, 3, 5}, k \in {1, 2, 3}}

\* A r^n with a non-negative integer n is regular at r = 0 (value, slope and curvature are those of the monomial)
ExponentialAtZero ==
  {[form |-> "exponential", A |-> a, n |-> <<n, 1>>, x |-> RZero,
    e |-> E(IF n = 0 THEN a ELSE RZero, IF n = 1 THEN a ELSE RZero, IF n = 2 THEN RMul(R(2), a) ELSE RZero)] : a \in {R(3), <<-5, 2>>}, n \in 0..4}

\* exact special points
SpecialCases ==
  {[form |-> "morse", p |-> <<g, rs, d>>, x |-> rs, v |-> RNeg(d)] : g \in {R(1), <<3, 2>>}, rs \in {R(2), <<5, 4>>}, d \in {R(3), <<-1, 2>>}}   \* V(r*) = -D
  \cup {[form |-> "exp_spline", p |-> <<R(0), R(0), R(0), R(0), R(0), R(0), c>>, x |-> x, v |-> RAdd(ROne, c)] : c \in {R(0), R(2), <<-7, 2>>}, x \in Xs}  \* exp(0) + C
  \cup {[form |-> "exp_spline", p |-> <<R(0), b1, R(0), R(0), R(0), R(0), c>>, x |-> R(0), v |-> RAdd(ROne, c)] : b1 \in {R(3), R(-2)}, c \in {R(1), <<-7, 2>>}}
  \cup {[form |-> "sqrt", p |-> <<g>>, x |-> R(k * k), v |-> RMul(g, R(k))] : g \in {R(3), <<-5, 2>>}, k \in 0..4}

\* the transcendental forms over parameter lattices that include zero and negative values of EVERY parameter (a negative rho is a
\* growing exponential, a negative gamma a mirrored Morse well): no exact value here - the four routes must agree with each other
\* to the last bit, and the engine's relations (exponential addition law, derivatives) pin the function-call route
RouteCases ==
  {[form |-> "bornmayer", p |-> <<a, rho>>, x |-> x] : a \in {R(1000), R(-5), R(0)}, rho \in {<<3, 10>>, <<-1, 2>>, R(-2)}, x \in Xs}
  \cup {[form |-> "buck", p |-> <<a, rho, c>>, x |-> x] : a \in {R(1000), R(-5)}, rho \in {<<3, 10>>, <<-1, 2>>}, c \in {R(32), R(0), R(-7)}, x \in Xs}
  \cup {[form |-> "morse", p |-> <<g, rs, d>>, x |-> x] : g \in {<<3, 2>>, R(-1), R(0)}, rs \in {R(2), R(0), <<-1, 2>>}, d \in {R(3), <<-1, 2>>, R(0)}, x \in Xs}
  \cup {[form |-> "coul", p |-> <<qi, qj>>, x |-> x] : qi \in {R(2), R(-1), R(0)}, qj \in {R(-2), <<3, 2>>}, x \in Xs}
  \cup {[form |-> "sqrt", p |-> <<g>>, x |-> x] : g \in {R(0), <<-5, 2>>}, x \in Xs}

\* four-range Buckingham: A exp(-r/rho) up to r_detach, -C/r^6 from r_attach, between them a fifth-order and (from r_min) a
\* third-order polynomial fixed by the ten equations of PolyRows!Buck4Rows (value, slope and curvature continuous at the
\* three knots, stationary at r_min).  The rows are exact; the harness solves them exactly with the documented end pieces.
Buck4Knots == { << <<6, 5>>, <<21, 10>>, <<13, 5>> >>, <<R(1), R(2), R(3)>>, << <<1, 2>>, <<3, 2>>, <<5, 2>> >> }
              \cup (IF Deep THEN { << <<3, 4>>, <<5, 4>>, R(2) >>, <<R(1), <<3, 2>>, <<5, 2>> >>, <<R(2), <<5, 2>>, <<7, 2>> >>, << <<4, 5>>, <<11, 10>>, R(3) >> } ELSE {})
Buck4Piece(kn, x) == IF RLe(x, kn[1]) THEN "bornmayer" ELSE IF RLe(kn[3], x) THEN "dispersion" ELSE IF RLt(x, kn[2]) THEN "quintic" ELSE "cubic"
Buck4Xs(kn) == {<<n, 4>> : n \in 0..16} \cup {kn[1], kn[2], kn[3]}     \* from r = 0, where the first range is A
Buck4Cases ==
  {[form |-> "buck4", p |-> <<a, rho, c, kn[1], kn[2], kn[3]>>, rows |-> Buck4Rows(kn),
    xs |-> SetToSeq({[x |-> x, piece |-> Buck4Piece(kn, x)] : x \in Buck4Xs(kn)})] :
      a \in {R(0), R(1000), <<56363, 5>>} \cup (IF Deep THEN {R(-50), <<1, 2>>} ELSE {}),
      rho \in {<<3, 10>>, <<1363, 10000>>} \cup (IF Deep THEN {<<1, 2>>} ELSE {}),
      c \in {R(0), R(32), R(134), R(-5)} \cup (IF Deep THEN {<<7, 2>>} ELSE {}), kn \in Buck4Knots}

\* Tang-Toennies: V = Eh * [ A exp(-b R) - sum_{n=3..5} f_2n(b R) C_2n / R^2n ],  f_2n(x) = 1 - exp(-x) * P_2n(x),
\* P_2n(x) = sum_{k=0..2n} x^k / k!  (R in Bohr = r / 0.5292, Eh = 27.211 eV: the constants of the form's own documentation).
\* With A = 0 and a single coefficient C_2n = c the form satisfies the POLYNOMIAL identity
\*        (1 + V R^2n / (Eh c)) * exp(x) = P_2n(x),      x = b R,
\* whose right-hand side is an exact rational at rational x; together with the A term alone (a scaled exponential) and the
\* linearity of V in (A, C_6, C_8, C_10) this pins the form at every separation, also where 1 - exp(-x) P(x) cancels.
RECURSIVE Factorial(_)
Factorial(k) == IF k = 0 THEN 1 ELSE k * Factorial(k - 1)
TTPoly(n) == [k \in 1..(2 * n + 1) |-> <<1, Factorial(k - 1)>>]          \* coefficient of x^(k-1)
TTCases == {[form |-> "tang_toennies", n |-> n, b |-> b, R |-> rr, x |-> RMul(b, rr), poly |-> TTPoly(n)] :
               n \in 3..5, b \in {R(1), <<3, 2>>, R(2), <<1, 2>>},
               rr \in {<<1, 4>>, <<2, 5>>, <<1, 2>>, <<9, 10>>, R(1), <<3, 2>>, R(2), R(3), R(5)}}

Emit == IF "EMIT" \in DOMAIN IOEnv /\ IOEnv.EMIT = "1"
        THEN /\ ndJsonSerialize(IOEnv.VERIF_OUT \o "/exact.ndjson", SetToSeq(ExactCases \cup ExponentialCases \cup ExponentialAtZero))
             /\ ndJsonSerialize(IOEnv.VERIF_OUT \o "/special.ndjson", SetToSeq(SpecialCases \cup RouteCases))
             /\ ndJsonSerialize(IOEnv.VERIF_OUT \o "/sig.ndjson", <<[n \in Names |-> Sig[n]]>>)
             /\ ndJsonSerialize(IOEnv.VERIF_OUT \o "/buck4.ndjson", SetToSeq(Buck4Cases))
             /\ ndJsonSerialize(IOEnv.VERIF_OUT \o "/tt.ndjson", SetToSeq(TTCases))
             /\ ndJsonSerialize(IOEnv.VERIF_OUT \o "/factoryonly.ndjson", SetToSeq(FactoryOnly))
        ELSE TRUE
ASSUME Emit
=============================================================================
