-------------------------------- MODULE Grid --------------------------------
(***************************************************************************)
(* C11: any two of nr / dr / cutoff (nrho / drho / cutoff_rho) fix the     *)
(* grid.                                                                   *)
(*                                                                         *)
(* (a) Derive      : the statement (decision table + arithmetic)           *)
(* (b) the transcription of _TabulationCutoff._init_cutoff, one action per *)
(*     branch, with Python truthiness modelled as the code uses it         *)
(*     (switch Truthiness = TRUE: `if nr and dr and cutoff`; FALSE: the    *)
(*     repaired tree, `is not None` tests and sign checks first)           *)
(* (c) ImplAgrees  : (b) = (a) for every presence / sign class             *)
(* (d) the commensurate table on a decimal lattice: cutoff = k*dr with     *)
(*     dr = a * 10^-e  =>  nr = k+1, rows end exactly at cutoff            *)
(*                                                                         *)
(* Lengths are integers in units of a quarter (so dr = 1 is 0.25).         *)
(***************************************************************************)
EXTENDS Integers, Sequences, FiniteSets, TLC, SequencesExt, FiniteSetsExt, Json, IOUtils

CONSTANTS Truthiness,     \* BOOLEAN: model `if nr and dr` (zero is falsy) as the unrepaired code does
          Files,          \* how many files one process reads one after the other (the readers are created per file)
          StickyGrid,     \* BOOLEAN: the reader object outlives the file and keeps the last resolved values, which then stand in for
                          \* what a later file leaves out (not the tree as it is)
          As, Es, Ks      \* decimal lattice of (d): dr = a * 10^-e, cutoff = k * dr

Absent == -999
NonNumeric == -998
\* value classes of one option: absent, not a number, negative, zero, positive (two different positive values)
NrVals == {Absent, NonNumeric, -3, 0, 1, 2, 5, 9}     \* 1: a single row has no spacing (rejected); 2: the smallest grid
DrVals == {Absent, NonNumeric, -1, 0, 1, 2}           \* quarters
CutVals == {Absent, NonNumeric, -8, 0, 8, 12}         \* quarters

VARIABLES inp,     \* [nr, dr, cut] as written in the file
          nr, dr, cut,   \* the local variables of _init_cutoff
          pc,      \* "read" | "branch" | "signs" | "done"
          out,     \* Pending | Reject | [nr, cut]  (Absent = None: the factory substitutes its default)
          kept,    \* what an earlier file of this process resolved to (StickyGrid), Pending = nothing
          nfile    \* files read so far

vars == <<inp, nr, dr, cut, pc, out, kept, nfile>>

Reject == [rej |-> TRUE, nr |-> 0, cut |-> 0]
Pending == [rej |-> FALSE, nr |-> -1, cut |-> -1]
Acc(n, c) == [rej |-> FALSE, nr |-> n, cut |-> c]
Present(v) == v # Absent
Numeric(v) == v # NonNumeric
Truthy(v) == IF Truthiness THEN Present(v) /\ v # 0 ELSE Present(v)

-----------------------------------------------------------------------------
(* (a) the statement *)
OneRow(o) == IF o # Reject /\ o.nr # Absent /\ o.nr < 2 THEN Reject ELSE o       \* rows are cutoff/(nr-1) apart: at least two
Derive(i) == OneRow(
  LET vs == <<i.nr, i.dr, i.cut>>
      present == {x \in 1..3 : Present(vs[x])} IN
  IF \E x \in present : ~Numeric(vs[x]) THEN Reject
  ELSE IF \E x \in present : vs[x] <= 0 THEN Reject                  \* a non-positive value is rejected
  ELSE IF present = {1, 2, 3} THEN Reject                           \* all three
  ELSE IF present = {2} THEN Reject                                 \* a step alone
  ELSE IF present = {1, 2} THEN Acc(i.nr, (i.nr - 1) * i.dr)
  ELSE IF present = {2, 3} THEN
        \* cutoff a whole multiple k of dr: exactly k+1 rows. (Not a multiple: the statement is silent; the code floors.)
        Acc((i.cut \div i.dr) + 1, i.cut)
  ELSE Acc(i.nr, i.cut))                                  \* {1,3}, {1}, {3}, {}: as given / defaults

\* the factory's defaults for what is still None
WithDefaults(o, dn, dc) == IF o = Reject THEN o ELSE Acc(IF o.nr = Absent THEN dn ELSE o.nr, IF o.cut = Absent THEN dc ELSE o.cut)

-----------------------------------------------------------------------------
(* (b) the implementation *)
Init == /\ inp \in [nr : NrVals, dr : DrVals, cut : CutVals]
        /\ nr = Absent /\ dr = Absent /\ cut = Absent /\ pc = "read" /\ out = Pending
        /\ kept = Pending /\ nfile = 1

Sticky(o) == IF StickyGrid /\ kept # Pending
             THEN Acc(IF o.nr = Absent THEN kept.nr ELSE o.nr, IF o.cut = Absent THEN kept.cut ELSE o.cut) ELSE o

\* _get_or_none x 3: a value that cannot be converted raises ConfigParserException
Read == /\ pc = "read"
        /\ IF ~Numeric(inp.nr) \/ ~Numeric(inp.dr) \/ ~Numeric(inp.cut)
           THEN /\ out' = Reject /\ pc' = "done" /\ UNCHANGED <<nr, dr, cut>>
           ELSE /\ nr' = inp.nr /\ dr' = inp.dr /\ cut' = inp.cut /\ pc' = (IF Truthiness THEN "branch" ELSE "signs") /\ UNCHANGED out
        /\ UNCHANGED <<inp, kept, nfile>>

AllThree == /\ pc = "branch" /\ Truthy(nr) /\ Truthy(dr) /\ Truthy(cut)
            /\ out' = Reject /\ pc' = "done" /\ UNCHANGED <<inp, nr, dr, cut, kept, nfile>>

SetCutoff == /\ pc = "branch" /\ ~(Truthy(nr) /\ Truthy(dr) /\ Truthy(cut)) /\ Truthy(nr) /\ Truthy(dr)
             /\ cut' = (nr - 1) * dr
             /\ pc' = (IF Truthiness THEN "signs" ELSE "finish") /\ UNCHANGED <<inp, nr, dr, out, kept, nfile>>

SetNr == /\ pc = "branch" /\ ~(Truthy(nr) /\ Truthy(dr)) /\ Truthy(cut) /\ Truthy(dr)
         /\ nr' = (cut \div dr) + 1          \* int(cutoff/dr + 1); exact here, floating point in the code: see (d)
         /\ pc' = (IF Truthiness THEN "signs" ELSE "finish") /\ UNCHANGED <<inp, dr, cut, out, kept, nfile>>

StepAlone == /\ pc = "branch" /\ ~(Truthy(nr) /\ Truthy(dr)) /\ ~(Truthy(cut) /\ Truthy(dr)) /\ Present(dr)
             /\ out' = Reject /\ pc' = "done" /\ UNCHANGED <<inp, nr, dr, cut, kept, nfile>>

NoBranch == /\ pc = "branch" /\ ~(Truthy(nr) /\ Truthy(dr)) /\ ~(Truthy(cut) /\ Truthy(dr)) /\ ~Present(dr)
            /\ pc' = (IF Truthiness THEN "signs" ELSE "finish") /\ UNCHANGED <<inp, nr, dr, cut, out, kept, nfile>>

\* the three `<= 0` checks (after the branches in the unrepaired code, before them in the repaired one)
Signs == /\ pc = "signs"
         /\ IF (Present(nr) /\ nr <= 0) \/ (Present(dr) /\ dr <= 0) \/ (Present(cut) /\ cut <= 0)
            THEN /\ out' = Reject /\ pc' = "done"
            ELSE IF Truthiness THEN /\ out' = Sticky(Acc(nr, cut)) /\ pc' = "done"
            ELSE /\ pc' = "branch" /\ UNCHANGED out
         /\ UNCHANGED <<inp, nr, dr, cut, kept, nfile>>

\* if not nr is None and nr < 2: raise  (the last check of _init_cutoff)
Finish == /\ pc = "finish"
          /\ out' = (IF Present(nr) /\ nr < 2 THEN Reject ELSE Sticky(Acc(nr, cut))) /\ pc' = "done"
          /\ UNCHANGED <<inp, nr, dr, cut, kept, nfile>>

\* the process goes on to another file
NextFile == /\ pc = "done" /\ nfile < Files
            /\ kept' = (IF out # Reject THEN out ELSE kept)
            /\ inp' \in [nr : NrVals, dr : DrVals, cut : CutVals]
            /\ nr' = Absent /\ dr' = Absent /\ cut' = Absent /\ pc' = "read" /\ out' = Pending /\ nfile' = nfile + 1

Next == NextFile \/ Read \/ AllThree \/ SetCutoff \/ SetNr \/ StepAlone \/ NoBranch \/ Signs \/ Finish
Spec == Init /\ [][Next]_vars

-----------------------------------------------------------------------------
(* (c) *)
ImplAgrees == (pc = "done") => (out = Derive(inp))
Terminates == (~ENABLED Next) => (pc = "done" /\ nfile = Files)
\* exactly the two-of-three combinations with positive values are accepted with a derived third
AcceptedShape == (pc = "done" /\ out # Reject) =>
    /\ ~(Present(inp.nr) /\ Present(inp.dr) /\ Present(inp.cut))
    /\ ~(Present(inp.dr) /\ ~Present(inp.nr) /\ ~Present(inp.cut))
    /\ \A v \in {inp.nr, inp.dr, inp.cut} : Present(v) => v > 0

\* a cutoff that the file gives is the cutoff of the table - also when it is no whole multiple of a given step (the statement
\* fixes the row count for whole multiples only; the rows always end at the cutoff)
CutoffGivenIsKept == (pc = "done" /\ out # Reject /\ Present(inp.cut)) => out.cut = inp.cut

-----------------------------------------------------------------------------
(* (d) commensurate decimal lattice *)
Pow10(e) == IF e = 0 THEN 1 ELSE IF e = 1 THEN 10 ELSE IF e = 2 THEN 100 ELSE IF e = 3 THEN 1000 ELSE IF e = 4 THEN 10000 ELSE 100000
Lattice == {[a |-> a, e |-> e, k |-> k, nr |-> k + 1, cutnum |-> k * a] : a \in As, e \in Es, k \in Ks}
\* rows i = 0..nr-1 at i * cutoff/(nr-1) : the last row is the cutoff and the spacing is dr (exact, cross-multiplied)
LatticeOK == \A c \in Lattice : /\ (c.nr - 1) * c.a = c.cutnum          \* (nr-1)*dr = cutoff
                                /\ c.cutnum * 1 = (c.nr - 1) * c.a      \* dr = cutoff/(nr-1)
ASSUME LatticeOK

\* case emission
TableCase(i) == [inp |-> i, expect |-> Derive(i)]
Emit == IF "EMIT" \in DOMAIN IOEnv /\ IOEnv.EMIT = "1"
        THEN /\ ndJsonSerialize(IOEnv.VERIF_OUT \o "/table.ndjson", SetToSeq({TableCase(i) : i \in [nr : NrVals, dr : DrVals, cut : CutVals]}))
             /\ ndJsonSerialize(IOEnv.VERIF_OUT \o "/lattice.ndjson", SetToSeq(Lattice))
        ELSE TRUE
ASSUME Emit
=============================================================================
