SPECIFICATION Spec
CONSTANTS
  Family = "funcfl"
  Targets = {"funcfl"}
  MaxSp = 1
  MaxPots = 0
  NRs = {3}
  NRhos = {2}
  Faults = TRUE
  FlushFixed = TRUE
INVARIANT TypeOK
INVARIANT NoStuck
INVARIANT C17_AllOrNothing
INVARIANT C17_WholeOrNothing
INVARIANT C17_DoneMeansWhole
INVARIANT C17_NoFaultNoRaise
