SPECIFICATION Spec
CONSTANTS
  DefaultsLeak = TRUE
  MaxLift = 1
INVARIANT InterpolationIsSubstitution
INVARIANT VariablesInert
