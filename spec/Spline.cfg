SPECIFICATION Spec
INVARIANT RegionOK
INVARIANT Terminates
