SPECIFICATION Spec
CONSTANTS
  StripsLastChar = FALSE
  MaxLines = 2
  DigitFirstOnly = TRUE
INVARIANT FileReadOK
INVARIANT Terminates
