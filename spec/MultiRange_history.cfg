SPECIFICATION Spec
CONSTANTS
  MaxRanges = 2
  Starts = {0, 2, 4, 6}
  MaxQueries = 3
  NumericAcross = TRUE
INVARIANT TypeOK
INVARIANT SelectsAllowed
INVARIANT OrderIndependent
INVARIANT DefaultOnlyBelow
INVARIANT DerivFromSelectedButF30
INVARIANT SortedOK
INVARIANT NoStuck
