------------------------------ MODULE ViewsBase ------------------------------
(***************************************************************************)
(* Shared by Views (views of ONE parsed file) and ViewSession (a process   *)
(* that parses several files): the parsed files, the filter space and the  *)
(* statement "filtering = deleting the entries that mention an unwanted    *)
(* species".                                                               *)
(***************************************************************************)
EXTENDS Integers, Sequences, FiniteSets, TLC, SequencesExt, FiniteSetsExt, Json, IOUtils

CONSTANTS Species,      \* species ranks mentioned by the files
          Unknown       \* a label that occurs in no entry

Labels == Species \cup {Unknown}

\* the parsed files: lists of [id, sp] (sp = tuple of species).  An explicit SEQUENCE: the replay and the trace validation
\* refer to a file by its index, and the order in which TLC enumerates a set of records is not the same in every module
\* that extends this one (it follows the order in which strings were first seen)
DocSeq == <<
  [pair  |-> << [id |-> 1, sp |-> <<1, 1>>], [id |-> 2, sp |-> <<2, 1>>], [id |-> 3, sp |-> <<2, 3>>], [id |-> 4, sp |-> <<3, 3>>] >>,
   embed |-> << [id |-> 5, sp |-> <<2>>], [id |-> 6, sp |-> <<1>>], [id |-> 7, sp |-> <<3>>] >>,
   dens  |-> << [id |-> 8, sp |-> <<1>>], [id |-> 9, sp |-> <<3>>], [id |-> 10, sp |-> <<2>>] >>,
   fs    |-> FALSE],
  [pair  |-> << [id |-> 1, sp |-> <<1, 2>>], [id |-> 2, sp |-> <<2, 2>>] >>,
   embed |-> << [id |-> 5, sp |-> <<1>>], [id |-> 6, sp |-> <<2>>] >>,
   dens  |-> << [id |-> 8, sp |-> <<1, 1>>], [id |-> 9, sp |-> <<1, 2>>], [id |-> 10, sp |-> <<2, 1>>], [id |-> 11, sp |-> <<2, 2>>] >>,
   fs    |-> TRUE],
  \* the same kind of file as the first with other entries under the same section names (so that anything remembered
  \* about one file and served for another shows)
  \* species 1 occurs in the density section only (no pair entry, no embedding entry: its embedding function is zero)
  [pair  |-> << [id |-> 21, sp |-> <<3, 2>>], [id |-> 22, sp |-> <<3, 3>>], [id |-> 23, sp |-> <<2, 2>>] >>,
   embed |-> << [id |-> 25, sp |-> <<3>>], [id |-> 26, sp |-> <<2>>] >>,
   dens  |-> << [id |-> 28, sp |-> <<2>>], [id |-> 29, sp |-> <<1>>], [id |-> 30, sp |-> <<3>>] >>,
   fs    |-> FALSE] >>
Docs == {DocSeq[i] : i \in 1..Len(DocSeq)}

ViewSpace == [mode : {"include", "exclude"}, S : SUBSET Labels]
Lists == {"pair", "embed", "dens"}

-----------------------------------------------------------------------------
(* the statement *)
Mentions(e) == {e.sp[x] : x \in 1..Len(e.sp)}
Keeps(v, e) == IF v.mode = "include" THEN Mentions(e) \subseteq v.S ELSE Mentions(e) \cap v.S = {}
Filter(lst, v) == SelectSeq(lst, LAMBDA e : Keeps(v, e))
\* deleting the unwanted entries from the file
DeleteMentioning(d, v) == [pair |-> Filter(d.pair, v), embed |-> Filter(d.embed, v), dens |-> Filter(d.dens, v), fs |-> d.fs]

=============================================================================
