SPECIFICATION Spec
CONSTANTS
  Family = "pair"
  Targets = {"LAMMPS","DLPOLY","GULP","excel"}
  MaxSp = 2
  MaxPots = 2
  NRs = {3,8}
  NRhos = {0}
  Faults = TRUE
  FlushFixed = FALSE
INVARIANT TypeOK
INVARIANT NoStuck
INVARIANT C17_AllOrNothing
INVARIANT C17_WholeOrNothing
INVARIANT C17_DoneMeansWhole
INVARIANT C17_NoFaultNoRaise
