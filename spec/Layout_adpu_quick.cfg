SPECIFICATION Spec
CONSTANTS
  Family = "adp_under"
  Targets = {"eam_adp"}
  MaxSp = 2
  MaxPots = 0
  NRs = {3}
  NRhos = {2}
  Faults = FALSE
  FlushFixed = TRUE
INVARIANT TypeOK
INVARIANT NoStuck
INVARIANT C03_ElementsOnce
INVARIANT C03_ReaderSeesModel
INVARIANT C19_Adp
INVARIANT C17_DoneMeansWhole
INVARIANT C17_NoFaultNoRaise
