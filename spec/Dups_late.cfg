SPECIFICATION Spec
CONSTANTS
  RawStrict = FALSE
  FormulaShadows = FALSE
  DipoleUnchecked = FALSE
  BuiltinClashCrashes = FALSE
  LateBuiltinShadowed = TRUE
  AddRawKey = FALSE
  HeaderBlanksKept = FALSE
  AddMerged = FALSE
INVARIANT NoDuplicateSurvives
INVARIANT Terminates
