SPECIFICATION Spec
CONSTANTS
  Species = {1, 2, 3}
  Unknown = 9
  Parsers = {1, 2}
  Addrs = {1, 2}
  ViewIds = {1, 2}
  FilterSeq <- PoolFilterSeq
  Filters = {1, 2}
  MaxEvents = 7
  IdentityMemo = FALSE
VIEW View
CONSTRAINT Bounded
INVARIANT ReadIsFilterOfOwnFile
INVARIANT ViewsOfLiveParsers
INVARIANT AddressesDistinct
INVARIANT EmitHistory
