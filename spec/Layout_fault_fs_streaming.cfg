SPECIFICATION Spec
CONSTANTS
  Family = "fs"
  Targets = {"setfl_fs","DL_POLY_EAM_fs","excel_eam_fs"}
  MaxSp = 2
  MaxPots = 0
  NRs = {2}
  NRhos = {2}
  Faults = TRUE
  FlushFixed = FALSE
INVARIANT TypeOK
INVARIANT NoStuck
INVARIANT C17_AllOrNothing
INVARIANT C17_WholeOrNothing
INVARIANT C17_DoneMeansWhole
INVARIANT C17_NoFaultNoRaise
