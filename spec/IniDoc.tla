------------------------------- MODULE IniDoc -------------------------------
(***************************************************************************)
(* The potable input document: reading (strict duplicate detection, key    *)
(* normalisation), the command-line edits --override-item / --remove-item  *)
(* / --add-item and ConfigParser(overrides=, additional=), and the item    *)
(* listing.  Serves C14 (edits = hand edits) and C20 (no duplicate         *)
(* survives).                                                              *)
(*                                                                         *)
(* A FILE is a sequence of sections, each a sequence of raw items          *)
(* [k, ws, v]: k the key's identity after whitespace normalisation, ws a   *)
(* spelling variant of the same key (0 canonical, 1 with embedded          *)
(* whitespace: 'A-B' / 'A - B', 'f(r,a)' / 'f(r, a)'), v the value.        *)
(* A DOCUMENT is what the parser holds: per section an ordered map from    *)
(* normalised key to value.                                                *)
(*                                                                         *)
(* (a) HandEdit : what the user means by the edits (text editor semantics) *)
(* (b) the transcription of potable._make_config_parser (merge rule) and   *)
(*     ConfigParser._init_config_parser (application), one action per      *)
(*     override / addition; the switch RawKeyLookup models                 *)
(*     RawConfigParser.has_option looking keys up WITHOUT normalising      *)
(*     them (the unrepaired tree).                                         *)
(* (c) EditsAreHandEdits relates them.                                     *)
(***************************************************************************)
EXTENDS Integers, Sequences, FiniteSets, TLC, SequencesExt, FiniteSetsExt, Functions, Json, IOUtils

CONSTANTS Secs,          \* section ids (naturals); section NewSec does not exist in the base files
          Keys,          \* key ids per section
          Vals,          \* value ids
          MaxOps,        \* number of command-line options
          RawKeyLookup,  \* BOOLEAN: has_option() compares raw spellings (unrepaired); FALSE: normalised
          RawKeyDup,     \* BOOLEAN: the strict reader detects duplicates on raw spellings only (unrepaired)
          RawKeyMerge    \* BOOLEAN: the command line merges options on their RAW (section, key) strings (unrepaired)

NewSec == Max(Secs)        \* by convention the largest section id is absent from every base file

VARIABLES file,     \* the file as written (sections of raw items)
          ops,      \* the command line: sequence of [kind, s, k, ws, v]
          doc,      \* the parser's document
          ovl, adl, \* overrides list / additional list handed to ConfigParser
          i,        \* index into ovl or adl
          pc,       \* "read" | "merge" | "ovr" | "add" | "done"
          err       \* "" | "duplicate" | "override-missing" | "add-duplicate"

vars == <<file, ops, doc, ovl, adl, i, pc, err>>

-----------------------------------------------------------------------------
(* documents *)
Item(k, v) == [k |-> k, v |-> v]
SecIdx(d, s) == IF \E x \in 1..Len(d) : d[x].s = s THEN CHOOSE x \in 1..Len(d) : d[x].s = s ELSE 0
HasSec(d, s) == SecIdx(d, s) # 0
ItemsOf(d, s) == IF HasSec(d, s) THEN d[SecIdx(d, s)].items ELSE <<>>
KeyIdx(items, k) == IF \E x \in 1..Len(items) : items[x].k = k THEN CHOOSE x \in 1..Len(items) : items[x].k = k ELSE 0
Has(d, s, k) == KeyIdx(ItemsOf(d, s), k) # 0

ReplaceItems(d, s, its) == [x \in 1..Len(d) |-> IF d[x].s = s THEN [s |-> s, items |-> its] ELSE d[x]]
SetVal(d, s, k, v) == ReplaceItems(d, s, [x \in 1..Len(ItemsOf(d, s)) |-> IF ItemsOf(d, s)[x].k = k THEN Item(k, v) ELSE ItemsOf(d, s)[x]])
DelKey(d, s, k) == ReplaceItems(d, s, SelectSeq(ItemsOf(d, s), LAMBDA it : it.k # k))
DropIfEmpty(d, s) == IF HasSec(d, s) /\ ItemsOf(d, s) = <<>> THEN SelectSeq(d, LAMBDA sc : sc.s # s) ELSE d
AppendKey(d, s, k, v) == IF HasSec(d, s) THEN ReplaceItems(d, s, Append(ItemsOf(d, s), Item(k, v)))
                         ELSE Append(d, [s |-> s, items |-> <<Item(k, v)>>])

-----------------------------------------------------------------------------
(* reading a file: configparser's strict mode + _ConfigParserDict normalisation *)
\* raw spelling of an item: <<k, ws>>
DupRaw(its) == \E a, b \in 1..Len(its) : a # b /\ its[a].k = its[b].k /\ its[a].ws = its[b].ws
DupNorm(its) == \E a, b \in 1..Len(its) : a # b /\ its[a].k = its[b].k
DupSection(f) == \E a, b \in 1..Len(f) : a # b /\ f[a].s = f[b].s
\* two raw spellings of one key in one section: the later assignment overwrites the earlier one, which keeps its place
Collapse(its) ==
  LET firsts == SelectSeq([x \in 1..Len(its) |-> x], LAMBDA x : ~\E y \in 1..(x - 1) : its[y].k = its[x].k) IN
  [x \in 1..Len(firsts) |->
     LET k == its[firsts[x]].k
         lastx == Max({y \in 1..Len(its) : its[y].k = k}) IN Item(k, its[lastx].v)]
ReadRejects(f) == DupSection(f) \/ \E x \in 1..Len(f) : IF RawKeyDup THEN DupRaw(f[x].items) ELSE DupNorm(f[x].items)
ReadDoc(f) == [x \in 1..Len(f) |-> [s |-> f[x].s, items |-> Collapse(f[x].items)]]

\* C20, document level: each thing is defined at most once, whatever its spelling
NoDuplicateDefinition(f) == ~DupSection(f) /\ \A x \in 1..Len(f) : ~DupNorm(f[x].items)

-----------------------------------------------------------------------------
(* (a) what the user means *)
Rej(e) == [rej |-> TRUE, e |-> e, d |-> <<>>]
Ok(d) == [rej |-> FALSE, e |-> "", d |-> d]

HandOne(res, op) ==
  IF res.rej THEN res
  ELSE LET d == res.d IN
       CASE op.kind = "ovr" -> IF Has(d, op.s, op.k) THEN Ok(SetVal(d, op.s, op.k, op.v)) ELSE Rej("override-missing")
         [] op.kind = "rem" -> IF Has(d, op.s, op.k) THEN Ok(DropIfEmpty(DelKey(d, op.s, op.k), op.s)) ELSE Rej("override-missing")
         [] op.kind = "add" -> IF Has(d, op.s, op.k) THEN Rej("add-duplicate") ELSE Ok(AppendKey(d, op.s, op.k, op.v))

OfKind(os, kind) == SelectSeq(os, LAMBDA o : o.kind = kind)
\* the command line does not order options of different kinds: overrides, then removals, then additions
HandEdit(d, os) == FoldLeft(HandOne, Ok(d), OfKind(os, "ovr") \o OfKind(os, "rem") \o OfKind(os, "add"))

-----------------------------------------------------------------------------
(* model spaces: defined by the configuration through BaseFiles and OpSeqs *)
RawItem(k, ws, v) == [k |-> k, ws |-> ws, v |-> v]
\* base files: section 1 with keys 1,2 ; section 2 with key 1 (its only key: removing it empties the section)
BaseA == << [s |-> 1, items |-> <<RawItem(1, 0, 1), RawItem(2, 0, 1)>>], [s |-> 2, items |-> <<RawItem(1, 0, 1)>>] >>
BaseB == << [s |-> 2, items |-> <<RawItem(1, 1, 2), RawItem(2, 0, 1)>>], [s |-> 1, items |-> <<RawItem(2, 1, 1)>>] >>
\* files with a duplicated definition (C20): same raw key, other spelling of the key, duplicated section
DupFiles == { << [s |-> 1, items |-> <<RawItem(1, 0, 1), RawItem(2, 0, 1), RawItem(1, w, 2)>>], [s |-> 2, items |-> <<RawItem(1, 0, 1)>>] >> : w \in {0, 1} }
            \cup { << [s |-> 1, items |-> <<RawItem(1, 1, 1), RawItem(1, 0, 2)>>] >>,
                   << [s |-> 1, items |-> <<RawItem(1, 0, 1)>>], [s |-> 2, items |-> <<RawItem(1, 0, 1)>>], [s |-> 1, items |-> <<RawItem(2, 0, 1)>>] >> }
EditFiles == {BaseA, BaseB}

OpInstances == {[kind |-> kd, s |-> s, k |-> k, ws |-> w, v |-> IF kd = "rem" THEN 0 ELSE v] : kd \in {"ovr", "rem", "add"}, s \in Secs, k \in Keys, w \in {0, 1}, v \in Vals}
\* two --remove-item options for one item (under whatever spelling) are one option (excluded: by hand an item cannot be deleted twice)
OpSeqs == {os \in UNION {[1..n -> OpInstances] : n \in 0..MaxOps} :
             \A a, b \in 1..Len(os) : (a # b /\ os[a].kind = "rem" /\ os[b].kind = "rem") => <<os[a].s, os[a].k>> # <<os[b].s, os[b].k>>}

-----------------------------------------------------------------------------
(* (b) the implementation *)
\* potable._make_config_parser: an OrderedDict keyed by the RAW (section, key) strings; a later option with the same
\* raw key replaces the earlier one IN ITS PLACE; removals go into the same dictionary after the overrides
RawKeyOf(o) == IF RawKeyMerge THEN <<o.s, o.k, o.ws>> ELSE <<o.s, o.k, 0>>      \* repaired: options are merged on the normalised key
MergeInto(lst, o) ==
  IF \E x \in 1..Len(lst) : RawKeyOf(lst[x]) = RawKeyOf(o)
  THEN [x \in 1..Len(lst) |-> IF RawKeyOf(lst[x]) = RawKeyOf(o) THEN o ELSE lst[x]]
  ELSE Append(lst, o)
MergedOverrides(os) == FoldLeft(MergeInto, <<>>, OfKind(os, "ovr") \o OfKind(os, "rem"))

\* RawConfigParser.has_option(section, key) on a _ConfigParserDict: `key in dict` does not go through the key transform
ImplHas(d, s, k, ws) == IF RawKeyLookup THEN Has(d, s, k) /\ ws = 0 ELSE Has(d, s, k)

Init == /\ \/ file \in EditFiles /\ ops \in OpSeqs
           \/ file \in DupFiles /\ ops = <<>>
        /\ doc = <<>> /\ ovl = <<>> /\ adl = <<>> /\ i = 0 /\ pc = "read" /\ err = ""

Read == /\ pc = "read"
        /\ IF ReadRejects(file) THEN /\ err' = "duplicate" /\ pc' = "done" /\ UNCHANGED doc
           ELSE /\ doc' = ReadDoc(file) /\ pc' = "merge" /\ UNCHANGED err
        /\ UNCHANGED <<file, ops, ovl, adl, i>>

Merge == /\ pc = "merge"
         /\ ovl' = MergedOverrides(ops) /\ adl' = OfKind(ops, "add")
         /\ i' = 1 /\ pc' = "ovr"
         /\ UNCHANGED <<file, ops, doc, err>>

ApplyOverride == /\ pc = "ovr" /\ i <= Len(ovl)
                 /\ LET o == ovl[i] IN
                    IF ~ImplHas(doc, o.s, o.k, o.ws)
                    THEN /\ err' = "override-missing" /\ pc' = "done" /\ UNCHANGED <<doc, i>>
                    ELSE /\ doc' = IF o.kind = "rem" THEN DropIfEmpty(DelKey(doc, o.s, o.k), o.s) ELSE SetVal(doc, o.s, o.k, o.v)
                         /\ i' = i + 1 /\ UNCHANGED <<err, pc>>
                 /\ UNCHANGED <<file, ops, ovl, adl>>

OverridesDone == /\ pc = "ovr" /\ i > Len(ovl)
                 /\ pc' = "add" /\ i' = 1
                 /\ UNCHANGED <<file, ops, doc, ovl, adl, err>>

ApplyAdd == /\ pc = "add" /\ i <= Len(adl)
            /\ LET o == adl[i] IN
               IF ImplHas(doc, o.s, o.k, o.ws)
               THEN /\ err' = "add-duplicate" /\ pc' = "done" /\ UNCHANGED <<doc, i>>
               ELSE \* cp[section][key] = value : the assignment DOES normalise the key, so an un-normalised spelling of an
                    \* existing key silently overwrites it when has_option() failed to see it
                    /\ doc' = IF Has(doc, o.s, o.k) THEN SetVal(doc, o.s, o.k, o.v) ELSE AppendKey(doc, o.s, o.k, o.v)
                    /\ i' = i + 1 /\ UNCHANGED <<err, pc>>
            /\ UNCHANGED <<file, ops, ovl, adl>>

AddsDone == /\ pc = "add" /\ i > Len(adl)
            /\ pc' = "done"
            /\ UNCHANGED <<file, ops, doc, ovl, adl, i, err>>

Next == Read \/ Merge \/ ApplyOverride \/ OverridesDone \/ ApplyAdd \/ AddsDone
Spec == Init /\ [][Next]_vars

-----------------------------------------------------------------------------
(* (c) *)
Result == IF err # "" THEN Rej(err) ELSE Ok(doc)
EditsAreHandEdits == (pc = "done" /\ err # "duplicate") => Result = HandEdit(ReadDoc(file), ops)
\* --list-items: every item of the edited document exactly once
Listing(d) == FlattenSeq([x \in 1..Len(d) |-> [y \in 1..Len(d[x].items) |-> <<d[x].s, d[x].items[y].k, d[x].items[y].v>>]])
ListEachOnce == (pc = "done" /\ err = "") =>
    /\ \A a, b \in 1..Len(Listing(doc)) : a # b => <<Listing(doc)[a][1], Listing(doc)[a][2]>> # <<Listing(doc)[b][1], Listing(doc)[b][2]>>
    /\ \A s \in Secs, k \in Keys : Has(doc, s, k) <=> \E x \in 1..Len(Listing(doc)) : Listing(doc)[x][1] = s /\ Listing(doc)[x][2] = k
\* C20: a file in which something is defined twice is refused by the reader
NoDuplicateSurvives == (pc # "read" /\ err # "duplicate") => NoDuplicateDefinition(file)
Terminates == (~ENABLED Next) => pc = "done"
TypeOK == pc \in {"read", "merge", "ovr", "add", "done"} /\ err \in {"", "duplicate", "override-missing", "add-duplicate"}

-----------------------------------------------------------------------------
CaseOf(f, os) == [file |-> f, ops |-> os, readRejects |-> (DupSection(f) \/ \E x \in 1..Len(f) : DupNorm(f[x].items)),
                  hand |-> IF NoDuplicateDefinition(f) THEN HandEdit(ReadDoc(f), os) ELSE Rej("duplicate")]
Emit == IF "EMIT" \in DOMAIN IOEnv /\ IOEnv.EMIT = "1"
        THEN ndJsonSerialize(IOEnv.VERIF_OUT \o "/cases.ndjson", SetToSeq({CaseOf(f, os) : f \in EditFiles, os \in OpSeqs} \cup {CaseOf(f, <<>>) : f \in DupFiles}))
        ELSE TRUE
ASSUME Emit
=============================================================================
