SPECIFICATION Spec
CONSTANTS
  Outs = {1, 2}
  MaxSteps = 2
  MaxEdits = 1
  NoTruncate = FALSE
  Streaming = FALSE
CONSTRAINT Bounded
INVARIANT TypeOK
INVARIANT ContentWellFormed
INVARIANT FailureLeavesEmpty
INVARIANT SuccessDetermines
INVARIANT TablesAreOfValidDocs
INVARIANT ExitStatus
PROPERTY OnlyNamedFileChanges
