----------------------------- MODULE LayoutTrace -----------------------------
(***************************************************************************)
(* Trace validation (code -> specification) for the writers.               *)
(*                                                                         *)
(* A trace is one execution of the real code: the abstract model that was  *)
(* tabulated and the sequence of abstract records recovered from the bytes *)
(* it wrote, read the way the consumer reads them (which function - found  *)
(* by matching the printed numbers against every probe - on which grid     *)
(* with which scaling and how many values).  TLC checks that the sequence  *)
(* is a behaviour of Layout: each observed record must be the record the   *)
(* writer model produces next.  Many traces are checked in one run: tid    *)
(* picks the trace, l is the position in it; the furthest position reached *)
(* is kept in a TLC register and reported by the post-condition.           *)
(***************************************************************************)
EXTENDS Layout, TLCExt

Traces == ndJsonDeserialize(IOEnv.TRACE_FILE)
VARIABLES tid, l
tvars == <<vars, tid, l>>

ToModel(j) == [fam |-> j.fam, tgt |-> j.tgt, nr |-> j.nr, nrho |-> j.nrho, pots |-> j.pots, els |-> j.els,
               embedDecl |-> ToSet(j.embedDecl), densDecl |-> ToSet(j.densDecl), dip |-> j.dip, quad |-> j.quad]

ASSUME \A i \in 1..Len(Traces) : TLCSet(i, 0)

TInit == /\ tid \in 1..Len(Traces) /\ l = 1
         /\ m = ToModel(Traces[tid].m)
         /\ plan = Plan(m)
         /\ pos = 1 /\ nEval = 0 /\ flushed = 0 /\ failAt = 0
         /\ phase = IF Rejects(m) THEN "rejected" ELSE IF Plan(m) = <<>> THEN "done" ELSE "writing"

\* observable fields of a record, by kind
Has(r, f) == f \in DOMAIN r
SameFn(a, b) == a.f = b.f /\ a.s = b.s /\ a.t = b.t
\* the function of a record against the observation: one identified function (`fn', probes) or the SET of declared
\* functions and scalings consistent with the printed numbers (`fns', traces of real models, where two species may
\* share a function); withScl: the record fixes the scaling too
FnObserved(p, e, withScl) ==
  IF Has(e, "fns")
  THEN \E k \in 1..Len(e.fns) : SameFn(p.fn, e.fns[k]) /\ (IF withScl /\ p.fn # Zero THEN p.scl = e.fns[k].scl ELSE TRUE)
  ELSE SameFn(p.fn, e.fn) /\ (IF withScl /\ p.fn # Zero THEN p.scl = e.scl ELSE TRUE)
Match(p, e) ==
  /\ p.t = e.t
  /\ CASE p.t \in {"title", "label", "ghdr"} /\ Has(p, "a") -> Has(e, "a") /\ p.a = e.a /\ p.b = e.b
       [] p.t = "hdr" -> IF Has(p, "N") THEN p.N = e.N /\ p.lo = e.lo /\ p.hi = e.hi ELSE p.ngrid = e.ngrid /\ p.delden = e.delden
       [] p.t = "rows" -> FnObserved(p, e, FALSE) /\ p.n = e.n /\ p.k0 = e.k0 /\ p.n0 = e.n0
       [] p.t = "grows" -> FnObserved(p, e, FALSE) /\ p.n = e.n /\ p.k0 = e.k0
       [] p.t = "recs" -> FnObserved(p, e, FALSE) /\ p.n = e.n /\ p.k0 = e.k0 /\ p.sec = e.sec /\ p.per = e.per
       [] p.t = "els" -> p.names = e.names
       [] p.t = "grid" -> p.nr = e.nr /\ p.nrho = e.nrho
       [] p.t = "elhdr" -> p.sp = e.sp
       [] p.t = "cells" -> /\ FnObserved(p, e, TRUE) /\ p.n = e.n /\ p.k0 = e.k0 /\ p.grid = e.grid /\ p.sec = e.sec   \* zero is zero under any scaling
       [] p.t = "count" -> p.n = e.n
       [] p.t = "blk" -> p.kw = e.kw /\ p.n = e.n /\ (p.who = e.who \/ (p.kw = "pair" /\ p.who = <<e.who[2], e.who[1]>>))
       [] OTHER -> TRUE                                            \* comment, title line, blank, spline keyword

TStep == /\ l <= Len(Traces[tid].ev)
         /\ phase = "writing" /\ pos <= Len(plan)
         /\ Match(plan[pos], Traces[tid].ev[l])
         /\ Produce
         /\ l' = l + 1 /\ UNCHANGED tid

TSpec == TInit /\ [][TStep]_tvars

\* furthest position reached per trace (a CONSTRAINT, evaluated in every state; single worker)
Progress == TLCSet(tid, IF TLCGet(tid) < l THEN l ELSE TLCGet(tid))
\* a trace is accepted when every event was consumed AND the writer model has nothing left to produce
Complete == (l = Len(Traces[tid].ev) + 1 /\ phase \in {"done", "rejected"}) => TLCSet(1000000 + tid, 1)
ASSUME \A i \in 1..Len(Traces) : TLCSet(1000000 + i, 0)
Report == \A i \in 1..Len(Traces) : PrintT(<<"TRACE", i, TLCGet(i), Len(Traces[i].ev), TLCGet(1000000 + i)>>)
=============================================================================
