SPECIFICATION Spec
CONSTANTS
  MaxRanges = 3
  Starts = {0, 2, 4, 6}
  MaxQueries = 1
  NumericAcross = TRUE
INVARIANT TypeOK
INVARIANT SelectsAllowed
INVARIANT OrderIndependent
INVARIANT DefaultOnlyBelow
INVARIANT DerivFromSelectedButF30
INVARIANT SortedOK
INVARIANT NoStuck
