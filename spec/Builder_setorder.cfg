SPECIFICATION Spec
CONSTANTS
  Species = {1, 2, 3}
  Fs = FALSE
  SetOrder = TRUE
  PairSpeciesFiltered = FALSE
INVARIANT BuilderOK
INVARIANT ElementsOnce
INVARIANT Terminates
