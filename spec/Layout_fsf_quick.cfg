SPECIFICATION Spec
CONSTANTS
  Family = "fs_foreign"
  Targets = {"setfl_fs","DL_POLY_EAM_fs","excel_eam_fs"}
  MaxSp = 2
  MaxPots = 0
  NRs = {2}
  NRhos = {2}
  Faults = FALSE
  FlushFixed = TRUE
INVARIANT TypeOK
INVARIANT NoStuck
INVARIANT C03_ElementsOnce
INVARIANT C04_SetflFsConsumerReadsDeclared
INVARIANT C04_EeamConsumerReadsDeclared
INVARIANT C04_ExcelConsumerReadsDeclared
INVARIANT C04_ClusterDensity
INVARIANT C05_DeclaredCountIsBlockCount
INVARIANT C05_BlockCensus
INVARIANT C19_Excel
INVARIANT C17_DoneMeansWhole
INVARIANT C17_NoFaultNoRaise
