-------------------------------- MODULE Dups --------------------------------
(***************************************************************************)
(* C20: each interaction / form is defined at most once.                   *)
(*                                                                         *)
(* A model is a base model plus ONE extra entry produced by a duplication  *)
(* operator; the extra entry is written in the file or arrives through     *)
(* --add-item / additional= (route "add").  An entry DEFINES a thing (an unordered species pair, an      *)
(* ordered density pair, a species' embedding function, a form label ...). *)
(* The reader is the chain of stages of the implementation that can notice *)
(* a second definition; the switches model the unrepaired tree.            *)
(***************************************************************************)
EXTENDS Integers, Sequences, FiniteSets, TLC, SequencesExt, Json, IOUtils

CONSTANTS RawStrict,        \* strict reader compares raw spellings: whitespace variants of a key are NOT duplicates for it
          FormulaShadows,   \* a [Potential-Form] with the label of a [Table-Form] silently replaces it
          DipoleUnchecked,  \* reversed duplicates in [EAM-ADP-Dipole] / [EAM-ADP-Quadrupole] are not looked for
          BuiltinClashCrashes, \* a [Table-Form] named like a built-in form raises an internal error instead of a configuration error
          LateBuiltinShadowed, \* built-in forms registered AFTER the user's forms (as.buck4) are silently replaced by a user form of that name
          AddRawKey,           \* the already-exists guard of the add route compares the raw key spelling
          HeaderBlanksKept,    \* '[Pair ]' / '[Table-Form :tf]' are section names of their own that share the look-up entry of
                               \* '[Pair]' / '[Table-Form:tf]' (the section read last stands in for the other): before F39
          AddMerged            \* several additions of one item are merged (the last wins) before the guard sees them

\* an entry: section kind, the thing it defines, and how its key is spelled relative to the first definition
\*   spelling: "same" | "ws" (whitespace variant) | "rev" (species the other way round) | "revws" | "other-arity" | "n/a"
Ops == {
  [op |-> "pair-same",        sec |-> "Pair",           thing |-> "pair{A,B}",   sp |-> "same"],
  [op |-> "pair-reversed",    sec |-> "Pair",           thing |-> "pair{A,B}",   sp |-> "rev"],
  [op |-> "pair-ws",          sec |-> "Pair",           thing |-> "pair{A,B}",   sp |-> "ws"],
  [op |-> "pair-reversed-ws", sec |-> "Pair",           thing |-> "pair{A,B}",   sp |-> "revws"],
  [op |-> "dipole-reversed",  sec |-> "EAM-ADP-Dipole", thing |-> "dip{A,B}",    sp |-> "rev"],
  [op |-> "dipole-ws",        sec |-> "EAM-ADP-Dipole", thing |-> "dip{A,B}",    sp |-> "ws"],
  [op |-> "embed-same",       sec |-> "EAM-Embed",      thing |-> "embed(A)",    sp |-> "same"],
  [op |-> "embed-ws",         sec |-> "EAM-Embed",      thing |-> "embed(A)",    sp |-> "ws"],
  [op |-> "dens-same",        sec |-> "EAM-Density",    thing |-> "dens(A)",     sp |-> "same"],
  [op |-> "dens-ws",          sec |-> "EAM-Density",    thing |-> "dens(A)",     sp |-> "ws"],
  [op |-> "fsdens-same",      sec |-> "EAM-Density-FS", thing |-> "dens(A->B)",  sp |-> "same"],
  [op |-> "fsdens-ws",        sec |-> "EAM-Density-FS", thing |-> "dens(A->B)",  sp |-> "ws"],
  [op |-> "form-same",        sec |-> "Potential-Form", thing |-> "form f",      sp |-> "same"],
  [op |-> "form-ws",          sec |-> "Potential-Form", thing |-> "form f",      sp |-> "ws"],
  [op |-> "form-other-arity", sec |-> "Potential-Form", thing |-> "form f",      sp |-> "other-arity"],
  [op |-> "table-same",       sec |-> "Table-Form",     thing |-> "form tf",     sp |-> "same"],
  [op |-> "table-ws",         sec |-> "Table-Form",     thing |-> "form tf",     sp |-> "ws"],
  [op |-> "table-vs-formula", sec |-> "Table-Form",     thing |-> "form f",      sp |-> "n/a"],
  [op |-> "table-vs-builtin", sec |-> "Table-Form",     thing |-> "form as.buck", sp |-> "n/a"],
  [op |-> "table-vs-late-builtin", sec |-> "Table-Form", thing |-> "form as.buck4", sp |-> "n/a"],
  [op |-> "form-vs-builtin",  sec |-> "Potential-Form", thing |-> "form as.buck", sp |-> "n/a"],
  [op |-> "form-vs-late-builtin", sec |-> "Potential-Form", thing |-> "form as.buck4", sp |-> "n/a"],
  [op |-> "section-twice",    sec |-> "Pair",           thing |-> "section Pair", sp |-> "same"],
  \* the header of the second section spelled with blanks: next to the brackets, or before the colon of Table-Form:NAME
  [op |-> "section-header-ws", sec |-> "Pair",          thing |-> "section Pair", sp |-> "ws"],
  [op |-> "table-header-ws",  sec |-> "Table-Form",     thing |-> "form tf",     sp |-> "header-ws"] }

\* "add": the second definition arrives through --add-item / additional= ; "add2": BOTH definitions do (the file has neither)
Routes == {"file", "add", "add2"}
\* an added item is one key: of an existing section, or of a section the addition creates ('Table-Form: tf:xy=...' makes a
\* whole table form); a section cannot be listed twice that way, nor an existing table form be given a second time
Addable(o) == o.op \notin {"section-twice", "table-same", "section-header-ws", "table-header-ws"}
Addable2(o) == Addable(o) /\ o.sec # "Table-Form" /\ o.sp # "n/a"

VARIABLES op, route, stage, outcome    \* outcome: "pending" | "config" | "internal" | "accepted"
vars == <<op, route, stage, outcome>>

Stages == <<"strict-read", "add-guard", "dup-pairs", "dup-table-sections", "registry-tables", "registry-forms", "registry-late-builtins", "builders", "end">>

\* does stage st notice the second definition introduced by operator o ?
Catches(st, o) ==
  CASE st = "strict-read" ->
         \* configparser strict mode: same section name, or same option name in a section (after optionxform)
         /\ route = "file"
         /\ \/ o.op = "section-twice"
            \/ o.op = "section-header-ws" /\ ~HeaderBlanksKept                 \* blanks next to the brackets are not part of the name
            \/ o.sp = "same"                                                  \* incl. two identical [Table-Form:tf] headers
            \/ o.sec # "Table-Form" /\ o.sp = "ws" /\ ~RawStrict
    [] st = "add-guard" ->
         \* _init_config_parser: an additional item whose (normalised) key is already in the section
         \/ route = "add" /\ (o.sp = "same" \/ (o.sp = "ws" /\ ~AddRawKey))
         \/ route = "add2" /\ ~AddMerged /\ (o.sp = "same" \/ (o.sp = "ws" /\ ~AddRawKey))
    [] st = "dup-pairs" -> o.sec = "Pair" /\ o.sp \in {"rev", "revws"}           \* _check_for_duplicate_pairs: either order, stripped
    [] st = "dup-table-sections" -> o.sec = "Table-Form" /\ (o.sp = "ws" \/ (o.sp = "header-ws" /\ ~HeaderBlanksKept))       \* [Table-Form:tf] / [Table-Form: tf]: names stripped before comparison
    [] st = "registry-tables" -> o.op = "table-vs-builtin"                          \* table forms are built after the built-ins are registered
    [] st = "registry-forms" -> o.op \in {"form-other-arity", "form-vs-builtin"} \/ (o.op = "table-vs-formula" /\ ~FormulaShadows)
    [] st = "registry-late-builtins" -> o.op \in {"table-vs-late-builtin", "form-vs-late-builtin"} /\ ~LateBuiltinShadowed
    [] st = "builders" -> o.sec = "EAM-ADP-Dipole" /\ o.sp = "rev" /\ ~DipoleUnchecked   \* pair-like ADP sections get the [Pair] check
    [] OTHER -> FALSE


Init == op \in Ops /\ route \in Routes /\ (route = "add" => Addable(op)) /\ (route = "add2" => Addable2(op)) /\ stage = 1 /\ outcome = "pending"

Step == /\ outcome = "pending"
        /\ IF Stages[stage] = "end" THEN outcome' = "accepted" /\ UNCHANGED stage
           ELSE IF Catches(Stages[stage], op)
                THEN /\ outcome' = IF Stages[stage] = "registry-tables" /\ BuiltinClashCrashes THEN "internal" ELSE "config"
                     /\ UNCHANGED stage
                ELSE stage' = stage + 1 /\ UNCHANGED outcome
        /\ UNCHANGED <<op, route>>

Spec == Init /\ [][Step]_vars

\* C20
NoDuplicateSurvives == outcome \in {"pending", "config"}
Terminates == (~ENABLED Step) => outcome # "pending"

Emit == IF "EMIT" \in DOMAIN IOEnv /\ IOEnv.EMIT = "1"
        THEN ndJsonSerialize(IOEnv.VERIF_OUT \o "/cases.ndjson", SetToSeq({[op |-> x[1].op, sec |-> x[1].sec, thing |-> x[1].thing, sp |-> x[1].sp, route |-> x[2]] :
                                                                              x \in {y \in Ops \X Routes : (y[2] = "add" => Addable(y[1])) /\ (y[2] = "add2" => Addable2(y[1]))}}))
        ELSE TRUE
ASSUME Emit
=============================================================================
