"""Trace validation (code -> specification) for the layout properties.

Seeded random models LARGER than the exhaustive TLC bounds (4 species, up to 6 pair potentials, arbitrary declared
subsets, grids up to 40 rows) are tabulated by the real code; the bytes are read back the way the consumer reads them and
turned into abstract records (which probe function - identified by matching the printed numbers against every candidate
probe and scaling - how many values, from which grid index); TLC then decides whether that record sequence is a behaviour
of spec/Layout.tla for the model (spec/LayoutTrace.tla, all traces in one TLC run, one deliberately corrupted canary)."""
import io, json, os, random, re
from fractions import Fraction as F

from lib import tlc, formats
from lib.probes import probe, agrees, ZERO
from engines import layout as L

SPECIES = [1, 2, 3, 4]


def random_model(rnd, tgt):
    fam = {"LAMMPS": "pair", "DLPOLY": "pair", "GULP": "pair", "setfl": "eam", "DL_POLY_EAM": "eam", "setfl_fs": "fs", "DL_POLY_EAM_fs": "fs", "eam_adp": "adp"}[tgt]
    n = rnd.randint(2, 4)
    sp = rnd.sample(SPECIES, n)
    allpairs = [(a, b) for i, a in enumerate(sorted(sp)) for b in sorted(sp)[i:]]

    def pots(maxn):
        chosen = rnd.sample(allpairs, rnd.randint(0 if fam != "pair" else 1, min(maxn, len(allpairs))))
        out = [[a, b] if rnd.random() < 0.5 else [b, a] for a, b in chosen]
        if fam != "pair":
            out.sort()          # the spec's model space lists EAM pair declarations in sorted order
        return out
    nr = rnd.choice([8, 12, 16, 20, 40]) if tgt == "DLPOLY" else rnd.randint(5, 40)
    m = dict(fam=fam, tgt=tgt, nr=nr, nrho=0 if fam == "pair" else rnd.randint(2, 25), pots=pots(6), els=[], embedDecl=[], densDecl=[], dip=[], quad=[])
    if fam != "pair":
        els = list(sp)
        rnd.shuffle(els)
        m["els"] = els
        m["embedDecl"] = sorted(sp)
        if fam == "fs":
            m["densDecl"] = [[a, b] for a in sorted(sp) for b in sorted(sp) if rnd.random() < 0.6]
        else:
            m["densDecl"] = [[a, 0] for a in sorted(sp)]
        if fam == "adp":
            m["dip"], m["quad"] = pots(4), pots(4)
    return m


def candidates(m):
    sp = sorted(set(m["els"]) | set(x for p in m["pots"] for x in p))
    out = [dict(f="zero", s=0, t=0)]
    for kind in ("pair", "dip", "quad"):
        out += [dict(f=kind, s=a, t=b) for i, a in enumerate(sp) for b in sp[i:]]
    out += [dict(f="embed", s=a, t=0) for a in sp] + [dict(f="dens", s=a, t=0) for a in sp] + [dict(f="dens", s=a, t=b) for a in sp for b in sp]
    return out


def identify(ctx, toks, grid, k0, cands, scalings=("none", "r"), deriv=False):
    """which (fn, scaling) produced these printed values? checked on all values"""
    hits = []
    for fn in cands:
        p = probe(fn)
        d1 = p.deriv()
        for scl in scalings:
            ok = True
            for j, tok in enumerate(toks):
                x = ctx.x(grid, k0 + j)
                v = p(x) if scl == "none" else x * p(x)
                if not agrees(tok, v, p.absval(x) * (abs(x) if scl == "r" else 1) + abs(x * d1(x))):
                    ok = False
                    break
            if ok:
                hits.append((fn, scl))
                if fn["f"] == "zero":
                    return fn, "none"
    if len(hits) == 1:
        return hits[0]
    return dict(f="unknown", s=len(hits), t=0), "none"


def rank(ctx, label):
    return ctx.labels.index(label) + 1 if label in ctx.labels else -1


def observe(ctx, data):
    """abstract records recovered from the bytes, in the vocabulary of Layout.tla"""
    m = ctx.m
    tgt = m["tgt"]
    cands = candidates(m)
    ev = []
    if tgt == "LAMMPS":
        for b in formats.parse_lammps_table(data):
            a, bb = b["title"].split("-")
            ev.append(dict(t="title", a=rank(ctx, a), b=rank(ctx, bb)))
            lo = [k for k in range(0, m["nr"] + 2) if agrees(b["lo"], ctx.x("r", k))]
            hi = [k for k in range(0, m["nr"] + 2) if agrees(b["hi"], ctx.x("r", k))]
            ev.append(dict(t="hdr", N=b["N"], lo=lo[0] if lo else -1, hi=hi[0] if hi else -1))
            k0s = [k for k in range(0, 3) if b["rows"] and agrees(b["rows"][0][1], ctx.x("r", k))]
            k0 = k0s[0] if k0s else -1
            fn, _ = identify(ctx, [r[2] for r in b["rows"]], "r", k0, [c for c in cands if c["f"] in ("pair", "zero")], ("none",))
            ev.append(dict(t="rows", fn=fn, n=len(b["rows"]), k0=k0, n0=int(b["rows"][0][0]) if b["rows"] else -1))
    elif tgt == "DLPOLY":
        t = formats.parse_dlpoly_table(data)
        ev.append(dict(t="title"))
        den = [d for d in range(1, m["nr"] + 5) if agrees(t["delpot"], ctx.cutoff / d)]
        ev.append(dict(t="hdr", ngrid=t["ngrid"], delden=den[0] if den else -1))
        for b in t["blocks"]:
            ev.append(dict(t="label", a=rank(ctx, b["a"]), b=rank(ctx, b["b"])))
            fn, _ = identify(ctx, b["E"], "r", 1, [c for c in cands if c["f"] in ("pair", "zero")], ("none",))
            ev.append(dict(t="recs", sec="E", fn=fn, k0=1, n=len(b["E"]), per=4))
            # forces: -r dV/dr of the same function
            p = probe(fn) if fn["f"] != "unknown" else ZERO
            def slack(x):
                return (16 * L.EPS * p.absval(x) * abs(x) / F(L.H)) if ctx.flavour == "numeric" else F(0)
            okf = all(agrees(tok, -ctx.x("r", k + 1) * p.deriv()(ctx.x("r", k + 1)),
                             (k + 2) * (p.absval(ctx.x("r", k + 1)) + abs(ctx.x("r", k + 1) * p.deriv()(ctx.x("r", k + 1))) + abs(ctx.x("r", k + 1) ** 2 * p.deriv().deriv()(ctx.x("r", k + 1)))),
                             slack(ctx.x("r", k + 1)))
                      for k, tok in enumerate(b["F"]))
            ev.append(dict(t="recs", sec="F", fn=fn if okf else dict(f="unknown", s=0, t=0), k0=1, n=len(b["F"]), per=4))
    elif tgt == "GULP":
        for b in formats.parse_gulp(data):
            ev.append(dict(t="spline"))
            ev.append(dict(t="ghdr", a=rank(ctx, b["a"]), b=rank(ctx, b["b"])))
            fn, _ = identify(ctx, [r[0] for r in b["rows"]], "r", 0, [c for c in cands if c["f"] in ("pair", "zero")], ("none",))
            ev.append(dict(t="grows", fn=fn, k0=0, n=len(b["rows"])))
    elif tgt in ("setfl", "setfl_fs", "eam_adp"):
        f = formats.parse_setfl(data, {"setfl": "alloy", "setfl_fs": "fs", "eam_adp": "adp"}[tgt])
        ev += [dict(t="comment")] * 3
        ev.append(dict(t="els", names=[rank(ctx, n) for n in f["names"]]))
        ev.append(dict(t="grid", nrho=f["nrho"], nr=f["nr"]))
        for e, name in enumerate(f["names"]):
            ev.append(dict(t="elhdr", sp=rank(ctx, name)))
            fn, scl = identify(ctx, f["els"][e]["embed"], "rho", 0, [c for c in cands if c["f"] in ("embed", "zero")], ("none",))
            ev.append(dict(t="cells", sec="embed", fn=fn, grid="rho", k0=0, n=len(f["els"][e]["embed"]), scl=scl))
            for dv in f["els"][e]["dens"]:
                fn, scl = identify(ctx, dv, "r", 0, [c for c in cands if c["f"] in ("dens", "zero")], ("none",))
                ev.append(dict(t="cells", sec="dens", fn=fn, grid="r", k0=0, n=len(dv), scl=scl))
        for sec, arrs in (("pair", f["pairs"]), ("dip", f["dip"] or []), ("quad", f["quad"] or [])):
            for arr in arrs:
                fn, scl = identify(ctx, arr, "r", 0, [c for c in cands if c["f"] in (sec, "zero")])
                ev.append(dict(t="cells", sec=sec, fn=fn, grid="r", k0=0, n=len(arr), scl=scl))
    elif tgt in ("DL_POLY_EAM", "DL_POLY_EAM_fs"):
        t = formats.parse_tabeam(data)
        ev.append(dict(t="title"))
        ev.append(dict(t="count", n=t["count"]))
        for b in t["blocks"]:
            kw = b["kw"]
            ev.append(dict(t="blk", kw=kw, who=[rank(ctx, w) for w in b["who"]], n=b["n"]))
            grid = "rho" if kw == "embe" else "r"
            kinds = {"pair": ("pair", "zero"), "embe": ("embed", "zero"), "dens": ("dens", "zero")}[kw]
            fn, scl = identify(ctx, b["vals"], grid, 0, [c for c in cands if c["f"] in kinds], ("none",))
            ev.append(dict(t="cells", sec=kw, fn=fn, grid=grid, k0=0, n=len(b["vals"]), scl=scl))
    return ev


TRACE_TARGETS = {"C01": ["LAMMPS"], "C02": ["DLPOLY"], "C03": ["setfl"], "C04": ["setfl_fs", "DL_POLY_EAM_fs"], "C05": ["DL_POLY_EAM", "DL_POLY_EAM_fs"],
                 "C19": ["GULP", "eam_adp"]}


def validate(run, prop, tier, seed):
    """record traces of the real code and let TLC validate them; adds violations / machinery errors to run"""
    rnd = random.Random(seed * 31 + 7)
    n = 40 if tier == "quick" else 400
    traces, meta = [], []
    for i in range(n):
        tgt = TRACE_TARGETS[prop][i % len(TRACE_TARGETS[prop])]
        m = random_model(rnd, tgt)
        case = dict(m=m, plan=[], rejects=(tgt == "DLPOLY" and m["nr"] % 4 != 0), totalEv=0)
        ctx = L.Ctx(case, i, seed)
        route = ["class", "ini"][i % 2] if not (m["fam"] == "fs" and i % 2 == 0 and len(m["densDecl"]) < len(m["els"]) ** 2 and False) else "ini"
        res = L.execute(ctx, route)
        if res["outcome"] != "ok":
            run.violation(dict(engine="layout", target=tgt, clause="well-formed-model-refused", route=route),
                          "%s via %s (trace driver): the implementation raised %s" % (tgt, route, res["exc"]), dict(model=m, ini=res.get("ini")))
            continue
        try:
            ev = observe(ctx, res["data"])
        except formats.FormatError as e:
            run.violation(dict(engine="layout", target=tgt, clause="unreadable", route=route), "%s via %s (trace driver): the consumer cannot read the file: %s" % (tgt, route, e), dict(model=m))
            continue
        mt = m
        if m["fam"] == "pair":
            # the statement does not order the blocks of a pair table: the trace's model lists the declared potentials in
            # the order their blocks appear in the file (a block that matches no declaration is left for TLC to reject)
            keys = [tuple(sorted((e["a"], e["b"]))) for e in ev if e["t"] in ("title", "label", "ghdr") and "a" in e]
            rest = list(m["pots"])
            ordered = []
            for k in keys:
                hit = [p for p in rest if tuple(sorted(p)) == k]
                if hit:
                    ordered.append(hit[0])
                    rest.remove(hit[0])
            mt = dict(m, pots=ordered + rest)
            # titles are compared as unordered pairs: orient the observed labels like the declaration
            oi = 0
            for e in ev:
                if e["t"] in ("title", "label", "ghdr") and "a" in e and oi < len(mt["pots"]):
                    if [e["b"], e["a"]] == mt["pots"][oi]:
                        e["a"], e["b"] = e["b"], e["a"]
                    oi += 1
        traces.append(dict(m=mt, ev=ev, canary=False))
        meta.append(dict(route=route, rendering=ctx.describe()))
    if not traces:
        return
    # canary: a copy of a real trace with two records exchanged / a function identity changed must be rejected
    can = json.loads(json.dumps(traces[0]))
    can["canary"] = True
    groups = [k for k, e in enumerate(can["ev"]) if "fn" in e]
    if groups:
        e = can["ev"][groups[-1]]
        e["fn"] = dict(f="pair", s=9, t=9)
    traces.append(can)
    meta.append(dict(route="canary", rendering={}))
    d = tlc.scratch("traces-")
    try:
        path = os.path.join(d, "traces.ndjson")
        with open(path, "w") as f:
            for t in traces:
                f.write(json.dumps(t) + "\n")
        res = tlc.run("LayoutTrace", "LayoutTrace.cfg", env={"TRACE_FILE": path}, workers=1, timeout=1200, keep=True)
        try:
            rep = {}
            for mm in re.finditer(r'<<"TRACE", (\d+), (\d+), (\d+), (\d+)>>', res.stdout):
                rep[int(mm.group(1))] = (int(mm.group(2)), int(mm.group(3)), int(mm.group(4)))
            if len(rep) != len(traces):
                run.machinery("trace validation: TLC reported %d of %d traces\n%s" % (len(rep), len(traces), res.stdout[-1200:]))
                return
            run.add_tlc("LayoutTrace(%d traces)" % len(traces), res, exhaustive=False)
            for i, t in enumerate(traces):
                reached, total, complete = rep[i + 1]
                accepted = complete == 1
                if t["canary"]:
                    if accepted:
                        run.machinery("trace validation is vacuous: the corrupted canary trace was accepted")
                    continue
                run.traces += 1
                run.distinct("trace:" + json.dumps(t["m"], sort_keys=True))
                if not accepted:
                    nxt = t["ev"][reached - 1] if reached - 1 < len(t["ev"]) else "(the writer model expects more records)"
                    run.violation(dict(engine="layout", target=t["m"]["tgt"], clause="trace-rejected", route=meta[i]["route"]),
                                  "%s via %s: the recorded execution is not a behaviour of the specification: matched %d of %d records; next observed record %s" % (
                                      t["m"]["tgt"], meta[i]["route"], reached - 1, total, json.dumps(nxt)), dict(trace=t, meta=meta[i]))
            if len(run.samples) < 6:
                run.sample(dict(trace_model=traces[0]["m"], first_events=traces[0]["ev"][:5], validated_by="TLC LayoutTrace"))
        finally:
            tlc.cleanup(res)
    finally:
        import shutil
        shutil.rmtree(d, ignore_errors=True)
