"""C10: splined potentials.  (M) spec/Spline.tla (region machine; defining equations as exact rational rows; identity
family); (R) region table, residuals of the defining equations evaluated with the implementation's own coefficients and
end-point values, C2 continuity at detach / r_min / attach, exact identity family, agreement of the construction routes."""
import io, json, math, os
from fractions import Fraction as F

from lib import boot, tlc
from lib.harness import Run

P = boot.boot()
from atsim.potentials import potentialforms as PFo, potentialfunctions as PFn          # noqa: E402
from atsim.potentials.spline import SplinePotential, Buck4_SplinePotential            # noqa: E402
from atsim.potentials import gradient                                                  # noqa: E402
from atsim.potentials.config import Configuration                                      # noqa: E402


def fr(q):
    return F(q[0], q[1])


def fl(q):
    return float(fr(q))


def polyval(cs, x, d=0):
    tot = 0.0
    for i, c in enumerate(cs):
        if d == 0:
            tot += c * x ** i
        elif d == 1 and i >= 1:
            tot += i * c * x ** (i - 1)
        elif d == 2 and i >= 2:
            tot += i * (i - 1) * c * x ** (i - 2)
    return tot


def polymag(cs, x, d=0):
    """sum of the absolute terms of the d-th derivative: the cancellation scale of a polynomial evaluation"""
    return polyval([abs(c) for c in cs], abs(x), d)


def jet(f, x):
    g = gradient(f)
    return f(x), g(x), gradient(g)(x)


# start / end potentials drawn from the built-in forms (all with analytic first and second derivatives);
# several have zero or negative values at the knots (the exponential spline must shift them)
PAIRS = [
    ("zbl 14 8", lambda: PFo.zbl(14, 8), "buck 180003 0.3 32.0", lambda: PFo.buck(180003.0, 0.3, 32.0)),
    ("bornmayer 1000 0.3", lambda: PFo.bornmayer(1000.0, 0.3), "buck 0 1 32", lambda: PFo.buck(0.0, 1.0, 32.0)),
    ("lj 0.2 2.5", lambda: PFo.lj(0.2, 2.5), "zero", lambda: PFo.zero()),
    ("coul 1 -1", lambda: PFo.coul(1.0, -1.0), "polynomial 1 -0.5 0.25", lambda: PFo.polynomial(1.0, -0.5, 0.25)),
    ("morse 1.5 1.2 0.8", lambda: PFo.morse(1.5, 1.2, 0.8), "constant -0.3", lambda: PFo.constant(-0.3)),
    ("exponential 3 -2", lambda: PFo.exponential(3.0, -2.0), "hbnd 50 10", lambda: PFo.hbnd(50.0, 10.0)),
    ("polynomial 2 1", lambda: PFo.polynomial(2.0, 1.0), "sqrt 0.7", lambda: PFo.sqrt(0.7)),
    # both ends non-positive, in either order of magnitude (the exponential spline shifts by the smaller of the two)
    ("constant -3", lambda: PFo.constant(-3.0), "zero", lambda: PFo.zero()),
    ("polynomial -0.5 -0.1", lambda: PFo.polynomial(-0.5, -0.1), "constant -4", lambda: PFo.constant(-4.0)),
    ("coul 2 -2", lambda: PFo.coul(2.0, -2.0), "buck 0 1 32", lambda: PFo.buck(0.0, 1.0, 32.0)),
]


def rel(a, b, scale):
    return abs(a - b) <= 1e-7 * (abs(scale) + abs(b) + 1e-9)


def check_rows(run, rows, bad):
    """residuals of the defining equations, C2 continuity, zero slope at r_min"""
    for rc in rows:
        kn = [fl(k) for k in rc["knots"]]
        rd, rm, ra = kn
        for sname, smk, ename, emk in PAIRS:
            start, end = smk(), emk()
            sj, ej = jet(start, rd), jet(end, ra)
            # ---------------- buck4
            try:
                pot = Buck4_SplinePotential(start, end, rd, ra, rm)
                coef = list(pot.splineCoefficients)
            except Exception as e:
                bad.append(("construction-raises", "buck4 spline %s -> %s, knots %s: %s: %s" % (sname, ename, kn, type(e).__name__, e), dict(knots=kn, start=sname, end=ename)))
                continue
            run.evaluations += 1
            rhsv = {"start.v": sj[0], "start.d1": sj[1], "start.d2": sj[2], "end.v": ej[0], "end.d1": ej[1], "end.d2": ej[2], "zero": 0.0}
            for ri, row in enumerate(rc["buck4"]):
                terms = [fl(a) * c for a, c in zip(row["row"], coef)]
                lhs, mag = sum(terms), sum(abs(t) for t in terms)
                if abs(lhs - rhsv[row["rhs"]]) > 1e-8 * (mag + abs(rhsv[row["rhs"]]) + 1e-9):
                    bad.append(("defining-equation", "buck4 spline %s -> %s, knots %s: equation %d (%s) has residual %.3e (terms of size %.3e)" % (
                        sname, ename, kn, ri + 1, row["rhs"], lhs - rhsv[row["rhs"]], mag), dict(knots=kn, start=sname, end=ename)))
                    break
            sp = pot.interpolationFunction
            A, B = coef[:6], coef[6:]
            for name, x, want, got in (("detach", rd, sj, (sp(rd), sp.deriv(rd), sp.deriv2(rd))), ("attach", ra, ej, (sp(ra - 0.0) if False else polyval(B, ra), polyval(B, ra, 1), polyval(B, ra, 2)))):
                for k, lab in enumerate(("value", "slope", "curvature")):
                    if not rel(got[k], want[k], max(abs(w) for w in want) + polymag(A if name == "detach" else B, x, k)):
                        bad.append(("continuity", "buck4 spline %s -> %s, knots %s: %s at %s is %r on the spline side, %r on the potential's side" % (
                            sname, ename, kn, lab, name, got[k], want[k]), dict(knots=kn, start=sname, end=ename)))
            q5 = (polyval(A, rm), polyval(A, rm, 1), polyval(A, rm, 2))
            q3 = (polyval(B, rm), polyval(B, rm, 1), polyval(B, rm, 2))
            sc = max(abs(v) for v in q5 + q3) + 1e-9
            mags = [polymag(A, rm, k) + polymag(B, rm, k) for k in range(3)]
            if not all(abs(a - b) <= 1e-7 * (sc + m) for a, b, m in zip(q5, q3, mags)):
                bad.append(("continuity", "buck4 spline %s -> %s, knots %s: quintic %s and cubic %s do not meet with C2 continuity at r_min" % (sname, ename, kn, q5, q3), dict(knots=kn)))
            if abs(q5[1]) > 1e-7 * (sc + mags[1]) or abs(pot.deriv(rm)) > 1e-7 * (sc + mags[1]):
                bad.append(("stationary", "buck4 spline %s -> %s, knots %s: slope at r_min is %r, not 0" % (sname, ename, kn, pot.deriv(rm)), dict(knots=kn)))
            # the callable as a whole: start below detach, end above attach, polynomial pieces between
            for x in (rd - 0.25, rd, (rd + rm) / 2, rm, (rm + ra) / 2, ra, ra + 0.25):
                want = start(x) if x <= rd else end(x) if x >= ra else polyval(A, x) if x < rm else polyval(B, x)
                if not rel(pot(x), want, sc + polymag(A, x) + polymag(B, x)):
                    bad.append(("region", "buck4 spline %s -> %s, knots %s: value at r=%s is %r, the piece acting there gives %r" % (sname, ename, kn, x, pot(x), want), dict(knots=kn)))
            # ---------------- exponential spline (detach, attach only)
            try:
                pot = SplinePotential(start, end, rd, ra)
                coef = list(pot.splineCoefficients)
            except Exception as e:
                bad.append(("construction-raises", "exp spline %s -> %s, knots %s: %s: %s" % (sname, ename, kn, type(e).__name__, e), dict(knots=kn, start=sname, end=ename)))
                continue
            Bc, C = coef[:6], coef[6]
            run.evaluations += 1
            sv, ev = sj[0] - C, ej[0] - C
            if sv <= 0 or ev <= 0:
                bad.append(("defining-equation", "exp spline %s -> %s, knots %s: V - C is not positive at the knots (C=%r)" % (sname, ename, kn, C), dict(knots=kn)))
                continue
            rhsv = {"ln start.v": math.log(sv), "ln end.v": math.log(ev), "start.d1/v": sj[1] / sv, "end.d1/v": ej[1] / ev,
                    "start.d2/v - (d1/v)^2": sj[2] / sv - (sj[1] / sv) ** 2, "end.d2/v - (d1/v)^2": ej[2] / ev - (ej[1] / ev) ** 2}
            for ri, row in enumerate(rc["exp"]):
                terms = [fl(a) * c for a, c in zip(row["row"], Bc)]
                lhs, mag = sum(terms), sum(abs(t) for t in terms)
                if abs(lhs - rhsv[row["rhs"]]) > 1e-7 * (mag + abs(rhsv[row["rhs"]]) + 1e-9):
                    bad.append(("defining-equation", "exp spline %s -> %s, knots %s: equation %d (%s) has residual %.3e (terms of size %.3e)" % (
                        sname, ename, kn, ri + 1, row["rhs"], lhs - rhsv[row["rhs"]], mag), dict(knots=kn, start=sname, end=ename)))
                    break
            sp = pot.interpolationFunction
            for name, x, want in (("detach", rd, sj), ("attach", ra, ej)):
                got = (sp(x), sp.deriv(x), sp.deriv2(x))
                qm = polymag(Bc, x) + polymag(Bc, x, 1) ** 2 + polymag(Bc, x, 2)
                for k, lab in enumerate(("value", "slope", "curvature")):
                    if not rel(got[k], want[k], (max(abs(w) for w in want) + abs(C)) * (1 + qm)):
                        bad.append(("continuity", "exp spline %s -> %s, knots %s: %s at %s is %r on the spline side, %r on the potential's side" % (
                            sname, ename, kn, lab, name, got[k], want[k]), dict(knots=kn, start=sname, end=ename)))
            for x in (rd - 0.25, rd, ra, ra + 0.25):
                want = start(x) if x <= rd else end(x)
                if pot(x) != want:
                    bad.append(("region", "exp spline %s -> %s, knots %s: value at r=%s is %r, the end potential gives %r" % (sname, ename, kn, x, pot(x), want), dict(knots=kn)))
            xm = (rd + ra) / 2
            want = math.exp(polyval(Bc, xm)) + C
            if not rel(pot(xm), want, (abs(want) + abs(C)) * (1 + polymag(Bc, xm))):
                bad.append(("shape", "exp spline %s -> %s, knots %s: value at r=%s is %r, exp(B0+...+B5 r^5)+C of the advertised coefficients is %r" % (sname, ename, kn, xm, pot(xm), want), dict(knots=kn)))


def check_identity(run, cases, bad):
    for c in cases:
        kn = [fl(k) for k in c["knots"]]
        cs = [fl(x) for x in c["cubic"]]
        p = PFo.polynomial(*cs)
        pot = Buck4_SplinePotential(p, p, kn[0], kn[2], kn[1])
        coef = list(pot.splineCoefficients)
        run.evaluations += 1
        want = cs + [0.0, 0.0] + cs
        sc = max(abs(x) for x in cs) + 1.0
        if not all(abs(a - b) <= 1e-7 * sc * (1 + kn[2] ** 5) for a, b in zip(coef, want)):
            bad.append(("identity", "start = end = cubic %s stationary at r_min, knots %s: the spline must be that cubic; coefficients are %s" % (cs, kn, coef), dict(knots=kn, cubic=cs)))
            continue
        for x in (kn[0] - 0.5, kn[0], (kn[0] + kn[1]) / 2, kn[1], (kn[1] + kn[2]) / 2, kn[2], kn[2] + 0.5):
            for d, f in ((0, pot), (1, pot.deriv), (2, pot.deriv2)):
                if abs(f(x) - polyval(cs, x, d)) > 1e-7 * (sc * (1 + abs(x) ** 3)):
                    bad.append(("identity", "cubic identity, knots %s: derivative order %d at r=%s is %r, the cubic gives %r" % (kn, d, x, f(x), polyval(cs, x, d)), dict(knots=kn, cubic=cs)))
                    break
    # exponential identity: start = end = exp(B0 + B1 r + B2 r^2)  =>  coefficients (B0, B1, B2, 0, 0, 0), C = 0
    for Bq in ([0.5, -1.0, 0.25], [-1.0, 0.5, -0.125], [2.0, 0.0, -0.5]):
        e = PFo.exp_spline(Bq[0], Bq[1], Bq[2], 0.0, 0.0, 0.0, 0.0)
        for rd, ra in ((0.5, 1.5), (1.0, 3.0), (1.5, 2.0)):
            pot = SplinePotential(e, e, rd, ra)
            coef = list(pot.splineCoefficients)
            run.evaluations += 1
            want = Bq + [0.0, 0.0, 0.0, 0.0]
            if not all(abs(a - b) <= 1e-6 * (1 + abs(b)) for a, b in zip(coef, want)):
                bad.append(("identity", "start = end = exp(%s + %s r + %s r^2), knots (%s, %s): coefficients are %s" % (Bq[0], Bq[1], Bq[2], rd, ra, coef), dict(B=Bq)))


def check_routes(run, bad):
    """the Python classes, the spline() modifier and as.buck4 give the same function"""
    lat = []
    for (A, rho, C) in ((1000.0, 0.3, 32.0), (500.5, 0.25, 10.0), (11272.6, 0.1363, 134.0)):
        for (rd, rm, ra) in ((1.0, 1.5, 2.5), (1.2, 2.1, 2.6), (1.0, 2.0, 2.5), (0.8, 1.1, 3.0)):
            lat.append((A, rho, C, rd, rm, ra))
    pairs, expected = [], []
    for i, (A, rho, C, rd, rm, ra) in enumerate(lat):
        pairs.append("X%d-Y%d : as.buck4 %r %r %r %r %r %r" % (i, i, A, rho, C, rd, rm, ra))
        pairs.append("X%d-Z%d : spline(as.buck %r %r 0 >%r buck4_spline %r >%r as.buck 0 1 %r)" % (i, i, A, rho, rd, rm, ra, C))
        pairs.append("X%d-W%d : spline(>0 as.zbl 14 8 >=%r exp_spline >=%r as.buck %r %r %r)" % (i, i, rd, ra, A, rho, C))
        # the same two splines with the end potentials spelled as custom formulas (no analytic derivatives: the knots' slopes
        # and curvatures come from the numerical fall-back, taken on the end potential itself)
        pairs.append("X%d-V%d : spline(>0 as.zbl 14 8 >=%r exp_spline >=%r mybuck %r %r %r)" % (i, i, rd, ra, A, rho, C))
        pairs.append("X%d-U%d : spline(mybm %r %r >%r buck4_spline %r >%r mybuck 0 1 %r)" % (i, i, A, rho, rd, rm, ra, C))
        # a modifier as the start or as the end potential, with an exclusive and with an inclusive marker at the knot next to it
        pairs.append("X%d-T%d : spline(>0 as.zbl 14 8 >=%r exp_spline >%r sum(as.buck %r %r %r, as.constant 0.5))" % (i, i, rd, ra, A, rho, C))
        pairs.append("X%d-S%d : spline(>0 as.zbl 14 8 >%r exp_spline >=%r sum(as.buck %r %r %r, as.constant 0.5))" % (i, i, rd, ra, A, rho, C))
        pairs.append("X%d-R%d : spline(sum(as.bornmayer %r %r, as.constant 0.25) >%r buck4_spline %r >%r as.buck 0 1 %r)" % (i, i, A, rho, rd, rm, ra, C))
        pairs.append("X%d-Q%d : spline(>=0 as.zbl 14 8 >%r exp_spline >%r product(as.constant 2, as.buck %r %r %r))" % (i, i, rd, ra, A, rho, C))
    forms = "[Potential-Form]\nmybuck(r, A, rho, C) = A*exp(-r/rho) - C/r^6\nmybm(r, A, rho) = A*exp(-r/rho)\n\n"
    text = "[Tabulation]\ntarget : LAMMPS\nnr : 5\ncutoff : 4.0\n\n" + forms + "[Pair]\n" + "\n".join(pairs) + "\n"
    tab = Configuration().read(io.StringIO(text))
    pots = {(p.speciesA, p.speciesB[0]): p for p in tab.potentials}
    for i, (A, rho, C, rd, rm, ra) in enumerate(lat):
        f1 = PFo.buck4(A, rho, C, rd, rm, ra)
        f2 = Buck4_SplinePotential(PFo.bornmayer(A, rho), PFo.buck(0.0, 1.0, C), rd, ra, rm)
        f3 = pots[("X%d" % i, "Y")].potentialFunction
        f4 = pots[("X%d" % i, "Z")].potentialFunction
        g1 = SplinePotential(PFo.zbl(14, 8), PFo.buck(A, rho, C), rd, ra)
        g2 = pots[("X%d" % i, "W")].potentialFunction
        for x in (0.5, rd, (rd + rm) / 2, rm, (rm + ra) / 2, ra, ra + 0.7):
            run.evaluations += 1
            vals = [f(x) for f in (f1, f2, f3, f4)]
            if not all(abs(v - vals[0]) <= 1e-10 * (1 + abs(vals[0])) for v in vals):
                bad.append(("routes", "buck4 A=%s rho=%s C=%s knots (%s, %s, %s) at r=%s: potentialforms.buck4 %r, Buck4_SplinePotential %r, as.buck4 %r, spline(... buck4_spline ...) %r" % (
                    A, rho, C, rd, rm, ra, x, vals[0], vals[1], vals[2], vals[3]), dict(params=[A, rho, C, rd, rm, ra])))
                break
            for name in ("deriv", "deriv2"):
                dv = [getattr(f, name)(x) for f in (f1, f2, f3, f4)]
                if not all(abs(v - dv[0]) <= 1e-9 * (1 + abs(dv[0])) for v in dv):
                    bad.append(("routes", "buck4 knots (%s, %s, %s) at r=%s: .%s differs between the routes: %s" % (rd, rm, ra, x, name, dv), dict(params=[A, rho, C, rd, rm, ra])))
            g3 = pots[("X%d" % i, "V")].potentialFunction
            f5 = pots[("X%d" % i, "U")].potentialFunction
            for what, a, b in (("exp spline zbl -> buck", g2, g3), ("buck4 spline", f4, f5)):
                try:
                    vb = b(x)
                except Exception as e:
                    vb = "%s: %s" % (type(e).__name__, e)
                if isinstance(vb, str) or abs(a(x) - vb) > 2e-3 * (1 + abs(a(x))):
                    bad.append(("routes", "%s, knots (%s, %s, %s) at r=%s: end potentials as built-in forms give %r, the same end potentials spelled as formulas give %r" % (
                        what, rd, rm, ra, x, a(x), vb), dict(params=[A, rho, C, rd, rm, ra])))
                    break
            # ... and their offered derivatives are those of the same function: outside the knots the end potential's own slope
            # and curvature (taken numerically, on the end potential, at THAT separation), between them the spline's
            for what, a, b in (("exp spline zbl -> buck", g2, g3), ("buck4 spline", f4, f5)):
                for name, tol in (("deriv", 1e-4), ("deriv2", 1e-2)):
                    if not (hasattr(a, name) and hasattr(b, name)):
                        continue
                    run.evaluations += 1
                    try:
                        da, db = getattr(a, name)(x), getattr(b, name)(x)
                    except Exception as e:
                        bad.append(("derivative-raises", "%s, knots (%s, %s, %s): .%s(%s) raised %s: %s" % (what, rd, rm, ra, name, x, type(e).__name__, e), dict(params=[A, rho, C, rd, rm, ra])))
                        break
                    if abs(da - db) > tol * (1 + abs(da)) and x not in (rd, rm, ra):
                        bad.append(("routes", "%s, knots (%s, %s, %s): .%s(%s) with the end potentials as built-in forms is %r, with the same end potentials spelled as formulas %r" % (
                            what, rd, rm, ra, name, x, da, db), dict(params=[A, rho, C, rd, rm, ra])))
                        break
            from atsim.potentials import plus, product
            mods = [("exp spline zbl -> sum(buck, constant), exclusive attach", SplinePotential(PFo.zbl(14, 8), plus(PFo.buck(A, rho, C), PFo.constant(0.5)), rd, ra), "T"),
                    ("exp spline zbl -> sum(buck, constant), inclusive attach", SplinePotential(PFo.zbl(14, 8), plus(PFo.buck(A, rho, C), PFo.constant(0.5)), rd, ra), "S"),
                    ("buck4 spline sum(bornmayer, constant) -> dispersion", Buck4_SplinePotential(plus(PFo.bornmayer(A, rho), PFo.constant(0.25)), PFo.buck(0.0, 1.0, C), rd, ra, rm), "R"),
                    ("exp spline zbl -> product(constant, buck)", SplinePotential(PFo.zbl(14, 8), product(PFo.constant(2.0), PFo.buck(A, rho, C)), rd, ra), "Q")]
            stop = False
            for what, ref, tag in mods:
                h = pots[("X%d" % i, tag)].potentialFunction
                try:
                    hv = h(x)
                except Exception as e:
                    hv = "%s: %s" % (type(e).__name__, e)
                if isinstance(hv, str) or abs(ref(x) - hv) > 1e-9 * (1 + abs(ref(x))):
                    bad.append(("routes", "%s, knots (%s, %s, %s) at r=%s: the Python classes give %r, the spline() modifier gives %r" % (what, rd, rm, ra, x, ref(x), hv),
                                dict(params=[A, rho, C, rd, rm, ra])))
                    stop = True
                    break
            if stop:
                break
            if abs(g1(x) - g2(x)) > 1e-10 * (1 + abs(g1(x))):
                bad.append(("routes", "exp spline zbl -> buck knots (%s, %s) at r=%s: SplinePotential %r, spline(... exp_spline ...) %r" % (rd, ra, x, g1(x), g2(x)), dict(params=[A, rho, C, rd, ra])))
                break


def main(prop, tier, seed):
    run = Run("C10", tier, seed)
    run.assumptions = ["start / end potentials are built-in forms with analytic first and second derivatives; knots on a half-integer lattice 0.5 <= detach < r_min < attach <= 3 where the linear systems are well conditioned",
                       "continuity is established through the defining equations evaluated with the implementation's own coefficients (relative 1e-7/1e-8), and exactly for the identity families"]
    try:
        res = tlc.run("Spline", "Spline.cfg", env={"EMIT": "1"}, coverage=True, keep=True, timeout=900)
        try:
            if res.violated:
                run.machinery("TLC: %s violated\n%s" % (res.violated, res.stdout[-1500:]))
            else:
                run.add_tlc("Spline", res)
                rows = tlc.read_ndjson(os.path.join(res.outdir, "rows.ndjson"))
                ident = tlc.read_ndjson(os.path.join(res.outdir, "identity.ndjson"))
                region = tlc.read_ndjson(os.path.join(res.outdir, "region.ndjson"))
        finally:
            tlc.cleanup(res)
        if not run.machinery_errors:
            bad = []
            if tier == "quick":
                rows = sorted(rows, key=lambda r: json.dumps(r["knots"]))[::2]
            # two passes over the knots in different orders within one process: a spline must not depend on splines built before
            check_rows(run, rows, bad)
            check_rows(run, rows[::-1][: max(4, len(rows) // 3)], bad)
            check_identity(run, ident, bad)
            check_routes(run, bad)
            # region table of the specification on one spline of each kind
            for c in region:
                kn = [fl(k) for k in c["knots"]]
                x = fl(c["r"])
                if x <= 0:
                    continue
                start, end = PFo.polynomial(5.0, -1.0, 0.5), PFo.polynomial(-2.0, 0.25)
                pot = SplinePotential(start, end, kn[0], kn[2]) if c["kind"] == "exp" else Buck4_SplinePotential(start, end, kn[0], kn[2], kn[1])
                coef = list(pot.splineCoefficients)
                piece = c["piece"]
                want = {"start": lambda: start(x), "end": lambda: end(x), "spline": lambda: math.exp(polyval(coef[:6], x)) + coef[6],
                        "quintic": lambda: polyval(coef[:6], x), "cubic": lambda: polyval(coef[6:], x)}[piece]()
                run.evaluations += 1
                if abs(pot(x) - want) > 1e-8 * (1 + abs(want)):
                    bad.append(("region", "%s spline knots %s at r=%s: value %r, the specification's piece '%s' gives %r" % (c["kind"], kn, x, pot(x), piece, want), dict(case=c)))
            run.replayed += len(rows) * len(PAIRS) * 2 + len(ident) + len(region)
            for r in rows:
                for p in PAIRS:
                    run.distinct(json.dumps([r["knots"], p[0], p[2]]))
            run.sample(dict(knots=rows[0]["knots"], buck4_equation_1=rows[0]["buck4"][0], pairs=[(p[0], p[2]) for p in PAIRS][:3]))
            run.sample(dict(identity=ident[0]))
            seen = set()
            for clause, msg, case in bad:
                if (clause, msg[:60]) in seen:
                    continue
                seen.add((clause, msg[:60]))
                run.violation(dict(engine="splines", clause=clause), "[%s] %s" % (clause, msg), case)
            run.rule = "cases = knot triples (TLC) x 10 start/end pairs of built-in forms x {buck4, exp} (defining equations, C2 continuity, regions) + identity family + construction routes; non-trivial = every (knots, pair); distinct by (knots, pair)"
    except tlc.TLCError as e:
        run.machinery(str(e))
    return run.finish()
