"""Trace validation (code -> specification) on the models the repository itself ships: every potable input file under
/repo (tests' resources, the manual's example files, the quick start) is tabulated by the real code for every target of
its family; the written bytes are read the way the consumer reads them and every block of numbers is identified by
matching the printed values against the model's OWN functions (the Potential / EAMPotential objects the implementation
built, evaluated by the harness on the grid the header declares).  An observation is the SET of declared functions (and
scalings) consistent with the printed numbers - two species may share a function - and TLC decides whether the record
sequence is a behaviour of spec/Layout.tla for that model (spec/LayoutTrace.tla, `fns' records).

These are the realistic models (transcendental forms, splines, table forms, multi-range definitions, 10 000-row grids)
that the polynomial probes of the replay do not contain."""
import configparser, glob, io, json, math, os, re

from lib import boot, tlc, formats

P = boot.boot()
from atsim.potentials.config import Configuration, ConfigParser, ConfigParserOverrideTuple    # noqa: E402

FAMILY = {"LAMMPS": "pair", "DLPOLY": "pair", "DL_POLY": "pair", "GULP": "pair", "excel": "pair",
          "setfl": "eam", "lammps_eam_alloy": "eam", "DL_POLY_EAM": "eam", "excel_eam": "eam",
          "setfl_fs": "fs", "lammps_eam_fs": "fs", "DL_POLY_EAM_fs": "fs", "excel_eam_fs": "fs", "eam_adp": "adp", "lammps_eam_adp": "adp"}
TARGETS = {"pair": ["LAMMPS", "DLPOLY", "GULP"], "eam": ["setfl", "DL_POLY_EAM"], "fs": ["setfl_fs", "DL_POLY_EAM_fs"], "adp": ["eam_adp"]}
SPELL = {"DLPOLY": "DL_POLY"}


def example_files():
    root = boot.REPO
    return sorted(glob.glob(os.path.join(root, "**", "*.aspot"), recursive=True)), root


def tab_keys(text):
    cp = configparser.RawConfigParser(strict=False, delimiters=("=", ":"))
    cp.optionxform = str
    cp.read_string(text)
    return {k.strip(): v for k, v in cp.items("Tabulation")} if cp.has_section("Tabulation") else {}


def quantum(tok):
    """half a unit in the last printed place of a number token"""
    t = tok.strip().lower().replace("d", "e")
    m = re.match(r"^[-+]?(\d*)\.?(\d*)(?:e([-+]?\d+))?$", t)
    if not m:
        return 0.0
    dec = len(m.group(2))
    ex = int(m.group(3)) if m.group(3) else 0
    return 0.5 * 10.0 ** (ex - dec)


def near(tok, v, extra=0.0):
    try:
        t = float(tok)
    except ValueError:
        return False
    if math.isnan(t) or math.isnan(v):
        return False
    return abs(t - v) <= 1.02 * quantum(tok) + 1e-9 * abs(v) + extra


class Model(object):
    """the implementation's own objects for one (file, target, grid), and the abstract model of Layout.tla"""

    def __init__(self, path, text, tgt, small):
        self.path, self.tgt = path, tgt
        keys = tab_keys(text)
        fam = FAMILY[tgt]
        ov, ad = [ConfigParserOverrideTuple("Tabulation", "target", SPELL.get(tgt, tgt))], []
        if small:
            nr = 24 if tgt == "DLPOLY" else 21
            for step, count, n in (("dr", "nr", nr), ("drho", "nrho", 11)):
                if count == "nrho" and fam == "pair":
                    continue
                if step in keys and "cutoff" + ("_rho" if count == "nrho" else "") in keys:
                    ov.append(ConfigParserOverrideTuple("Tabulation", step, None))
                (ov if count in keys else ad).append(ConfigParserOverrideTuple("Tabulation", count, str(n)))
        elif tgt == "DLPOLY":
            # the file's own grid, made a multiple of four
            cp0 = ConfigParser(io.StringIO(text))
            n0 = cp0.tabulation.nr
            if n0 % 4:
                n4 = n0 + (4 - n0 % 4)
                if "dr" in keys and "cutoff" in keys:
                    ov.append(ConfigParserOverrideTuple("Tabulation", "dr", None))
                (ov if "nr" in keys else ad).append(ConfigParserOverrideTuple("Tabulation", "nr", str(n4)))
        self.cp = ConfigParser(io.StringIO(text), overrides=ov, additional=ad)
        self.tab = Configuration().read_from_parser(self.cp)
        t = self.tab
        self.nr, self.cutoff = t.nr, t.cutoff
        self.nrho, self.cutoff_rho = (t.nrho, t.cutoff_rho) if fam != "pair" else (0, 0.0)
        labels = set()
        for p in t.potentials:
            labels |= {p.speciesA, p.speciesB}
        eams = list(getattr(t, "eam_potentials", []) or [])
        for e in eams:
            labels.add(e.species)
        self.dips = list(getattr(t, "dipole_potentials", []) or [])
        self.quads = list(getattr(t, "quadrupole_potentials", []) or [])
        for p in self.dips + self.quads:
            labels |= {p.speciesA, p.speciesB}
        self.labels = sorted(labels)
        self.eams = eams
        rk = self.rank
        embed_decl = sorted({rk(e.species) for e in self.cp.eam_embed}) if fam != "pair" else []
        if fam == "fs":
            dens_decl = sorted({(rk(d.species.from_species), rk(d.species.to_species)) for d in self.cp.eam_density_fs})
        elif fam != "pair":
            dens_decl = sorted({(rk(d.species), 0) for d in self.cp.eam_density})
        else:
            dens_decl = []
        self.m = dict(fam=fam, tgt=tgt, nr=self.nr, nrho=self.nrho, pots=[[rk(p.speciesA), rk(p.speciesB)] for p in t.potentials],
                      els=[rk(e.species) for e in eams], embedDecl=embed_decl, densDecl=[list(d) for d in dens_decl],
                      dip=[[rk(p.speciesA), rk(p.speciesB)] for p in self.dips], quad=[[rk(p.speciesA), rk(p.speciesB)] for p in self.quads])
        # candidate functions: (abstract id, grid, callable)
        self.cands = []
        for kind, plist in (("pair", t.potentials), ("dip", self.dips), ("quad", self.quads)):
            for p in plist:
                a, b = sorted((rk(p.speciesA), rk(p.speciesB)))
                self.cands.append((dict(f=kind, s=a, t=b), "r", p.energy, p))
        for e in eams:
            s = rk(e.species)
            if s in embed_decl:
                self.cands.append((dict(f="embed", s=s, t=0), "rho", e.embeddingFunction, None))
            if fam == "fs":
                for lab, fn in e.electronDensityFunction.items():
                    if (s, rk(lab)) in dens_decl:
                        self.cands.append((dict(f="dens", s=s, t=rk(lab)), "r", fn, None))
            elif (s, 0) in dens_decl:
                self.cands.append((dict(f="dens", s=s, t=0), "r", e.electronDensityFunction, None))

    def rank(self, label):
        return self.labels.index(label) + 1 if label in self.labels else -1

    def x(self, grid, k):
        if grid == "rho":
            return k * self.cutoff_rho / (self.nrho - 1)
        if self.tgt == "DLPOLY":
            return k * self.cutoff / (self.nr - 4)
        return k * self.cutoff / (self.nr - 1)

    def identify(self, toks, grid, k0, kinds, scalings=("none",), force=False):
        """every declared function (and scaling) whose values on the grid are the printed numbers"""
        hits = []
        xs = [self.x(grid, k0 + j) for j in range(len(toks))]
        if all(near(t, 0.0) for t in toks):
            hits.append(dict(f="zero", s=0, t=0, scl="none"))
        for fid, g, fn, pot in self.cands:
            if fid["f"] not in kinds or g != grid:
                continue
            for scl in scalings:
                ok = True
                for xx, tok in zip(xs, toks):
                    # the separation of a row is known to the consumer only to the printed precision of the header (or of the
                    # row's own r): where a model jumps exactly at a grid point (a range start, the end of a table form) either
                    # side is the value "at that separation"
                    good = False
                    vs = []
                    for xv in (xx, xx * (1 - 2e-9), xx * (1 + 2e-9)):
                        try:
                            if force:
                                v = pot.force(xv) * (xv if scl == "r" else 1.0)
                                extra = 1e-5 * (abs(v) + abs(pot.energy(xv))) + 1e-9
                            else:
                                v = fn(xv)
                                v = v * xv if scl == "r" else v
                                extra = 0.0
                        except Exception:
                            continue
                        vs.append(v)
                        if near(tok, v, extra):
                            good = True
                            break
                    if not good and len(vs) > 1:
                        # a value taken somewhere inside that interval of separations
                        try:
                            good = min(vs) - quantum(tok) <= float(tok) <= max(vs) + quantum(tok)
                        except ValueError:
                            good = False
                    if not good:
                        ok = False
                        break
                if ok:
                    hits.append(dict(fid, scl=scl))
        return hits or [dict(f="unknown", s=0, t=0, scl="none")]

    def grid_index(self, tok, grid, upto):
        ks = [k for k in range(0, upto) if near(tok, self.x(grid, k))]
        return ks[0] if ks else -1


def observe(M, data):
    m, tgt = M.m, M.tgt
    ev = []
    if tgt == "LAMMPS":
        for b in formats.parse_lammps_table(data):
            a, bb = b["title"].split("-")
            ev.append(dict(t="title", a=M.rank(a), b=M.rank(bb)))
            ev.append(dict(t="hdr", N=b["N"], lo=M.grid_index(b["lo"], "r", 3), hi=M.nr - 1 if near(b["hi"], M.x("r", M.nr - 1)) else -1))
            k0 = M.grid_index(b["rows"][0][1], "r", 3) if b["rows"] else -1
            hv = M.identify([r[2] for r in b["rows"]], "r", k0, ("pair",))
            hf = M.identify([r[3] for r in b["rows"]], "r", k0, ("pair",), force=True)
            both = [h for h in hv if any(h["f"] == g["f"] and h["s"] == g["s"] and h["t"] == g["t"] for g in hf)]
            ev.append(dict(t="rows", fns=both or [dict(f="unknown", s=0, t=0, scl="none")], n=len(b["rows"]), k0=k0, n0=int(b["rows"][0][0]) if b["rows"] else -1))
    elif tgt == "DLPOLY":
        t = formats.parse_dlpoly_table(data)
        ev.append(dict(t="title"))
        ev.append(dict(t="hdr", ngrid=t["ngrid"], delden=M.nr - 4 if near(t["delpot"], M.cutoff / (M.nr - 4)) else -1))
        for b in t["blocks"]:
            ev.append(dict(t="label", a=M.rank(b["a"]), b=M.rank(b["b"])))
            ev.append(dict(t="recs", sec="E", fns=M.identify(b["E"], "r", 1, ("pair",)), k0=1, n=len(b["E"]), per=4))
            ev.append(dict(t="recs", sec="F", fns=M.identify(b["F"], "r", 1, ("pair",), scalings=("r",), force=True), k0=1, n=len(b["F"]), per=4))
    elif tgt == "GULP":
        for b in formats.parse_gulp(data):
            ev.append(dict(t="spline"))
            ev.append(dict(t="ghdr", a=M.rank(b["a"]), b=M.rank(b["b"])))
            ev.append(dict(t="grows", fns=M.identify([r[0] for r in b["rows"]], "r", 0, ("pair",)), k0=0, n=len(b["rows"])))
    elif tgt in ("setfl", "setfl_fs", "eam_adp"):
        f = formats.parse_setfl(data, {"setfl": "alloy", "setfl_fs": "fs", "eam_adp": "adp"}[tgt])
        ev += [dict(t="comment")] * 3
        ev.append(dict(t="els", names=[M.rank(n) for n in f["names"]]))
        ev.append(dict(t="grid", nrho=f["nrho"], nr=f["nr"]))
        for e, name in enumerate(f["names"]):
            ev.append(dict(t="elhdr", sp=M.rank(name)))
            ev.append(dict(t="cells", sec="embed", fns=M.identify(f["els"][e]["embed"], "rho", 0, ("embed",)), grid="rho", k0=0, n=len(f["els"][e]["embed"])))
            for dv in f["els"][e]["dens"]:
                ev.append(dict(t="cells", sec="dens", fns=M.identify(dv, "r", 0, ("dens",)), grid="r", k0=0, n=len(dv)))
        for sec, arrs in (("pair", f["pairs"]), ("dip", f["dip"] or []), ("quad", f["quad"] or [])):
            for arr in arrs:
                ev.append(dict(t="cells", sec=sec, fns=M.identify(arr, "r", 0, (sec,), scalings=("none", "r")), grid="r", k0=0, n=len(arr)))
    elif tgt in ("DL_POLY_EAM", "DL_POLY_EAM_fs"):
        t = formats.parse_tabeam(data)
        ev.append(dict(t="title"))
        ev.append(dict(t="count", n=t["count"]))
        for b in t["blocks"]:
            kw = b["kw"]
            ev.append(dict(t="blk", kw=kw, who=[M.rank(w) for w in b["who"]], n=b["n"]))
            grid = "rho" if kw == "embe" else "r"
            ev.append(dict(t="cells", sec=kw, fns=M.identify(b["vals"], grid, 0, ({"pair": "pair", "embe": "embed", "dens": "dens"}[kw],)), grid=grid, k0=0, n=len(b["vals"])))
    return ev


def canonical_pair_order(m, ev):
    """the statement does not order the blocks of a pair table: list the declared potentials in file order (as layout_trace)"""
    if m["fam"] != "pair":
        return m
    keys = [tuple(sorted((e["a"], e["b"]))) for e in ev if e["t"] in ("title", "label", "ghdr") and "a" in e]
    rest, ordered = list(m["pots"]), []
    for k in keys:
        hit = [p for p in rest if tuple(sorted(p)) == k]
        if hit:
            ordered.append(hit[0])
            rest.remove(hit[0])
    mt = dict(m, pots=ordered + rest)
    oi = 0
    for e in ev:
        if e["t"] in ("title", "label", "ghdr") and "a" in e and oi < len(mt["pots"]):
            if [e["b"], e["a"]] == mt["pots"][oi]:
                e["a"], e["b"] = e["b"], e["a"]
            oi += 1
    return mt


def validate(run, targets, tier):
    files, root = example_files()
    traces, meta = [], []
    skipped = []
    for path in files:
        text = open(path).read()
        keys = tab_keys(text)
        fam = FAMILY.get(keys.get("target", "").strip())
        if fam is None:
            skipped.append((os.path.relpath(path, root), "target %r" % keys.get("target")))
            continue
        for tgt in TARGETS[fam]:
            if tgt not in targets:
                continue
            for small in ((True,) if tier == "quick" else (True, False)):
                rel = os.path.relpath(path, root)
                try:
                    M = Model(path, text, tgt, small)
                    out = io.StringIO()
                    M.tab.write(out)
                    data = out.getvalue()
                except Exception as e:
                    run.violation(dict(engine="layout", target=tgt, clause="well-formed-model-refused", route="example"),
                                  "%s for target %s (%s grid): the implementation raised %s: %s" % (rel, tgt, "small" if small else "its own", type(e).__name__, str(e)[:200]), dict(file=rel, target=tgt))
                    continue
                run.evaluations += 1
                try:
                    ev = observe(M, data)
                except formats.FormatError as e:
                    run.violation(dict(engine="layout", target=tgt, clause="unreadable", route="example"), "%s for target %s: the consumer cannot read the file: %s" % (rel, tgt, e), dict(file=rel, target=tgt))
                    continue
                mt = canonical_pair_order(M.m, ev)
                traces.append(dict(m=mt, ev=ev, canary=False))
                meta.append(dict(file=rel, target=tgt, grid="small" if small else "own", labels=M.labels))
    if not traces:
        return
    can = json.loads(json.dumps(traces[0]))
    can["canary"] = True
    groups = [k for k, e in enumerate(can["ev"]) if "fns" in e]
    if groups:
        can["ev"][groups[-1]]["fns"] = [dict(f="pair", s=9, t=9, scl="none")]
    traces.append(can)
    meta.append(dict(file="canary", target="", grid="", labels=[]))
    res, rep = tlc.batch_validate("LayoutTrace", "LayoutTrace.cfg", traces, timeout=1800)
    run.add_tlc("LayoutTrace(%d example traces)" % len(traces), res, exhaustive=False)
    n_ok = 0
    for i, t in enumerate(traces):
        reached, total, complete = rep[i]
        if t["canary"]:
            if complete == 1:
                run.machinery("example traces: the corrupted canary trace was accepted")
            continue
        run.traces += 1
        run.distinct("example:%s:%s:%s" % (meta[i]["file"], meta[i]["target"], meta[i]["grid"]))
        if complete != 1:
            nxt = t["ev"][reached - 1] if reached - 1 < len(t["ev"]) else "(the writer model expects more records)"
            run.violation(dict(engine="layout", target=t["m"]["tgt"], clause="trace-rejected", route="example"),
                          "%s tabulated for %s (%s grid): the recorded execution is not a behaviour of the specification: matched %d of %d records; next observed record %s" % (
                              meta[i]["file"], meta[i]["target"], meta[i]["grid"], reached - 1, total, json.dumps(nxt)[:500]), dict(trace=dict(m=t["m"], ev=t["ev"][:reached + 1]), meta=meta[i]))
        else:
            n_ok += 1
    run.notes["example_traces"] = dict(files=len(files), traces=len(traces) - 1, accepted=n_ok, skipped=skipped)
