"""C12: determinism and purity.  (M) spec/Session.tla (output is a function of the model alone over processes with
different hash seeds and arbitrary build / evaluate / write histories; FormEval.tla covers evaluation from arbitrary symbol
tables, see C09); (R) reference outputs from fresh processes under several PYTHONHASHSEED values, then every history of
operations TLC emits replayed in one process and compared with the references."""
import io, json, os, random, subprocess, sys, hashlib

from lib import boot, tlc, formats
from lib.harness import Run

P = boot.boot()
from atsim.potentials.config import Configuration              # noqa: E402

PRE = "[Tabulation]\ntarget : %s\nnr : 12\ncutoff : 5.5\nnrho : 6\ncutoff_rho : 5.0\n\n"
MODELS = {
    # 1: under-specified EAM / Finnis-Sinclair models: species that appear only in the density section are zero-filled
    1: dict(targets=["setfl", "DL_POLY_EAM", "excel_eam", "eam_adp"], text="""[EAM-ADP-Dipole]
Cu-Cu : as.polynomial 0 0.25
Al-Cu : as.constant 0.5
[EAM-ADP-Quadrupole]
Cu-Al : as.polynomial 0.125 1
[EAM-Embed]
Cu : as.sqrt -1.0
[EAM-Density]
Al : as.exponential 2.0 -1
Fe : as.bornmayer 10.0 0.5
Ni : as.polynomial 1 0.5
Cu : as.bornmayer 5.0 0.7
Ag : as.constant 2
[Pair]
Cu-Cu : as.buck 1000.0 0.3 10.0
Al-Cu : as.lj 0.1 2.0
"""),
    # 2: custom forms sharing sub-forms with different arguments, multi-range, spline, table form
    2: dict(targets=["LAMMPS", "GULP", "DL_POLY"], text="""[Potential-Form]
g(r, a) = a * exp(-r) + 1/(r+1)
f(r, a, b) = g(r, a) - g(r, b) + a*b
h(r, n) = if(n < 1, 1 + (sqrt(400 - r) - sqrt(400 - r)), h2(r, n-1) + n)
h2(r, n) = h(r, n) * 1
series(r, A, n) = var s := 0; while (n > 0) { s += A/r^n; n -= 1; }; s
[Table-Form:tf]
x : 0.0 1.0 2.0 3.0 4.0 6.0
y : 5.0 3.0 2.0 1.5 1.2 1.0
[Pair]
O-O : f 1.0 2.0
O-U : >0 f 2.0 1.0 >1.75 g 3.0 >=2.5 sum(g 3.0, tf)
U-U : spline(>0 as.zbl 92 92 >=0.8 exp_spline >=1.4 as.buck 294.64 0.327022 0.0)
U-Zr : product(h 3, as.polynomial 1 0.5)
Zr-Zr : as.buck4 1000.0 0.3 32.0 1.0 1.5 2.5
Zr-O : >0 as.buck 1000.0 0.3 32.0 >2.0 as.zero
O-Zr2 : series 2.0 3
U-Zr2 : series 2.0 3
"""),
    # 3: a second file that re-uses the form names f and g with different bodies and the table-form name tf with different data
    # (and another interpolation-free spelling of its data), and overrides a built-in element
    3: dict(targets=["LAMMPS", "setfl", "excel"], text="""[Potential-Form]
g(r, a) = a / (r + 2)
f(r, a, b) = g(r, b) * a + b
[Table-Form:tf]
xy : 0.0 1.0  1.0 4.0  2.0 2.0  3.0 6.5  4.0 7.0  6.0 0.5
[Species]
Cu.atomic_mass : 99.5
Cu.lattice_constant : 3.61
Cu.lattice_type : bcc
[EAM-Embed]
Cu : as.sqrt -1.0
[EAM-Density]
Cu : as.bornmayer 5.0 0.7
[Pair]
Cu-Cu : f 1.0 2.0
O-O : f 2.0 1.0
Zr-O : >0 as.buck 1000.0 0.3 32.0 >3.0 as.constant 1
Zr-Zr : sum(tf, as.constant 0.25)
"""),
    4: dict(targets=["setfl_fs", "DL_POLY_EAM_fs"], text="""[EAM-Embed]
Fe : as.sqrt -1.0
[EAM-Density]
Al->Fe : as.bornmayer 4.0 0.6
Fe->Al : as.bornmayer 3.0 0.5
Ni->Cu : as.constant 1
[Pair]
Fe-Fe : as.buck 1000.0 0.3 10.0
"""),
}
RS = [0.5, 1.0, 1.75, 2.0, 2.25, 2.5, 3.0, 4.25]


def tabulate(mid, target):
    text = PRE % target + MODELS[mid]["text"]
    tab = Configuration().read(io.StringIO(text))
    return tab


def write(tab, target):
    out = io.BytesIO() if target.startswith("excel") else io.StringIO()
    tab.write(out)
    data = out.getvalue()
    return data if isinstance(data, bytes) else data.encode()


def energies(tab):
    vals = []
    for p in tab.potentials:
        for r in RS:
            vals.append(["%s-%s" % (p.speciesA, p.speciesB), r, repr(p.energy(r)), repr(p.force(r))])
    return vals


def cells(data):
    wb = formats.parse_xlsx(data)
    return json.dumps({k: v["cols"] for k, v in wb.items()}, sort_keys=True, default=str)


def reference_main():
    """fresh process: print {model: {target: sha + energies}}"""
    out = {}
    for mid in MODELS:
        for target in MODELS[mid]["targets"]:
            tab = tabulate(mid, target)
            data = write(tab, target)
            out["%d:%s" % (mid, target)] = dict(sha=hashlib.sha256(data).hexdigest(), n=len(data),
                                                cells=cells(data) if target.startswith("excel") else None,
                                                header=data[:400].decode("latin1") if not target.startswith("excel") else "", energies=energies(tab))
    # the same through the command line, with edits and species filters (option processing must not depend on the seed either)
    import tempfile, shutil
    from engines.layout import run_cli
    d = tempfile.mkdtemp(prefix="verif-session-")
    try:
        scenarios = {
            "cli-add": (2, "LAMMPS", ["-a", "Pair:Xe-Xe=as.lj 0.02 4.0", "-a", "Pair:Kr-Kr=as.lj 0.01 3.6", "-a", "Pair:Ar-Ar=as.lj 0.01 3.4", "-a", "Pair:Ne-Ne=as.constant 1"]),
            "cli-edit": (2, "GULP", ["-e", "Pair:O-O=f 3.0 1.0", "-e", "Tabulation:nr=9", "-r", "Pair:U-Zr", "-a", "Pair:He-He=as.zero", "-a", "Potential-Form:k(r)=r"]),
            "cli-exclude": (1, "setfl", ["--exclude-species", "Fe", "Ag"]),
            "cli-include": (4, "setfl_fs", ["--include-species", "Fe", "Al", "Ni"]),
        }
        for name, (mid, target, args) in scenarios.items():
            inp, outp = os.path.join(d, name + ".ini"), os.path.join(d, name + ".out")
            with open(inp, "w") as f:
                f.write(PRE % target + MODELS[mid]["text"])
            status, so, se = run_cli([inp, outp] + args)
            data = open(outp, "rb").read() if os.path.exists(outp) else b""
            out[name] = dict(sha=hashlib.sha256(data).hexdigest() + ":%s" % status, n=len(data), cells=None, header=data[:600].decode("latin1"), energies=[])
        # the models the repository ships, as they stand, through the command line; each twice in this process
        import glob
        for path in sorted(glob.glob(os.path.join(boot.REPO, "**", "*.aspot"), recursive=True)):
            rel = os.path.relpath(path, boot.REPO)
            shas = []
            for rep in (1, 2):
                outp = os.path.join(d, "shipped.out")
                if os.path.exists(outp):
                    os.remove(outp)
                status, so, se = run_cli([path, outp])
                data = open(outp, "rb").read() if os.path.exists(outp) else b""
                shas.append(hashlib.sha256(data).hexdigest() + ":%s" % status)
            out["shipped:" + rel] = dict(sha=shas[0], n=len(data), cells=None, header=data[:600].decode("latin1"), energies=[], twice=shas[0] == shas[1])
    finally:
        shutil.rmtree(d, ignore_errors=True)
    json.dump(out, sys.stdout)


def true_cli(text, target, workdir):
    """the command line in a process of its own with the logging configuration the real potable sets up (the in-process
    run_cli of the harness silences logging): bytes of the output file, exit status"""
    inp, outp = os.path.join(workdir, "cli-%s.ini" % target), os.path.join(workdir, "cli-%s.out" % target)
    with open(inp, "w") as f:
        f.write(PRE % target + text)
    code = ("import sys; sys.path.insert(0, %r); from lib import boot; boot.boot(quiet=False); "
            "from atsim.potentials.tools.potable import main; sys.argv = ['potable', %r, %r]; main()" % (boot.VERIF, inp, outp))
    p = subprocess.run([sys.executable, "-W", "ignore", "-c", code], cwd=boot.VERIF, stdout=subprocess.PIPE, stderr=subprocess.PIPE, universal_newlines=True, timeout=600)
    data = open(outp, "rb").read() if os.path.exists(outp) else b""
    return data, p.returncode, p.stderr[-300:]


def around_cli(text, target, workdir):
    """one process, logging untouched: tabulate through the API, run the command line's main() on the same model, tabulate
    through the API again - three outputs of one model"""
    inp, outp = os.path.join(workdir, "around-%s.ini" % target), os.path.join(workdir, "around-%s.out" % target)
    with open(inp, "w") as f:
        f.write(PRE % target + text)
    code = ("import sys, io, hashlib; sys.path.insert(0, %r); from lib import boot; boot.boot(quiet=False)\n"
            "from atsim.potentials.config import Configuration\n"
            "from atsim.potentials.tools.potable import main\n"
            "def api():\n"
            "    o = io.StringIO(); Configuration().read(open(%r)).write(o); return hashlib.sha256(o.getvalue().encode()).hexdigest()\n"
            "a = api()\n"
            "sys.argv = ['potable', %r, %r]\n"
            "try:\n    main()\nexcept SystemExit:\n    pass\n"
            "b = hashlib.sha256(open(%r, 'rb').read()).hexdigest()\n"
            "c = api()\n"
            "sys.stdout.write('SHAS %%s %%s %%s\\n' %% (a, b, c))\n" % (boot.VERIF, inp, inp, outp, outp))
    p = subprocess.run([sys.executable, "-W", "ignore", "-c", code], cwd=boot.VERIF, stdout=subprocess.PIPE, stderr=subprocess.PIPE, universal_newlines=True, timeout=600)
    for ln in p.stdout.splitlines():
        if ln.startswith("SHAS "):
            return ln.split()[1:], ""
    return None, p.stderr[-400:]


def api_energy_fn():
    import math

    def f(r):
        return 1.5 * math.exp(-r) + 0.25 * r * r
    return f


def api_build(kind, f):
    """Python-API pair models around one energy callable f (models 4 and 5 of Session.tla: coarse / default differentiation step)"""
    from atsim.potentials import Potential
    from atsim.potentials.pair_tabulation import LAMMPS_PairTabulation, DLPoly_PairTabulation
    if kind == "coarse":
        return LAMMPS_PairTabulation([Potential("A", "B", f, h=0.5)], 4.0, 9)
    if kind == "fine":
        return LAMMPS_PairTabulation([Potential("A", "B", f)], 4.0, 9)
    return DLPoly_PairTabulation([Potential("B", "C", f, h=0.01), Potential("A", "A", f)], 4.0, 12)


API_KIND = {4: "coarse", 5: "fine"}


def api_reference(kind):
    tab = api_build(kind, api_energy_fn())
    data = write(tab, "LAMMPS")
    return dict(sha=hashlib.sha256(data).hexdigest(), cells=None, energies=energies(tab))


def mutable_callable_history(run):
    """a parametrised energy callable whose set_parameters() re-creates its .deriv closure (a fitting loop that re-tabulates the
    same Potential objects): what is written is the model as it is when write() is called - energy and force columns from the
    same parameters - whatever the parameters were when the Potential / tabulation objects were created"""
    from atsim.potentials import Potential
    from atsim.potentials.pair_tabulation import LAMMPS_PairTabulation, DLPoly_PairTabulation

    class LJ(object):
        def __init__(self, eps, sig):
            self.set_parameters(eps, sig)

        def set_parameters(self, eps, sig):
            self.eps, self.sig = eps, sig
            self.deriv = lambda r: 4.0 * eps * (-12.0 * sig ** 12 / r ** 13 + 6.0 * sig ** 6 / r ** 7)

        def __call__(self, r):
            return 4.0 * self.eps * ((self.sig / r) ** 12 - (self.sig / r) ** 6)

    def table(cls, f, nr):
        b = io.StringIO()
        cls([Potential("A", "B", f)], 4.0, nr).write(b)
        return b.getvalue()
    n = 0
    for cls, nr in ((LAMMPS_PairTabulation, 9), (DLPoly_PairTabulation, 12)):
        want = table(cls, LJ(0.25, 1.5), nr)
        f = LJ(0.1, 2.0)
        pot = Potential("A", "B", f)
        tab = cls([pot], 4.0, nr)
        first = io.StringIO()
        tab.write(first)                       # written once with the old parameters
        f.set_parameters(0.25, 1.5)
        b = io.StringIO()
        tab.write(b)
        n += 2
        if b.getvalue() != want:
            a, c = want.splitlines(), b.getvalue().splitlines()
            first_diff = next(("line %d: %r, expected %r" % (i + 1, y, x) for i, (x, y) in enumerate(zip(a, c)) if x != y), "length differs")
            run.violation(dict(engine="session", clause="output-differs", excel=False, same_cells=False, model="api-mutable"),
                          "[output-differs] %s of a callable re-parametrised after the Potential was created: the table is not the one of a model built with the new parameters (%s)" % (cls.__name__, first_diff), dict(cls=cls.__name__))
    return n


def api_histories(run):
    """models composed through the Python API that share one energy callable (and differ in the step of the numerical
    derivative, or in the species): every ordering of building / writing / evaluating them must give, for each model, the
    bytes it gives when it is the only thing the process ever built"""
    import itertools
    energy_fn, build = api_energy_fn, api_build

    def out(tab):
        b = io.StringIO()
        tab.write(b)
        return b.getvalue()
    kinds = ("coarse", "fine", "dlpoly")
    ref = {k: out(build(k, energy_fn())) for k in kinds}
    n = 0
    for L in (2, 3):
        for order in itertools.permutations(kinds, L):
            for interleave in (False, True):
                shared = energy_fn()
                tabs = {}
                got = {}
                if interleave:          # build everything first, then write in the same order
                    for k in order:
                        tabs[k] = build(k, shared)
                    for k in order:
                        got[k] = out(tabs[k])
                else:
                    for k in order:
                        tabs[k] = build(k, shared)
                        got[k] = out(tabs[k])
                for k in order:
                    n += 1
                    if got[k] != ref[k]:
                        a, b = ref[k].splitlines(), got[k].splitlines()
                        first = next(("line %d: %r, alone %r" % (i + 1, y, x) for i, (x, y) in enumerate(zip(a, b)) if x != y), "length differs")
                        run.violation(dict(engine="session", clause="output-differs", excel=False, same_cells=False, model="api-" + k),
                                      "[output-differs] Python API models sharing one energy callable, built in the order %s (%s): the table of %r differs from the one it gives alone (%s)" % (
                                          list(order), "all built, then written" if interleave else "each written when built", k, first), dict(order=list(order), kind=k))
                        return n
    return n


_REF = {}
_HIST = []


def _history_chunk(rng):
    lo, hi, seed = rng
    bad, n = [], 0
    ids = sorted(MODELS)[:3]
    for hidx in range(lo, hi):
        hist = _HIST[hidx]
        rnd = random.Random(seed * 1000 + hidx)
        tabs = {}
        written = set()
        shared = api_energy_fn()          # the component object models 4 and 5 of this history share
        for step, op in enumerate(hist):
            if op["id"] in API_KIND:
                mid, target = op["id"], "LAMMPS"
                key = (mid, target)
                if op["op"] == "build" or key not in tabs:
                    tabs[key] = api_build(API_KIND[mid], shared)
                ref = _REF["api:" + API_KIND[mid]]
            else:
                mid = ids[op["id"] - 1]
                target = MODELS[mid]["targets"][(hidx + step) % len(MODELS[mid]["targets"])]
                key = (mid, target)
                if op["op"] == "build" or key not in tabs:
                    tabs[key] = tabulate(mid, target)
                ref = _REF["%d:%s" % key]
            tab = tabs[key]
            n += 1
            if op["op"] == "write":
                written.add(key)
                data = write(tab, target)
                if hashlib.sha256(data).hexdigest() != ref["sha"]:
                    excel = target.startswith("excel")
                    same_cells = excel and cells(data) == ref["cells"]
                    bad.append(("output-differs", excel, same_cells, "history %s: output of model %d for %s differs from the fresh-process reference%s" % (
                        [(o["op"], o["id"]) for o in hist], mid, target, " (cells are equal: only the container differs)" if same_cells else ""), hist))
            elif op["op"] == "fail":
                # a potential of the model is evaluated where its formula is not defined: the call fails, the model is what it was
                pots = {"%s-%s" % (p.speciesA, p.speciesB): p for p in tab.potentials}
                try:
                    v = pots["U-Zr"].energy(500.0)        # the innermost of the mutually recursive calls leaves its domain (sqrt(400 - r))
                    bad.append(("failure-swallowed", False, False, "history %s: product(h 3, ...) at r=500, where h needs sqrt(400 - r), returned %r" % ([(o["op"], o["id"]) for o in hist], v), hist))
                except Exception:
                    pass
            elif op["op"] == "eval":
                pots = {"%s-%s" % (p.speciesA, p.speciesB): p for p in tab.potentials}
                todo = list(ref["energies"])
                rnd.shuffle(todo)
                for name, r, e, f in todo:
                    got = (repr(pots[name].energy(r)), repr(pots[name].force(r)))
                    if got != (e, f):
                        bad.append(("energy-differs", False, False, "history %s: %s at r=%s of model %d gives %s, a fresh process gives %s" % (
                            [(o["op"], o["id"]) for o in hist], name, r, mid, got, (e, f)), hist))
                        break
        # every model object the history wrote is written once more at its end: a second write() of one object gives the same bytes
        for key in sorted(written, key=str):
            mid, target = key
            ref = _REF["api:" + API_KIND[mid]] if mid in API_KIND else _REF["%d:%s" % key]
            # ... after a write() that the destination refused (a file that has been closed): the object is what it was
            try:
                closed = io.BytesIO() if target.startswith("excel") else io.StringIO()
                closed.close()
                tabs[key].write(closed)
            except Exception:
                pass
            data = write(tabs[key], target)
            n += 1
            if hashlib.sha256(data).hexdigest() != ref["sha"]:
                excel = target.startswith("excel")
                same_cells = excel and cells(data) == ref["cells"]
                bad.append(("output-differs", excel, same_cells, "history %s, then every written model written again: the second write() of model %s for %s differs from the fresh-process reference%s" % (
                    [(o["op"], o["id"]) for o in hist], mid, target, " (cells are equal: only the container differs)" if same_cells else ""), hist))
    return dict(bad=bad[:10], n=n)


def main(prop, tier, seed):
    global _REF, _HIST
    import multiprocessing as mp
    run = Run("C12", tier, seed)
    run.assumptions = ["reference = the same model tabulated by a fresh interpreter; hash seeds 0..3 (quick) / 0..7 (thorough)",
                       "Excel targets: byte comparison of the container and, separately, comparison of every cell"]
    try:
        cfg = "Session_current"
        res = tlc.run("Session", cfg + ".cfg", env={"EMIT": "1"}, coverage=True, keep=True, timeout=900)
        try:
            if res.violated:
                run.machinery("TLC: %s violated\n%s" % (res.violated, res.stdout[-1500:]))
            else:
                run.add_tlc(cfg, res)
                _HIST = tlc.read_ndjson(os.path.join(res.outdir, "histories.ndjson"))
        finally:
            tlc.cleanup(res)
        for c2, inv in (("Session_seeds", "OutputIsFunctionOfModel"), ("Session_stamps", "OutputIsFunctionOfModel"), ("Session_memo", "ContentIsFunctionOfModel"),
                        ("Session_fail", "ContentIsFunctionOfModel")):
            # stamps = the current tree checked against the byte-level property (known finding F03)
            r2 = tlc.run("Session", c2 + ".cfg", timeout=600)
            run.notes[c2 + "_violates"] = r2.violated
            if r2.violated != inv:
                run.machinery("anti-vacuity: %s should violate %s, TLC says %r" % (c2, inv, r2.violated))
        if run.machinery_errors:
            return run.finish()
        # ---- references from fresh processes under different hash seeds
        seeds = [0, 1, 2, 3] if tier == "quick" else list(range(8))
        refs = {}
        procs = []
        for hs in seeds:
            env = dict(os.environ, PYTHONHASHSEED=str(hs))
            procs.append((hs, subprocess.Popen([sys.executable, "-W", "ignore", "-m", "engines.session", "reference"], cwd=boot.VERIF, env=env,
                                               stdout=subprocess.PIPE, stderr=subprocess.PIPE, universal_newlines=True)))
        for hs, p in procs:
            so, se = p.communicate(timeout=600)
            if p.returncode != 0:
                run.machinery("reference process (PYTHONHASHSEED=%d) failed: %s" % (hs, se[-1500:]))
            else:
                refs[hs] = json.loads(so)
        if run.machinery_errors:
            return run.finish()
        base = refs[seeds[0]]
        for hs in seeds[1:]:
            for key, v in refs[hs].items():
                run.evaluations += 1
                excel = ":" in key and key.split(":")[1].startswith("excel")
                if v["sha"] != base[key]["sha"]:
                    same_cells = excel and v["cells"] == base[key]["cells"]
                    first = ""
                    if not excel:
                        a, b = base[key]["header"].splitlines(), v["header"].splitlines()
                        first = next(("line %d: %r vs %r" % (i + 1, x, y) for i, (x, y) in enumerate(zip(a, b)) if x != y), "")
                    run.violation(dict(engine="session", clause="hash-seed", excel=excel, same_cells=same_cells, model=key.split(":")[0]),
                                  "[hash-seed] output %s differs between PYTHONHASHSEED=%d and %d %s%s" % (key, seeds[0], hs, first, " (cells equal)" if same_cells else ""), dict(key=key))
                if v.get("twice") is False and hs == seeds[1]:
                    run.violation(dict(engine="session", clause="output-differs", excel=False, same_cells=False, model=key),
                                  "[output-differs] %s tabulated twice in one process gives different bytes" % key, dict(key=key))
                if v["energies"] != base[key]["energies"]:
                    run.violation(dict(engine="session", clause="hash-seed-energy", excel=excel, same_cells=False, model=key.split(":")[0]),
                                  "[hash-seed] energies of %s differ between PYTHONHASHSEED=%d and %d" % (key, seeds[0], hs), dict(key=key))
        run.replayed += len(seeds) * len(base)
        # ---- histories within one process, against the references
        _REF = dict(base)
        for kind in API_KIND.values():
            _REF["api:" + kind] = api_reference(kind)
        hist = _HIST
        if tier == "quick":
            rnd = random.Random(seed)
            short = [h for h in hist if len(h) <= 2]
            longer = [h for h in hist if len(h) > 2]
            hist = short + rnd.sample(longer, min(len(longer), 600))
            run.exhaustive = False
            run.notes["replay_sampled"] = "%d of %d histories replayed (all of length <= 2, seeded sample of the longer)" % (len(hist), len(_HIST))
        _HIST = hist
        step = max(1, len(hist) // 32)
        with mp.Pool(min(16, os.cpu_count() or 1)) as pool:
            results = pool.map(_history_chunk, [(i, min(i + step, len(hist)), seed) for i in range(0, len(hist), step)])
        for r in results:
            run.evaluations += r["n"]
            for clause, excel, same_cells, msg, h in r["bad"]:
                run.violation(dict(engine="session", clause=clause, excel=excel, same_cells=same_cells), "[%s] %s" % (clause, msg), dict(history=h))
        run.replayed += len(hist)
        # the same model through the real command line (own process, logging as potable configures it) gives the bytes the API gives
        import tempfile, shutil
        d = tempfile.mkdtemp(prefix="verif-truecli-")
        try:
            for mid in sorted(MODELS):
                for target in MODELS[mid]["targets"]:
                    if target.startswith("excel"):
                        continue
                    data, rc, err = true_cli(MODELS[mid]["text"], target, d)
                    run.evaluations += 1
                    if rc != 0 or hashlib.sha256(data).hexdigest() != base["%d:%s" % (mid, target)]["sha"]:
                        a = base["%d:%s" % (mid, target)]["header"].splitlines()
                        b = data[:400].decode("latin1").splitlines()
                        first = next(("line %d: %r vs %r" % (i + 1, x, y) for i, (x, y) in enumerate(zip(a, b)) if x != y), err.strip().splitlines()[-1] if err.strip() else "")
                        run.violation(dict(engine="session", clause="cli-vs-api", excel=False, same_cells=False, model=str(mid)),
                                      "[cli-vs-api] model %d for %s: the potable command line (exit status %s) and Configuration.read + write give different bytes (%s)" % (mid, target, rc, first), dict(model=mid, target=target))
            for mid, target in ((2, "LAMMPS"), (2, "GULP"), (1, "setfl"), (4, "DL_POLY_EAM_fs")):
                shas, err = around_cli(MODELS[mid]["text"], target, d)
                run.evaluations += 3
                want = base["%d:%s" % (mid, target)]["sha"]
                if shas is None:
                    run.machinery("around-cli process failed: %s" % err)
                elif any(x != want for x in shas):
                    which = [n for n, x in zip(("API before the command line ran", "the command line", "API after the command line ran"), shas) if x != want]
                    run.violation(dict(engine="session", clause="cli-vs-api", excel=False, same_cells=False, model=str(mid)),
                                  "[cli-vs-api] model %d for %s in one process: %s differ(s) from the fresh-process reference" % (mid, target, ", ".join(which)), dict(model=mid, target=target))
        finally:
            shutil.rmtree(d, ignore_errors=True)
        # twin definitions (spec/CacheKeys.tla): a site's function is the one ITS definition denotes, whatever similar site was
        # built or evaluated before, in the same file or in another file of the process
        from engines import cachekeys
        cachekeys.check(run, tier, seed)
        # sessions of the command line in one directory (spec/PotableFS.tla): the file written is a function of the options alone
        from engines import potfs
        potfs.check(run, tier, seed + 1, clause_engine="session")
        napi = api_histories(run) + mutable_callable_history(run)
        run.evaluations += napi
        run.notes["api_shared_callable_histories"] = napi
        for h in hist:
            if len(h) >= 2:
                run.distinct(json.dumps(h))
        run.sample(dict(history=hist[len(hist) // 2], models={k: v["targets"] for k, v in MODELS.items()}))
        run.sample(dict(model_1=MODELS[1]["text"]))
        run.rule = "cases = 4 models x targets, 4 command lines with edits / filters and the 22 shipped potable files (each twice) in fresh processes under 4/8 hash seeds + every history of <= 4 build/write/eval operations over 5 models (3 potable models, 2 Python-API models sharing one energy callable; TLC) in one process; non-trivial = history of >= 2 operations; distinct by history"
    except tlc.TLCError as e:
        run.machinery(str(e))
    return run.finish()


if __name__ == "__main__":
    if sys.argv[1] == "reference":
        reference_main()
