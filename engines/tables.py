"""C18: tabulated input.  (M) spec/TableForm.tla (TableReader transcription = declarative linear interpolant; line-by-line
file reader; plot rows; exact cubic table-form cases); (R) every emitted case on TableReader / plotToFile / [Table-Form]."""
import io, json, os, random
from fractions import Fraction as F

from lib import boot, tlc
from lib.harness import Run

P = boot.boot()
import atsim.potentials as AP                                    # noqa: E402
from atsim.potentials.config import Configuration, ConfigParser  # noqa: E402
from atsim.potentials.config._common import ConfigurationException   # noqa: E402


def fr(q):
    return F(q[0], q[1])


def fl(q):
    return float(fr(q))


def dec(q):
    f = fr(q) if isinstance(q, (list, tuple)) else F(q)
    if f.denominator == 1:
        return "%d.0" % f.numerator
    s = ("%.12f" % float(f)).rstrip("0")
    assert F(s) == f, (s, f)
    return s


XSP = ["plain", "plus", "dot", "neg"]


def xtext(x, sp):
    return {"plain": "%d", "plus": "+%d", "dot": ".%d", "neg": "-%d"}[sp] % x


def xvalue(x, sp):
    return {"plain": float(x), "plus": float(x), "dot": x / 10.0, "neg": -float(x)}[sp]


def file_text(case, style):
    lines = []
    sp = XSP[(style // 2) % 4]
    for l in case["file"]:
        l = dict(l, x=xtext(l["x"], sp))
        y = "".join(str(d) for d in l["y"])
        if len(y) == 2 and style % 2:
            y = y[0] + "." + y[1]                      # "4.5" instead of "45"
        k = l["kind"]
        if k == "data":
            lines.append("%s %s" % (l["x"], y))
        elif k == "data-trail":
            lines.append("%s\t%s  " % (l["x"], y))
        elif k == "indented":
            lines.append("   %s   %s" % (l["x"], y))
        elif k == "comment":
            lines.append("# %s %s" % (l["x"], y))
        else:
            lines.append("")
    return "\n".join(lines) + ("\n" if case["nl"] else ""), style % 2


def yval(digits, dotted):
    s = "".join(str(d) for d in digits)
    if len(s) == 2 and dotted:
        s = s[0] + "." + s[1]
    return float(s)


def main(prop, tier, seed):
    run = Run("C18", tier, seed)
    run.assumptions = ["table forms: exact oracle for data sampled from a cubic (the not-a-knot interpolating spline reproduces cubics), value-only oracle (pass-through, zero outside, xy = x/y) for other data; derivatives of interpolants of non-cubic data are only checked for consistency with the interpolant (finite differences, 1e-5)",
                       "TableReader data have distinct x values"]
    try:
        res = tlc.run("TableForm", "TableForm_fixed.cfg", env={"EMIT": "1"}, coverage=True, keep=True, timeout=900)
        try:
            if res.violated:
                run.machinery("TLC: %s violated\n%s" % (res.violated, res.stdout[-1500:]))
            else:
                run.add_tlc("TableForm_fixed", res)
                plot = tlc.read_ndjson(os.path.join(res.outdir, "plot.ndjson"))
                table = tlc.read_ndjson(os.path.join(res.outdir, "table.ndjson"))
                reader = tlc.read_ndjson(os.path.join(res.outdir, "reader.ndjson"))
                files = tlc.read_ndjson(os.path.join(res.outdir, "files.ndjson"))
        finally:
            tlc.cleanup(res)
        r2 = tlc.run("TableForm", "TableForm_code.cfg", timeout=600)
        run.notes["unrepaired_model_violates"] = r2.violated
        if r2.violated != "FileReadOK":
            run.machinery("anti-vacuity: the reader that strips the last character should violate FileReadOK, TLC says %r" % r2.violated)
        r3 = tlc.run("TableForm", "TableForm_digitfirst.cfg", timeout=600)
        if r3.violated != "FileReadOK":
            run.machinery("anti-vacuity: the reader that keeps only lines starting with a digit should violate FileReadOK, TLC says %r" % r3.violated)
        if run.machinery_errors:
            return run.finish()

        def V(clause, msg, case, **sig):
            s = dict(engine="tables", clause=clause)
            s.update(sig)
            run.violation(s, "[%s] %s" % (clause, msg), case)
        # ---- (a) TableReader values
        rnd = random.Random(seed)
        for c in reader:
            d = c["d"]
            order = list(range(len(d)))
            rnd.shuffle(order)                         # rows in any order in the file
            text = "".join("%d %d\n" % (d[i][0], d[i][1]) for i in order)
            try:
                tr = AP.TableReader(io.StringIO(text))
            except Exception as e:
                V("reader-raises", "TableReader on %r: %s: %s" % (text, type(e).__name__, e), dict(case=c))
                continue
            run.replayed += 1
            if len(d) >= 2:
                run.distinct("reader:" + json.dumps(d))
            # the value at x is a function of the table and x alone: the same reader is asked in ascending, descending and two
            # shuffled orders (a second pass starts inside the table, look-ups jump back by several rows)
            qs = list(c["vals"])
            passes = qs + qs[::-1] + rnd.sample(qs, len(qs)) + rnd.sample(qs, len(qs))
            for qv in passes:
                x, want = fl(qv["q"]), fl(qv["v"])
                run.evaluations += 1
                try:
                    got = tr(x)
                except Exception as e:
                    V("reader-raises", "TableReader on rows %s: f(%s) raises %s: %s" % (d, x, type(e).__name__, e), dict(case=c))
                    break
                if abs(got - want) > 1e-12 * (1 + abs(want)):
                    V("reader-value", "TableReader on rows %s (file order %s): f(%s) = %r, the linear interpolant of the table gives %r" % (d, order, x, got, want), dict(case=c))
                    break
        # ---- (b) file shapes
        for idx, c in enumerate(files):
            text, dotted = file_text(c, idx)
            sp = XSP[(idx // 2) % 4]
            want = sorted((xvalue(x, sp), yval(y, dotted)) for x, y in c["data"])
            run.replayed += 1
            run.evaluations += 1
            nonl = not c["nl"]
            try:
                tr = AP.TableReader(io.StringIO(text))
                got = sorted((x, y) for x, y in tr.datReader)
            except Exception as e:
                V("reader-raises", "TableReader on file %r: %s: %s" % (text, type(e).__name__, e), dict(case=c, text=text), no_final_newline=nonl)
                continue
            if len(c["file"]) >= 2:
                run.distinct("file:" + json.dumps([c["file"], c["nl"]]))
            if got != [(float(x), y) for x, y in want]:
                V("file-data", "TableReader on file %r holds %s, the file's data lines are %s" % (text, got, want), dict(case=c, text=text), no_final_newline=nonl)
                continue
            if not want:
                # a file without data rows (comments and blank lines only): every x lies outside the tabulated range
                for x in (0.0, 1.5, -2.0):
                    try:
                        v = tr(x)
                    except Exception as e:
                        V("reader-raises", "TableReader on file %r (no data rows): f(%s) raises %s: %s" % (text, x, type(e).__name__, e), dict(case=c, text=text), no_final_newline=nonl)
                        break
                    if v != 0.0:
                        V("reader-value", "TableReader on file %r (no data rows): f(%s) = %r, outside the tabulated range the value is 0" % (text, x, v), dict(case=c, text=text), no_final_newline=nonl)
            for x, y in want:
                if tr(float(x)) != y:
                    V("reader-value", "TableReader on file %r: f(%s) = %r, tabulated %r" % (text, x, tr(float(x)), y), dict(case=c, text=text), no_final_newline=nonl)
        # ---- (c) plot rows: the TLC-emitted ranges, and long / decimal / descending ranges whose rows follow from the same rule
        # x_i = lowx + i (highx - lowx)/steps (computed here in exact rationals)
        from fractions import Fraction as _F
        for lo_, hi_, n_ in (("0", "12", 10000), ("0", "12.51", 100), ("1.57", "8.29", 100), ("0.1", "10.0", 5000), ("2", "1", 10), ("0.3", "0.9", 3), ("-1.5", "7.7", 1001)):
            a, b = _F(lo_), _F(hi_)
            plot.append(dict(lo=[a.numerator, a.denominator], hi=[b.numerator, b.denominator], steps=n_,
                             xs=[[(a + i * (b - a) / n_).numerator, (a + i * (b - a) / n_).denominator] for i in range(n_)]))
        for c in plot:
            lo, hi, n = fl(c["lo"]), fl(c["hi"]), c["steps"]
            f = lambda x: 3.0 * x * x - x + 0.5
            for via in ("plotToFile", "plot", "plotPotentialObjectToFile"):
                buf = io.StringIO()
                try:
                    if via == "plotToFile":
                        AP.plotToFile(buf, lo, hi, f, n)
                        text = buf.getvalue()
                    elif via == "plot":
                        d = tlc.scratch("plot-")
                        try:
                            with open(os.path.join(d, "p.dat"), "w") as old:      # the file exists already and is longer than the new plot
                                old.write("9.9 9.9\n" * (n + 7))
                            AP.plot(os.path.join(d, "p.dat"), lo, hi, f, n)
                            text = open(os.path.join(d, "p.dat")).read()
                        finally:
                            import shutil
                            shutil.rmtree(d, ignore_errors=True)
                    else:
                        AP.plotPotentialObjectToFile(buf, lo, hi, AP.Potential("A", "B", f), n)
                        text = buf.getvalue()
                except Exception as e:
                    V("plot-raises", "%s(%s, %s, steps=%d): %s: %s" % (via, lo, hi, n, type(e).__name__, e), dict(case=c))
                    continue
                run.evaluations += 1
                run.replayed += 1
                run.distinct("plot:%s:%s:%s:%d" % (via, lo, hi, n))
                rows = [l.split() for l in text.splitlines() if l.strip()]
                if len(rows) != n:
                    V("plot-rows", "%s(%s, %s, steps=%d) wrote %d rows" % (via, lo, hi, n, len(rows)), dict(case=c))
                    continue
                for k, (row, xq) in enumerate(zip(rows, c["xs"])):
                    x = fl(xq)
                    if len(row) != 2 or abs(float(row[0]) - x) > 1e-12 * (1 + abs(x)) or abs(float(row[1]) - f(float(row[0]))) > 1e-12 * (1 + abs(f(x))):
                        V("plot-rows", "%s(%s, %s, steps=%d): row %d is %s, expected x = lowx + %d (highx-lowx)/steps = %r and y = f(x) = %r" % (via, lo, hi, n, k, row, k, x, f(x)), dict(case=c))
                        break
        # ---- (d) table forms
        for idx, c in enumerate(table):
            xs, ys = [dec(x) for x in c["xs"]], [dec(y) for y in c["ys"]]
            variants = {
                "x/y": "x : %s\ny : %s\n" % (" ".join(xs), " ".join(ys)),
                "xy": "xy : %s\n" % "\n     ".join("%s %s" % p for p in zip(xs, ys)),
                "x/y+interpolation": "interpolation : cubic_spline\ny : %s\nx : %s\n" % ("  ".join(ys), "\n    ".join(xs)),
                # pairs are pairs however they are spread over the lines of the value
                "xy-two-per-line": "xy : %s\n" % "\n     ".join(" ".join("%s %s" % p for p in list(zip(xs, ys))[k:k + 2]) for k in range(0, len(xs), 2)),
                "xy-one-line": "xy : %s\n" % "  ".join("%s %s" % p for p in zip(xs, ys)),
            }
            fns = {}
            for name, body in variants.items():
                text = "[Tabulation]\ntarget : LAMMPS\nnr : 5\ncutoff : 4.0\n\n[Table-Form:tf]\n%s\n[Pair]\nA-B : >=-100 tf\nA-A : >=-100 sum(tf, as.zero)\n" % body
                try:
                    tab = Configuration().read(io.StringIO(text))
                    fns[name] = [p for p in tab.potentials if p.speciesB == "B"][0]
                    fsum = [p for p in tab.potentials if p.speciesB == "A"][0]
                except Exception as e:
                    V("table-form-refused", "[Table-Form] %s with %d points refused: %s: %s" % (name, len(xs), type(e).__name__, str(e)[:200]), dict(case=c, ini=text))
            if len(fns) != len(variants):
                continue
            run.replayed += 1
            run.distinct("table:%d" % idx)
            ref = fns["x/y"]
            f = ref.potentialFunction
            # through its data points
            for xq, yq in zip(c["xs"], c["ys"]):
                run.evaluations += 1
                if abs(ref.energy(fl(xq)) - fl(yq)) > 1e-9 * (1 + abs(fl(yq))):
                    V("pass-through", "table form x=%s y=%s: f(%s) = %r, tabulated %s" % (xs, ys, dec(xq), ref.energy(fl(xq)), dec(yq)), dict(case=c))
                    break
            for xq in c["outside"]:
                if ref.energy(fl(xq)) != 0.0 or f.deriv(fl(xq)) != 0.0:
                    V("zero-outside", "table form x=%s: f(%s) = %r (deriv %r) outside [x_min, x_max]" % (xs, dec(xq), ref.energy(fl(xq)), f.deriv(fl(xq))), dict(case=c))
                    break
            for q in c["inside"]:
                x = fl(q["x"])
                e = q["e"]
                run.evaluations += 1
                sc = 1 + abs(fl(e["v"])) + abs(fl(e["d1"])) + abs(fl(e["d2"]))
                vals = [fns[k].energy(x) for k in ("x/y", "xy", "x/y+interpolation", "xy-two-per-line", "xy-one-line")]
                if any(v != vals[0] for v in vals[1:]):
                    V("xy-equivalence", "table form x=%s: at %s the x/y form gives %r, the xy form %r, the reordered form %r, xy with two pairs per line %r, xy on one line %r" % (xs, x, vals[0], vals[1], vals[2], vals[3], vals[4]), dict(case=c))
                    break
                if abs(vals[0] - fl(e["v"])) > 1e-8 * sc:
                    V("cubic-identity", "table form of the cubic %s sampled at %s: f(%s) = %r, the cubic gives %r" % ([dec(k) for k in c["cubic"]], xs, x, vals[0], fl(e["v"])), dict(case=c))
                    break
                inner = fl(c["xs"][0]) < x < fl(c["xs"][-1])
                if inner:
                    if abs(f.deriv(x) - fl(e["d1"])) > 1e-7 * sc or abs(f.deriv2(x) - fl(e["d2"])) > 1e-6 * sc:
                        V("derivative", "table form of the cubic %s sampled at %s: deriv(%s) = %r (true %r), deriv2 = %r (true %r)" % (
                            [dec(k) for k in c["cubic"]], xs, x, f.deriv(x), fl(e["d1"]), f.deriv2(x), fl(e["d2"])), dict(case=c))
                        break
                    if abs(ref.force(x) + fl(e["d1"])) > 1e-7 * sc:
                        V("derivative", "table form: Potential.force(%s) = %r, minus the slope is %r" % (x, ref.force(x), -fl(e["d1"])), dict(case=c))
                        break
                    g = fsum.potentialFunction
                    if x > 0 and hasattr(g, "deriv") and abs(g.deriv(x) - fl(e["d1"])) > 1e-7 * sc:      # modifier arguments act for r > 0 only
                        V("derivative", "sum(tf, as.zero).deriv(%s) = %r, true slope %r" % (x, g.deriv(x), fl(e["d1"])), dict(case=c))
                        break
        # non-cubic data: pass-through, zero outside, derivative consistent with the interpolant
        for trial in range(20 if tier == "quick" else 200):
            n = rnd.choice([4, 5, 7, 12, 40, 200])
            xs = sorted(rnd.sample(range(1, 4000), n))
            xs = [x / 8.0 for x in xs]
            ys = [rnd.randint(-50, 50) / 4.0 for _ in xs]
            tf = AP.tableforms.Cubic_Spline_Table_Form(xs, ys)
            run.evaluations += n
            run.distinct("random-table:%d" % trial)
            for x, y in zip(xs, ys):
                if abs(tf(x) - y) > 1e-9 * (1 + abs(y)):
                    V("pass-through", "random table (%d points): f(%r) = %r, tabulated %r" % (n, x, tf(x), y), dict(xs=xs, ys=ys))
                    break
            if tf(xs[0] - 0.01) != 0.0 or tf(xs[-1] + 0.01) != 0.0:
                V("zero-outside", "random table (%d points): not zero outside the data range" % n, dict(xs=xs, ys=ys))
            for k in range(0, n - 1, max(1, n // 6)):
                x = (xs[k] + xs[k + 1]) / 2
                h = (xs[k + 1] - xs[k]) * 1e-4
                num = (tf(x + h) - tf(x - h)) / (2 * h)
                num2 = (tf.deriv(x + h) - tf.deriv(x - h)) / (2 * h)
                if abs(tf.deriv(x) - num) > 1e-5 * (1 + abs(num)) or abs(tf.deriv2(x) - num2) > 1e-4 * (1 + abs(num2)):
                    V("derivative", "random table (%d points): deriv(%r) = %r, slope of the interpolant %r; deriv2 = %r, slope of deriv %r" % (n, x, tf.deriv(x), num, tf.deriv2(x), num2), dict(xs=xs, ys=ys))
                    break
        run.sample(dict(table_form=dict(xs=[dec(x) for x in table[0]["xs"]], cubic=[dec(k) for k in table[0]["cubic"]], query=table[0]["inside"][0])))
        run.sample(dict(reader=reader[len(reader) // 2]))
        run.sample(dict(file=files[len(files) // 3], text=file_text(files[len(files) // 3], 1)[0]))
        run.rule = "cases = reader data sets x query lattice, files of <= 2 lines x 5 line kinds x final newline or not, plot ranges x steps x 3 entry points, cubic table forms x 3 input spellings (+ random tables); non-trivial = >= 2 rows / lines; distinct by case"
    except tlc.TLCError as e:
        run.machinery(str(e))
    return run.finish()
