"""spec/CacheKeys.tla: the twin scenarios on the real code.

(M) TLC: TwinsComplete (every content attribute is exposed by a twin pair in both arrangements), OwnMeaning for every order of
    build / release / evaluate events with a memo keyed on the whole content; the memos keyed without the marker, without the
    following ranges and without the formula body / table data must violate it (vacuity guards).
(R) every twin pair x event order emitted by TLC is rendered to potable files and performed on the real code: Configuration.read
    for B, dropping the model (and a garbage collection) for R, the energy of the site at six separations - and, for [Pair]
    sites, the rows of the LAMMPS table written from the model - for E.  Expected numbers come from the symbolic meaning the
    specification gives for the site (which piece, which parameters, which body)."""
import gc, io, json, os, sys
import multiprocessing as mp

from lib import tlc, boot

PARS = {1: (1, 2), 2: (1, 3)}
PF_BODY = {1: "a + b*r + 10", 2: "a + b*r*r + 10"}
TAB_Y = {1: lambda x: 3.0 + x, 2: lambda x: 5.0 - 0.5 * x}
SPECIES = {1: "Al", 2: "Cu"}


def value(meaning, r):
    """number denoted by a symbolic meaning <<"zero">> | <<"const7">> | <<"main", form, par, body>> at separation r"""
    if meaning[0] == "zero":
        return 0.0
    if meaning[0] == "const7":
        return 7.0
    _, form, par, body = meaning
    if form == "poly":
        a, b = PARS[par]
        return a + b * r
    if form == "pf":
        a, b = PARS[par]
        return a + b * r + 10 if body == 1 else a + b * r * r + 10
    return TAB_Y[body](r)


def defn_text(s):
    head = "%s%s " % (s["mk"], "0" if s["st"] == 0 else "1.0")
    main = {"poly": "as.polynomial %d %d" % PARS[s["par"]], "pf": "pf %d %d" % PARS[s["par"]], "tab": "tab"}[s["form"]]
    tail = {0: "", 1: " >=2 as.constant 7", 2: " >=2.0 as.zero"}[s["tail"]]
    return head + main + tail


def render(sites):
    """one potable file holding the given sites (all of one file, one section)"""
    s0 = sites[0]
    sec = s0["sec"]
    filler = "as.polynomial 0 1"
    ents = {s["key"]: defn_text(s) for s in sites}
    xs = [0.0, 1.0, 2.0, 3.0, 4.0, 5.0]
    lines = ["[Tabulation]", "target : %s" % ("LAMMPS" if sec == "Pair" else "setfl"), "nr : 6", "cutoff : 2.5", "nrho : 6", "cutoff_rho : 2.5", "",
             "[Potential-Form]", "pf(r, a, b) = %s" % PF_BODY[s0["body"]], "",
             "[Table-Form:tab]", "x : %s" % " ".join(repr(x) for x in xs), "y : %s" % " ".join(repr(TAB_Y[s0["body"]](x)) for x in xs), ""]

    def entries(section_is_site, keyf):
        return ["%s : %s" % (keyf(k), ents.get(k, filler) if section_is_site else filler) for k in (1, 2)]
    lines += ["[Pair]"] + entries(sec == "Pair", lambda k: "%s-%s" % (SPECIES[k], SPECIES[k])) + [""]
    if sec != "Pair":
        lines += ["[EAM-Embed]"] + entries(sec == "Embed", lambda k: SPECIES[k]) + [""]
        lines += ["[EAM-Density]"] + entries(sec == "Dens", lambda k: SPECIES[k]) + [""]
    return "\n".join(lines)


def site_function(tab, s):
    sp = SPECIES[s["key"]]
    if s["sec"] == "Pair":
        return [p for p in tab.potentials if (p.speciesA, p.speciesB) == (sp, sp)][0].energy
    e = [e for e in tab.eam_potentials if e.species == sp][0]
    return e.embeddingFunction if s["sec"] == "Embed" else e.electronDensityFunction


_CASES = []


def _one(idx):
    from atsim.potentials.config import Configuration
    c = _CASES[idx]
    a, b = c["a"], c["b"]
    out = dict(idx=idx, bad=[], n=0)
    try:
        same_file = a["file"] == b["file"]
        texts = {1: render([a, b])} if same_file else {1: render([a]), 2: render([b])}
        site = {"1": (a, c["ma"]), "2": (b, c["mb"])}
        for order in c["orders"]:
            tabs = {}
            for ev in order:
                kind, which = ev[0], ev[1]
                if kind == "B":
                    f = int(which) if not same_file else 1
                    tabs[f] = Configuration().read(io.StringIO(texts[f]))
                elif kind == "R":
                    tabs.pop(int(which), None)
                    gc.collect()
                else:
                    s, meaning = site[which]
                    tab = tabs[s["file"]]
                    fn = site_function(tab, s)
                    for k in range(6):
                        r = k / 2.0
                        want = value(meaning[k], r)
                        got = fn(r)
                        out["n"] += 1
                        if abs(got - want) > 1e-9 * max(1.0, abs(want)):
                            out["bad"].append(("own-meaning", "events %s: %s of %s at r=%s is %r; its definition '%s' denotes %r (the other site, %s, is '%s' and differs in %s)" % (
                                " ".join(order), s["sec"], SPECIES[s["key"]], r, got, defn_text(s), want, "in the same file" if same_file else "in a file built in the same process",
                                defn_text(b if s is a else a), c["differs"]), dict(texts=texts, order=order)))
                            break
                    if s["sec"] == "Pair" and not out["bad"]:
                        # the table written from the model: rows 1..5 at r = 0.5 .. 2.5
                        buf = io.StringIO()
                        tab.write(buf)
                        rows = parse_lammps(buf.getvalue(), "%s-%s" % (SPECIES[s["key"]], SPECIES[s["key"]]))
                        for k in range(1, 6):
                            want = value(meaning[k], k / 2.0)
                            out["n"] += 1
                            if rows is None or abs(rows[k - 1] - want) > 1e-7 * max(1.0, abs(want)):
                                out["bad"].append(("own-meaning", "events %s: LAMMPS block %s-%s row %d holds %r; the definition '%s' denotes %r (the other site is '%s', differs in %s)" % (
                                    " ".join(order), SPECIES[s["key"]], SPECIES[s["key"]], k, None if rows is None else rows[k - 1], defn_text(s), want, defn_text(b if s is a else a), c["differs"]),
                                    dict(texts=texts, order=order)))
                                break
                if out["bad"]:
                    return out
            tabs.clear()
            gc.collect()
    except Exception:
        import traceback
        out["machinery"] = traceback.format_exc()[-1500:]
    return out


def parse_lammps(text, title):
    lines = text.split("\n")
    for i, l in enumerate(lines):
        if l.strip() == title:
            n = int(lines[i + 1].split()[1])
            body = [x for x in lines[i + 2:] if x.strip()][:n]
            try:
                return [float(x.split()[2]) for x in body]
            except Exception:
                return None
    return None


def _init(cases):
    global _CASES
    _CASES = cases
    boot.boot()


def check(run, tier, seed):
    cases = None
    for cfg, expect in (("CacheKeys_design", None), ("CacheKeys_nomarker", "OwnMeaning"), ("CacheKeys_notail", "OwnMeaning"), ("CacheKeys_nobody", "OwnMeaning")):
        try:
            res = tlc.run("CacheKeys", cfg + ".cfg", env={"EMIT": "1"} if expect is None else None, keep=expect is None, timeout=600)
        except tlc.TLCError as e:
            run.machinery("cachekeys: %s" % e)
            return
        try:
            if res.violated != expect:
                run.machinery("cachekeys: TLC reports %s on %s, expected %s" % (res.violated, cfg, expect))
                return
            if expect is None:
                run.add_tlc(cfg, res)
                cases = tlc.read_ndjson(os.path.join(res.outdir, "twins.ndjson"))
        finally:
            tlc.cleanup(res)
    # quick: every twin pair of [Pair] whose base has no tail or starts at 0, every pair of the EAM sections, one order in two
    # (rotating with the seed); thorough: everything
    if tier == "quick":
        sel = []
        for i, c in enumerate(cases):
            if c["a"]["sec"] == "Pair" and c["a"]["tail"] == 2 and c["a"]["st"] == 2 and (i + seed) % 3:
                continue
            c = dict(c, orders=[o for j, o in enumerate(c["orders"]) if (i + j + seed) % 2 == 0] or c["orders"][:1])
            sel.append(c)
        cases = sel
    with mp.Pool(min(16, os.cpu_count() or 4), initializer=_init, initargs=(cases,)) as pool:
        results = pool.map(_one, range(len(cases)), chunksize=32)
    for r in results:
        c = cases[r["idx"]]
        if "machinery" in r:
            run.machinery("cachekeys replay: %s" % r["machinery"])
            continue
        run.evaluations += r["n"]
        run.replayed += len(c["orders"])
        if len(c["differs"]) >= 2:
            run.distinct("twins:" + json.dumps([c["a"], c["differs"]], sort_keys=True))
        for clause, msg, extra in r["bad"][:1]:
            run.violation(dict(engine="session", clause=clause, excel=False, same_cells=False, model="twins", differs=",".join(sorted(c["differs"]))),
                          "[%s] %s" % (clause, msg), dict(case=c, **extra))
    run.notes["twin_scenarios"] = dict(pairs=len(cases), orders=sum(len(c["orders"]) for c in cases))
    run.sample(dict(twin_pair=dict(a=defn_text(cases[len(cases) // 2]["a"]), b=defn_text(cases[len(cases) // 2]["b"]), differs=cases[len(cases) // 2]["differs"],
                                   orders=cases[len(cases) // 2]["orders"])))
