"""Entry point: ./check <property> [--tier quick|thorough] [--replay FILE]"""
import argparse, os, sys

ENGINE = {
    "C01": "layout", "C02": "layout", "C03": "layout", "C04": "layout", "C05": "layout", "C19": "layout", "C17": "layout", "C08": "multirange", "C11": "grid", "C14": "inidoc", "C13": "inidoc", "C15": "inidoc", "C20": "inidoc", "C09": "algebra", "C07": "algebra", "C06": "forms",
}


def main():
    ap = argparse.ArgumentParser()
    ap.add_argument("prop")
    ap.add_argument("--tier", default=os.environ.get("VERIF_TIER", "quick"), choices=["quick", "thorough"])
    ap.add_argument("--replay", default=None)
    a = ap.parse_args()
    seed = int(os.environ.get("VERIF_SEED", "0"))
    if a.prop not in ENGINE:
        print("unknown property %s" % a.prop, file=sys.stderr)
        sys.exit(2)
    import importlib
    mod = importlib.import_module("engines." + ENGINE[a.prop])
    if a.replay:
        sys.exit(mod.replay(a.prop, a.replay))
    sys.exit(mod.main(a.prop, a.tier, seed))


if __name__ == "__main__":
    main()
