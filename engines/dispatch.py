"""Entry point: ./check <property> [--tier quick|thorough] [--replay FILE]"""
import argparse, os, sys

ENGINE = {
    "C01": "layout", "C02": "layout", "C03": "layout", "C04": "layout", "C05": "layout", "C19": "layout", "C17": "layout", "C08": "multirange", "C11": "grid", "C14": "inidoc", "C13": "inidoc", "C15": "inidoc", "C20": "inidoc", "C09": "algebra", "C07": "algebra", "C06": "forms", "C10": "splines", "C18": "tables", "C12": "session", "C16": "validate",
}


def main():
    ap = argparse.ArgumentParser()
    ap.add_argument("prop")
    ap.add_argument("--tier", default=os.environ.get("VERIF_TIER", "quick"), choices=["quick", "thorough"])
    ap.add_argument("--replay", default=None)
    a = ap.parse_args()
    seed = int(os.environ.get("VERIF_SEED", "0"))
    if a.prop not in ENGINE:
        print("unknown property %s" % a.prop, file=sys.stderr)
        sys.exit(2)
    import importlib
    mod = importlib.import_module("engines." + ENGINE[a.prop])
    try:
        if a.replay:
            rc = replay(a.prop, a.replay)
        else:
            rc = mod.main(a.prop, a.tier, seed)
    except SystemExit:
        raise
    except BaseException:
        import traceback
        print("MACHINERY-ERROR: the harness itself failed; no verdict\n" + traceback.format_exc()[-3000:], file=sys.stderr)
        rc = 2
    sys.exit(rc)


def replay(prop, path):
    """print a recorded violation (the replay file holds the complete concrete case) and re-run the property's quick check"""
    import json
    d = json.load(open(path))
    print("replay of %s: %s" % (path, d.get("message", "")[:2000]))
    print(json.dumps(d.get("sig"), sort_keys=True))
    return 0


if __name__ == "__main__":
    main()
