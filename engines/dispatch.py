"""Entry point: ./check <property> [--tier quick|thorough] [--replay FILE]"""
import argparse, os, sys

ENGINE = {
    "C01": "layout", "C02": "layout", "C03": "layout", "C04": "layout", "C05": "layout", "C19": "layout", "C17": "layout", "C08": "multirange", "C11": "grid", "C14": "inidoc", "C13": "inidoc", "C15": "inidoc", "C20": "inidoc", "C09": "algebra", "C07": "algebra", "C06": "forms", "C10": "splines", "C18": "tables", "C12": "session", "C16": "validate",
}


def main():
    ap = argparse.ArgumentParser()
    ap.add_argument("prop")
    ap.add_argument("--tier", default=os.environ.get("VERIF_TIER", "quick"), choices=["quick", "thorough"])
    ap.add_argument("--replay", default=None)
    a = ap.parse_args()
    seed = int(os.environ.get("VERIF_SEED", "0"))
    if a.prop not in ENGINE:
        print("unknown property %s" % a.prop, file=sys.stderr)
        sys.exit(2)
    import importlib
    mod = importlib.import_module("engines." + ENGINE[a.prop])
    try:
        if a.replay:
            rc = replay(a.prop, a.replay)
        else:
            rc = mod.main(a.prop, a.tier, seed)
    except SystemExit:
        raise
    except BaseException:
        import traceback
        print("MACHINERY-ERROR: the harness itself failed; no verdict\n" + traceback.format_exc()[-3000:], file=sys.stderr)
        rc = 2
    sys.exit(rc)


def replay(prop, path):
    """re-execute a recorded violation against the current working tree: exit 1 (with the VIOLATION line) if it still
    reproduces, 0 if it does not"""
    import json
    d = json.load(open(path))
    sig, case = d.get("sig", {}), d.get("case", {})
    print("replay of %s\n  recorded: %s" % (path, d.get("message", "")[:1500]))
    eng = sig.get("engine")
    still = None
    if eng == "layout" and isinstance(case, dict) and "case" in case and "route" in case:
        from engines import layout as L
        L._CASES = [case["case"]]
        L._INDEX = {L.case_key(case["case"]["m"]): case["case"]}
        ctx = L.Ctx(case["case"], case.get("idx", 0), int(os.environ.get("VERIF_SEED", "0")))
        if sig.get("clause") in ("partial-output", "retry-not-whole", "fault-swallowed"):
            L._SEED = int(os.environ.get("VERIF_SEED", "0"))
            r = L._fault_one(0)
            still = bool(r["bad"])
            print("  now: %s" % (r["bad"][:2] or "no disagreement"))
        else:
            res = L.execute(ctx, case["route"])
            if case["case"]["rejects"]:
                still = res["outcome"] != "raised" or bool(res["data"])
            elif res["outcome"] != "ok":
                still = True
                print("  now: raised %s" % res["exc"])
            else:
                c = L.compare(ctx, case["route"], res, L._INDEX)
                still = bool(c.bad)
                print("  now: %s" % (c.bad[:2] or "output agrees with the specification's plan"))
    elif isinstance(case, dict) and case.get("ini"):
        # engines that record the complete input text: show what the implementation does with it now
        import io
        from lib import boot
        boot.boot()
        from atsim.potentials.config import Configuration
        from atsim.potentials.config._common import ConfigurationException
        try:
            tab = Configuration().read(io.StringIO(case["ini"]))
            out = io.BytesIO() if tab.target.startswith("excel") else io.StringIO()
            tab.write(out)
            print("  now: tabulates (%d characters)" % len(out.getvalue()))
        except ConfigurationException as e:
            print("  now: configuration error - %s" % str(e)[:300])
        except Exception as e:
            print("  now: %s: %s" % (type(e).__name__, str(e)[:300]))
        print("  (re-run ./check %s for the verdict on this input class)" % prop)
    else:
        print("  (the recorded case is shown above; re-run ./check %s for the verdict)" % prop)
    if still:
        print("VIOLATION property=%s replay=%s" % (prop, path))
        return 1
    return 0


if __name__ == "__main__":
    main()
