"""C11: the [Tabulation] grid.  (M) TLC on spec/Grid.tla: transcription of _TabulationCutoff._init_cutoff against the
declarative decision table, for every presence / sign class of (nr, dr, cutoff); (R) the decision table and the
commensurate decimal lattice emitted by TLC replayed on ConfigParser(...).tabulation, on Configuration.read and on written
tables (row count, spacing, last row) for both grids."""
import io, os, json, random
from fractions import Fraction as F

from lib import boot, tlc, formats
from lib.harness import Run

P = boot.boot()
from atsim.potentials.config import Configuration, ConfigParser               # noqa: E402
from atsim.potentials.config._common import ConfigurationException            # noqa: E402

ABSENT, NONNUM = -999, -998
DEFAULTS = dict(r=(1001, 10.0), rho=(1001, 100.0))
NAMES = dict(r=("nr", "dr", "cutoff"), rho=("nrho", "drho", "cutoff_rho"))


def decstr(fr):
    fr = F(fr)
    s = "%.10f" % float(fr)
    s = s.rstrip("0")
    if s.endswith("."):
        s += "0"
    assert F(s) == fr, (s, fr)
    return s


def tab_lines(grid, inp):
    """[Tabulation] lines for one grid from the abstract input (quarters)"""
    n_nr, n_dr, n_cut = NAMES[grid]
    out = []
    if inp["nr"] != ABSENT:
        out.append("%s : %s" % (n_nr, "abc" if inp["nr"] == NONNUM else str(inp["nr"])))
    if inp["dr"] != ABSENT:
        out.append("%s : %s" % (n_dr, "abc" if inp["dr"] == NONNUM else decstr(F(inp["dr"], 4))))
    if inp["cut"] != ABSENT:
        out.append("%s : %s" % (n_cut, "abc" if inp["cut"] == NONNUM else decstr(F(inp["cut"], 4))))
    return out


MODEL = """
[Pair]
Al-Al : >=0 as.polynomial 3 1
Al-Cu : >=0 as.polynomial 2 2
Cu-Cu : >=0 as.polynomial 1 3
[EAM-Embed]
Al : >=0 as.polynomial 1 2
Cu : >=0 as.polynomial 2 2
[EAM-Density]
Al : >=0 as.polynomial 2 1
Cu : >=0 as.polynomial 3 1
"""


def observe_parser(lines, grid):
    """('reject', msg) | ('accept', nr, cutoff) | ('internal', exc) from ConfigParser(...).tabulation"""
    # the eam/alloy target under one of its three documented spellings
    text = "[Tabulation]\ntarget : %s\n" % ("setfl", "lammps_eam_alloy", "LAMMPS_eam_alloy")[len("".join(lines)) % 3] + "\n".join(lines) + "\n" + MODEL
    try:
        cp = ConfigParser(io.StringIO(text))
        t = cp.tabulation
        if grid == "r":
            return ("accept", t.nr, t.cutoff), text
        return ("accept", t.nrho, t.cutoff_rho), text
    except ConfigurationException as e:
        return ("reject", str(e)[:120]), text
    except Exception as e:
        return ("internal", "%s: %s" % (type(e).__name__, str(e)[:120])), text


def observe_table(lines, grid, target):
    """write the table and read the grid back: (rows, first step, last abscissa)"""
    text = "[Tabulation]\ntarget : %s\n" % target + "\n".join(lines) + "\n" + MODEL
    try:
        tab = Configuration().read(io.StringIO(text))
        out = io.BytesIO() if target.startswith("excel") else io.StringIO()
        tab.write(out)
    except ConfigurationException as e:
        return ("reject", str(e)[:120]), text
    except Exception as e:
        return ("internal", "%s: %s" % (type(e).__name__, str(e)[:120])), text
    data = out.getvalue()
    # every block / column of the table is on the grid: the block that deviates most from the parsed grid is reported
    grids = []      # (rows, last abscissa, step)
    if target == "LAMMPS":
        for b in formats.parse_lammps_table(data):
            rows = [float(r[1]) for r in b["rows"]]
            grids.append((len(rows) + 1, rows[-1], rows[0]))          # rows 1..N at dr..cutoff : nr = N + 1
    elif target == "GULP":
        for b in formats.parse_gulp(data):
            rs = [float(r[1]) for r in b["rows"]]
            grids.append((len(rs), rs[-1] if rs else float("nan"), rs[1] - rs[0] if len(rs) > 1 else float("nan")))
    elif target == "DL_POLY":
        t = formats.parse_dlpoly_table(data)
        for b in t["blocks"]:
            grids.append((len(b["E"]), float(t["delpot"]) * (t["ngrid"] - 4), float(t["delpot"])))
            grids.append((len(b["F"]), float(t["cutpot"]), float(t["delpot"])))
    elif target == "DL_POLY_EAM":
        t = formats.parse_tabeam(data)
        for b in t["blocks"]:
            if (b["kw"] == "embe") == (grid == "rho"):
                grids.append((len(b["vals"]), float(b["end"]), float(b["end"]) / (b["n"] - 1) if b["n"] > 1 else float("nan")))
    elif target == "excel_eam":
        wb = formats.parse_xlsx(data)
        for sheet, first in ((("EAM-Density", "r"), ("Pair", "r")) if grid == "r" else (("EAM-Embed", "rho"),)):
            col = wb[sheet]["cols"][first]
            grids.append((len(col), float(col[-1]), float(col[1]) - float(col[0])))
            for name, vals in wb[sheet]["cols"].items():
                if len(vals) != len(col):
                    grids.append((len(vals), float("nan"), float("nan")))
    else:
        f = formats.parse_setfl(data, "alloy")
        if grid == "r":
            grids.append((f["nr"], float(f["dr"]) * (f["nr"] - 1), float(f["dr"])))
            grids += [(len(dv), float(f["dr"]) * (len(dv) - 1), float(f["dr"])) for e in f["els"] for dv in e["dens"]] + [(len(a), float(f["dr"]) * (len(a) - 1), float(f["dr"])) for a in f["pairs"]]
        else:
            grids.append((f["nrho"], float(f["drho"]) * (f["nrho"] - 1), float(f["drho"])))
            grids += [(len(e["embed"]), float(f["drho"]) * (len(e["embed"]) - 1), float(f["drho"])) for e in f["els"]]
    parsed = (tab.nr, tab.cutoff) if grid == "r" else (tab.nrho, tab.cutoff_rho)
    worst = max(grids, key=lambda g: (g[0] != parsed[0], abs(g[0] - parsed[0]), 0 if g[1] == g[1] else 1)) if grids else (0, float("nan"), float("nan"))
    return ("accept", worst[0], worst[1], worst[2], parsed), text


def close(a, b):
    if a is None or b is None:        # a grid value the implementation left unset is not the value the statement fixes
        return False
    return abs(a - b) <= 1e-9 * max(1.0, abs(b))


def expected_of(exp, grid):
    if exp["rej"]:
        return None
    dn, dc = DEFAULTS[grid]
    nr = dn if exp["nr"] == ABSENT else exp["nr"]
    cut = dc if exp["cut"] == ABSENT else exp["cut"] / 4.0
    return nr, cut


_TABLE, _LATTICE = [], []


def _table_one(idx):
    case = _TABLE[idx]
    inp, exp = case["inp"], case["expect"]
    bad = []
    n = 0
    for grid in ("r", "rho"):
        lines = tab_lines(grid, inp)
        want = expected_of(exp, grid)
        obs, text = observe_parser(lines, grid)
        n += 1
        if obs[0] == "internal":
            bad.append(("internal-exception", grid, "%s -> %s" % (lines, obs[1]), text))
        elif want is None:
            if obs[0] != "reject":
                bad.append(("accepts-invalid", grid, "%s must be rejected but gives nr=%s cutoff=%s" % (lines, obs[1], obs[2]), text))
        else:
            if obs[0] == "reject":
                bad.append(("rejects-valid", grid, "%s is valid but rejected: %s" % (lines, obs[1]), text))
            else:
                onr = DEFAULTS[grid][0] if obs[1] is None else obs[1]
                ocut = DEFAULTS[grid][1] if obs[2] is None else obs[2]
                if onr != want[0] or not close(ocut, want[1]):
                    bad.append(("wrong-grid", grid, "%s gives nr=%s cutoff=%s, statement says nr=%s cutoff=%s" % (lines, obs[1], obs[2], want[0], want[1]), text))
        # the table actually written
        if want is not None and want[0] >= 2 and not bad:
            for target in (["LAMMPS", "GULP", "DL_POLY", "setfl", "DL_POLY_EAM", "excel_eam", "lammps_eam_alloy"] if grid == "r" else ["setfl", "DL_POLY_EAM", "excel_eam", "lammps_eam_alloy", "LAMMPS_eam_alloy"]):
                if target == "excel_eam" and (want[0] > 50 or idx % 3):
                    continue
                if target == "DL_POLY" and (want[0] % 4 or want[0] <= 4):
                    continue
                obs2, text2 = observe_table(lines, grid, target)
                n += 1
                if obs2[0] != "accept":
                    bad.append(("rejects-valid" if obs2[0] == "reject" else "internal-exception", grid, "%s via %s: %s" % (lines, target, obs2[1]), text2))
                elif obs2[1] != want[0] or not close(obs2[2], want[1]) or not close(obs2[3], want[1] / (want[0] - 1)):
                    bad.append(("table-grid", grid, "%s via %s: table has %d rows, step %r, last %r; statement says %d rows, step %r, last %r" % (
                        lines, target, obs2[1], obs2[3], obs2[2], want[0], want[1] / (want[0] - 1), want[1]), text2))
    # ---- Grid.tla, Files = 2: what one file resolves to does not depend on the files the process read before.  A file that
    # gives none of the three options is also written without the [Tabulation] section / with an empty one
    if all(inp[k] == ABSENT for k in ("nr", "dr", "cut")):
        PAIRS = "[Pair]\nAl-Al : >=0 as.polynomial 3 1\n"
        for earlier in ("[Tabulation]\ntarget : LAMMPS\nnr : 51\ncutoff : 5.0\n" + PAIRS, "[Tabulation]\ntarget : setfl\nnr : 11\ndr : 0.5\nnrho : 21\ncutoff_rho : 7.0\n" + MODEL):
            for later, what in ((PAIRS, "no [Tabulation] section"), ("[Tabulation]\n" + PAIRS, "an empty [Tabulation] section"), ("[Tabulation]\ntarget : LAMMPS\n" + PAIRS, "a [Tabulation] section with the target only")):
                try:
                    t0 = ConfigParser(io.StringIO(earlier)).tabulation
                    _ = (t0.nr, t0.cutoff, t0.nrho, t0.cutoff_rho)
                    t = ConfigParser(io.StringIO(later)).tabulation
                    got = (t.nr, t.cutoff, t.nrho, t.cutoff_rho)
                    tab = Configuration().read(io.StringIO(later))
                    got2 = (tab.nr, tab.cutoff)
                except Exception as e:
                    bad.append(("internal-exception", "r", "file with %s after another file: %s: %s" % (what, type(e).__name__, e), later))
                    continue
                n += 1
                if any(g is not None for g in got) or got2 != (1001, 10.0):
                    bad.append(("wrong-grid", "r", "a file with %s, read after a file that fixes nr / cutoff, gives %s (tabulation: nr=%s cutoff=%s); it gives no option, so the defaults nr=1001 cutoff=10.0 apply" % (
                        what, got, got2[0], got2[1]), earlier + "\n----- then -----\n" + later))
    return dict(idx=idx, bad=bad, n=n)


def _lattice_chunk(rng):
    lo, hi = rng
    bad = []
    n = 0
    for idx in range(lo, hi):
        c = _LATTICE[idx]
        dr = F(c["a"], 10 ** c["e"])
        cut = F(c["cutnum"], 10 ** c["e"])
        for grid in ("r", "rho"):
            n_nr, n_dr, n_cut = NAMES[grid]
            lines = ["%s : %s" % (n_dr, decstr(dr)), "%s : %s" % (n_cut, decstr(cut))]
            obs, text = observe_parser(lines, grid)
            n += 1
            if obs[0] != "accept":
                bad.append((idx, "rejects-valid" if obs[0] == "reject" else "internal-exception", grid, "%s: %s" % (lines, obs[1]), None))
            elif obs[1] != c["nr"] or not close(obs[2], float(cut)):
                bad.append((idx, "commensurate", grid, "%s: cutoff = %d x step must give %d rows ending at %s; got nr=%s cutoff=%s" % (
                    lines, c["k"], c["nr"], decstr(cut), obs[1], obs[2]), None))
            else:
                # the other two spellings of the same grid: the row count with the step (the cutoff is their product), the row
                # count with the cutoff
                for lines2 in (["%s : %d" % (n_nr, c["nr"]), "%s : %s" % (n_dr, decstr(dr))], ["%s : %d" % (n_nr, c["nr"]), "%s : %s" % (n_cut, decstr(cut))]):
                    obs3, text3 = observe_parser(lines2, grid)
                    n += 1
                    if obs3[0] != "accept" or obs3[1] != c["nr"] or not close(obs3[2], float(cut)):
                        bad.append((idx, "commensurate", grid, "%s: %d rows of step %s end at %s; got %s" % (lines2, c["nr"], decstr(dr), decstr(cut), obs3[1:]), None))
                        break
            if not bad and idx % 211 == 0 and c["nr"] >= 3 and c["nr"] <= 3000:
                obs2, text2 = observe_table(lines, grid, "LAMMPS" if grid == "r" else "setfl")
                n += 1
                if obs2[0] != "accept" or obs2[1] != c["nr"] or not close(obs2[2], float(cut)) or not close(obs2[3], float(dr)):
                    bad.append((idx, "table-grid", grid, "%s: written table %s, statement says %d rows of step %s ending at %s" % (lines, obs2[:4], c["nr"], decstr(dr), decstr(cut)), None))
    return dict(bad=bad, n=n)


def main(prop, tier, seed):
    global _TABLE, _LATTICE
    import multiprocessing as mp
    run = Run("C11", tier, seed)
    run.assumptions = ["lengths of the decision table are multiples of 0.25 (exact in binary floating point); the lattice uses decimal strings exactly as a user types them",
                       "cutoff not a whole multiple of the step: the statement is silent, nothing asserted"]
    try:
        cfg = "Grid_fixed" if tier == "quick" else "Grid_fixed_thorough"
        res = tlc.run("Grid", cfg + ".cfg", env={"EMIT": "1"}, coverage=True, keep=True, timeout=1500)
        try:
            if res.violated:
                run.machinery("TLC: %s violated on %s\n%s" % (res.violated, cfg, res.stdout[-1500:]))
            else:
                run.add_tlc(cfg, res)
                _TABLE = tlc.read_ndjson(os.path.join(res.outdir, "table.ndjson"))
                lat = tlc.read_ndjson(os.path.join(res.outdir, "lattice.ndjson"))
                # the statement's range: steps 1e-4 .. 0.5, 2 .. 20000 rows (and a little beyond)
                _LATTICE = [c for c in lat if F(1, 10000) <= F(c["a"], 10 ** c["e"]) <= F(1, 2) and c["nr"] <= 20001]
        finally:
            tlc.cleanup(res)
        # the unrepaired-code model must still exhibit the truthiness defect (anti-vacuity of ImplAgrees)
        res2 = tlc.run("Grid", "Grid_code.cfg", keep=False, timeout=600)
        run.notes["unrepaired_model_violates"] = res2.violated
        if res2.violated != "ImplAgrees":
            run.machinery("anti-vacuity: the transcription with Python truthiness should violate ImplAgrees, TLC says %r" % res2.violated)
        for cfg2, want in (("Grid_twofiles.cfg", None), ("Grid_sticky.cfg", "ImplAgrees")):
            res3 = tlc.run("Grid", cfg2, keep=False, timeout=900)
            if res3.violated != want:
                run.machinery("%s: expected %r, TLC says %r" % (cfg2, want, res3.violated))
            elif want is None:
                run.add_tlc(cfg2[:-4], res3)
        if not run.machinery_errors:
            with mp.Pool(min(16, os.cpu_count() or 1)) as pool:
                r1 = pool.map(_table_one, range(len(_TABLE)), chunksize=4)
                step = max(1, len(_LATTICE) // 128)
                r2 = pool.map(_lattice_chunk, [(i, min(i + step, len(_LATTICE))) for i in range(0, len(_LATTICE), step)])
            for r in r1:
                case = _TABLE[r["idx"]]
                run.evaluations += r["n"]
                run.replayed += 1
                pres = sum(1 for k in ("nr", "dr", "cut") if case["inp"][k] != ABSENT)
                if pres >= 2:
                    run.distinct("table:" + json.dumps(case["inp"], sort_keys=True))
                if len(run.samples) < 3 and r["idx"] % 50 == 7:
                    run.sample(dict(kind="decision-table", input_quarters=case["inp"], expect=case["expect"], lines=tab_lines("r", case["inp"])))
                for clause, grid, msg, text in r["bad"][:1]:
                    zero_nr = case["inp"]["nr"] == 0
                    zero_cut = case["inp"]["cut"] == 0
                    run.violation(dict(engine="grid", clause=clause, grid=grid, zero_nr=zero_nr, zero_cut=zero_cut),
                                  "[%s] %s grid: %s" % (clause, grid, msg), dict(case=case, ini=text))
            for r in r2:
                run.evaluations += r["n"]
                for idx, clause, grid, msg, text in r["bad"]:
                    c = _LATTICE[idx]
                    run.violation(dict(engine="grid", clause=clause, grid=grid), "[%s] %s grid: %s" % (clause, grid, msg), dict(case=c))
            run.replayed += len(_LATTICE)
            for c in _LATTICE[:: max(1, len(_LATTICE) // 3)][:3]:
                run.sample(dict(kind="commensurate", step="%d e-%d" % (c["a"], c["e"]), k=c["k"], rows=c["nr"]))
            for c in _LATTICE:
                run.distinct("lat:%d:%d:%d" % (c["a"], c["e"], c["k"]))
            # a given cutoff is the cutoff of the table, also when it is no whole multiple of the given step (CutoffGivenIsKept)
            for cut, step in (("10.0", "0.03"), ("6.5", "0.4"), ("1.0", "0.3"), ("2.5", "0.7"), ("12", "0.35")):
                for grid in ("r", "rho"):
                    n_nr, n_dr, n_cut = NAMES[grid]
                    lines = ["%s : %s" % (n_cut, cut), "%s : %s" % (n_dr, step)]
                    obs, text = observe_parser(lines, grid)
                    run.evaluations += 1
                    if obs[0] != "accept" or not close(obs[2], float(cut)):
                        run.violation(dict(engine="grid", clause="wrong-grid", grid=grid), "[wrong-grid] %s grid: %s gives %s; the cutoff given is the cutoff of the table" % (grid, lines, obs[1:]), dict(ini=text))
                        continue
                    for target in (["LAMMPS", "GULP", "setfl"] if grid == "r" else ["setfl", "DL_POLY_EAM", "LAMMPS_eam_alloy"]):
                        obs2, text2 = observe_table(lines, grid, target)
                        run.evaluations += 1
                        if obs2[0] != "accept" or obs2[1] != obs[1] or not close(obs2[2], float(cut)) or abs(obs2[3] - float(cut) / (obs[1] - 1)) > 1e-6:      # the tables print 8 decimals
                            run.violation(dict(engine="grid", clause="table-grid", grid=grid), "[table-grid] %s grid: %s via %s: table %s; it must have the %d rows the reader derives, equally spaced and ending at the cutoff %s" % (
                                grid, lines, target, obs2[1:], obs[1], cut), dict(ini=text2))
            run.rule = "cases = 216 presence/sign classes x 2 grids (x written tables) + decimal lattice (a*10^-e, k) within steps 1e-4..0.5 and <= 20001 rows x 2 grids; non-trivial = >= 2 options present / every lattice point"
    except tlc.TLCError as e:
        run.machinery(str(e))
    return run.finish()
