"""Layout engine: C01-C05, C19 (and the fault runs of C17).

(M) TLC checks spec/Layout.tla (writer models composed with consumer models) and emits every model of the bound
    together with its abstract file (plan);
(R) every emitted case is rendered to Python objects / .ini text / a potable command line, pushed through the real
    code of $VERIF_REPO, the output is read back the way its consumer reads it and compared record by record and cell
    by cell with the plan, cell values being exact rationals of the probe algebra;
(T) see engines/layout_trace.py.
"""
import io, json, os, sys, random, tempfile, shutil
from fractions import Fraction as F

from lib import boot, tlc, formats
from lib.probes import Poly, probe, coeffs_int, agrees, token_value, ZERO, EPS
from lib.formats import FormatError

P = boot.boot()
from atsim.potentials import Potential, EAMPotential                      # noqa: E402
from atsim.potentials import pair_tabulation as PT, eam_tabulation as ET  # noqa: E402
from atsim.potentials.config import Configuration                         # noqa: E402
from atsim.potentials.config._common import ConfigurationException        # noqa: E402

POOLS = {
    "real": ["Al", "Cu", "Fe", "Ni"],
    "fake": ["Aa", "Bq1", "Cxx", "Dzzzzzzz"],
    "pairA": ["B", "O", "U", "Xe"],
    "pairB": ["Gd3", "Gd4", "Ob", "Zr"],
}

# which TLC configurations serve which property, per tier
CONFIGS = {
    "C01": dict(quick=["Layout_pair_quick", "Layout_pair_big", "Layout_pairdup_quick"], thorough=["Layout_pair_thorough", "Layout_pair_big", "Layout_pairdup_quick"], targets=["LAMMPS"]),
    "C02": dict(quick=["Layout_pair_quick", "Layout_pair_big", "Layout_pairdup_quick"], thorough=["Layout_pair_thorough", "Layout_pair_big", "Layout_pairdup_quick"], targets=["DLPOLY"]),
    "C03": dict(quick=["Layout_eam_quick", "Layout_eamu_quick", "Layout_eamf_quick"], thorough=["Layout_eam_thorough", "Layout_eamu_quick", "Layout_eamf_quick"], targets=["setfl"]),
    "C04": dict(quick=["Layout_fs_quick", "Layout_fsu_quick", "Layout_fsf_quick"], thorough=["Layout_fs_thorough", "Layout_fsu_thorough", "Layout_fsf_quick"], targets=["setfl_fs", "DL_POLY_EAM_fs", "excel_eam_fs"]),
    "C05": dict(quick=["Layout_eam_quick", "Layout_fs_quick", "Layout_eamu_quick", "Layout_fsu_quick", "Layout_eamf_quick", "Layout_fsf_quick"],
                thorough=["Layout_eam_thorough", "Layout_fs_thorough", "Layout_eamu_quick", "Layout_fsu_thorough", "Layout_eamf_quick", "Layout_fsf_quick"],
                targets=["DL_POLY_EAM", "DL_POLY_EAM_fs"]),
    "C19": dict(quick=["Layout_pair_quick", "Layout_pair_big", "Layout_pairdup_quick", "Layout_eam_quick", "Layout_eamu_quick", "Layout_eamf_quick", "Layout_fs_quick", "Layout_fsf_quick", "Layout_adp_quick", "Layout_adpu_quick", "Layout_funcfl"],
                thorough=["Layout_pair_thorough", "Layout_pair_big", "Layout_eam_thorough", "Layout_eamf_quick", "Layout_fs_thorough", "Layout_fsf_quick", "Layout_adp_thorough", "Layout_adpu_quick", "Layout_funcfl"],
                targets=["GULP", "excel", "excel_eam", "excel_eam_fs", "eam_adp", "funcfl"]),
}

ROUTES = {
    "LAMMPS": ["class", "wp", "ini", "cli"],
    "DLPOLY": ["class", "wp", "ini", "cli"],
    "GULP": ["class", "wp", "ini", "cli"],
    "excel": ["class", "ini", "cli"],
    "setfl": ["func", "class", "ini", "cli"],
    "setfl_fs": ["func", "class", "ini", "cli"],
    "eam_adp": ["class", "ini", "cli"],
    "DL_POLY_EAM": ["func", "class", "ini", "cli"],
    "DL_POLY_EAM_fs": ["func", "class", "ini", "cli"],
    "excel_eam": ["class", "ini", "cli"],
    "excel_eam_fs": ["class", "ini", "cli"],
    "funcfl": ["func"],
}
BINARY = ("excel", "excel_eam", "excel_eam_fs")
WP_NAME = {"LAMMPS": "LAMMPS", "DLPOLY": "DL_POLY", "GULP": "GULP"}
# spellings of the target a potable file may use (documented synonyms)
INI_TARGETS = {"DLPOLY": ["DLPOLY", "DL_POLY"], "setfl": ["setfl", "lammps_eam_alloy"]}

H = 1e-6   # Potential's numerical differentiation step


# ------------------------------------------------------------------------------------------------ context of one case
class Ctx(object):
    """Concrete rendering choices for one abstract case: labels, grid, probe flavour, metadata source."""

    def __init__(self, case, idx, seed=0, variant=0):
        self.case = case
        self.variant = variant
        self.m = m = case["m"]
        self.plan = case["plan"]
        self.idx = idx
        rnd = random.Random((seed + 1) * 1000003 + idx)
        fam = m["fam"]
        if fam == "pair":
            self.pool = ["pairA", "pairB", "real", "fake"][idx % 4]
        else:
            self.pool = ["real", "fake", "real"][idx % 3]
        self.meta = ["builtin", "species", "override"][(idx // 3) % 3] if self.pool == "real" else "species"
        self.labels = POOLS[self.pool]
        nr, nrho = m["nr"], m["nrho"]
        # cutoff: dyadic step (binary floating point exact), decimal, integer
        cuts = [F(nr - 1, 4), F(13, 2), F(10)]
        if m["tgt"] == "DLPOLY":
            cuts = [F(max(nr - 4, 1), 4), F(13, 2), F(10)]
        self.cutoff = cuts[idx % 3]
        if idx % 7 == 3 and nr < 1000:
            self.cutoff = F(628721, 100000)      # a cutoff with five decimals
        if nr >= 1000:      # fine grids: decimal cutoffs whose accumulated rounding differs (one job per variant)
            self.cutoff = [F(13, 2), F(10), F(12), F(15), F(20)][variant % 5]
        self.cutoff_rho = [F(max(nrho - 1, 1), 2), F(3), F(100)][(idx // 3) % 3] if nrho else F(100)
        self.flavour = ["analytic", "numeric"][(idx // 2) % 2] if fam == "pair" else "analytic"
        self.rev = (idx // 5) % 2 == 1        # reverse the order of density / pair entries in the .ini file
        self.rnd = rnd

    def L(self, rank):
        return self.labels[rank - 1]

    def dr(self):
        return self.cutoff / (self.m["nr"] - 1)

    def drho(self):
        return self.cutoff_rho / (self.m["nrho"] - 1)

    def x(self, grid, k):
        """exact abscissa of grid index k"""
        if self.m["tgt"] == "DLPOLY":
            return k * self.cutoff / (self.m["nr"] - 4)
        return k * (self.dr() if grid == "r" else self.drho())

    def describe(self):
        return dict(pool=self.pool, meta=self.meta, cutoff=str(self.cutoff), cutoff_rho=str(self.cutoff_rho),
                    flavour=self.flavour, rev=self.rev)


def dec(fr):
    """exact decimal string of a Fraction with terminating expansion (used in .ini text)"""
    fr = F(fr)
    if fr.denominator == 1:
        return str(fr.numerator)
    s = "%.12f" % float(fr)
    s = s.rstrip("0")
    assert F(s) == fr, (s, fr)
    return s


class Counter(object):
    """shared evaluation counter; raises at the fail_at-th evaluation (C17)"""

    def __init__(self, fail_at=0, exc=None):
        self.n = 0
        self.fail_at = fail_at
        self.exc = exc or ProbeFault
        self.log = []
        self.earlier_model = False      # while set, every function returns the values of an EARLIER state of the model (a fit in progress)

    def tick(self, tag, x):
        self.n += 1
        if self.fail_at and self.n == self.fail_at:
            if self.exc is ReturnsNone:
                return True
            raise self.exc("injected failure at evaluation %d (%s at %r)" % (self.n, tag, x))
        return False


class ProbeFault(ArithmeticError):
    pass


class ReturnsNone(Exception):
    """not raised: stands for a user function that RETURNS something no table can hold - a complex number, as Python's ** gives
    for a negative base and a fractional exponent (pow(as.polynomial 3 -1, as.constant 0.5) beyond r = 3) - so that the failure
    surfaces only when the writer formats the value, possibly long after the evaluation"""


# a user function may fail with any exception: the kinds below are what look-up tables, generators, dictionaries and arithmetic
# raise (StopIteration and KeyError are also what iteration protocols and mappings use internally)
FAULT_KINDS = (ProbeFault, StopIteration, KeyError, ValueError, ZeroDivisionError, IndexError, OverflowError)


class PyFn(object):
    """Python callable for the API routes (energy only; .deriv attached separately when analytic)"""

    def __init__(self, poly, counter, tag, analytic=True):
        self.poly = poly
        self.counter = counter
        self.tag = tag
        self.zero = poly.is_zero()      # zero functions cannot fail: they are not counted as evaluations
        if analytic:
            d1 = poly.deriv()
            d2 = d1.deriv()

            def deriv(r, _d=d1):
                if self.counter.tick(self.tag + " deriv", r):
                    return complex(0.5, 1.5)
                return _d.fl(r)

            def deriv2(r, _d=d2):
                return _d.fl(r)
            self.deriv = deriv
            self.deriv2 = deriv2

    def __call__(self, r):
        if not self.zero:
            if self.counter.tick(self.tag, r):
                return complex(0.5, 1.5)
        if self.counter.earlier_model:
            return self.poly.fl(r) + 1.0
        return self.poly.fl(r)


# ------------------------------------------------------------------------------------------------ building inputs
def fnkey(fn):
    return (fn["f"], fn["s"], fn["t"])


def pair_fn(a, b, kind="pair"):
    return dict(f=kind, s=min(a, b), t=max(a, b))


def species_meta(ctx, rank):
    """(Z, mass, lattice constant, lattice type) the file must carry for this element, and the [Species] lines"""
    lab = ctx.L(rank)
    from atsim.potentials.referencedata._data import reference_data
    lines = []
    if ctx.meta == "builtin":
        rd = reference_data[lab]
        return (rd.atomic_number, F(repr(rd.atomic_mass)), F(0), "fcc"), lines
    if ctx.meta == "override":
        rd = reference_data[lab]
        mass = F(100 + rank) + F(1234567, 10 ** 7)          # seven decimals: nothing of them may be lost
        lc = F(3) + F(rank, 8) + F(1, 10 ** 7)
        lt = ["bcc", "HCP", "Fcc", "sc"][rank - 1]      # the lattice type is carried over as written
        lines = ["%s.atomic_mass : %s" % (lab, dec(mass)), "%s.lattice_constant : %s" % (lab, dec(lc)),
                 "%s.lattice_type : %s" % (lab, lt)]
        return (rd.atomic_number, mass, lc, lt), lines
    z = 100 + rank
    mass = F(200 + rank) + F(1, 2)
    if ctx.pool == "real":   # full override of a known element
        lc, lt = F(4) + F(rank, 16), "bcc"
        if (ctx.idx // 9) % 2 == 1:
            # zero-valued overrides are overrides too (they must not fall back to the element table)
            z = 0 if rank == 1 else z
            mass = F(0) if rank == 2 else mass
            lc = F(0) if rank >= 2 else lc
        lines = ["%s.atomic_number : %d" % (lab, z), "%s.atomic_mass : %s" % (lab, dec(mass)),
                 "%s.lattice_constant : %s" % (lab, dec(lc)), "%s.lattice_type : %s" % (lab, lt)]
        return (z, mass, lc, lt), lines
    lines = ["%s.atomic_number : %d" % (lab, z), "%s.atomic_mass : %s" % (lab, dec(mass))]
    return (z, mass, F(0), "fcc"), lines      # documented defaults 0.0 / fcc


def ini_poly(p, flavour="analytic", form="pf", lim=None):
    if p.is_zero():
        return ">=0 as.zero"
    c = coeffs_int(p)
    if lim is not None:       # C17: the formula leaves its domain (sqrt of a negative number) for r > lim
        return ">=0 %s %s %s" % (form if form.startswith("pfbad") else "pfbad", " ".join(str(x) for x in c), dec(lim))
    if flavour == "numeric":
        return ">=0 %s %s" % (form, " ".join(str(x) for x in c))
    return ">=0 as.polynomial %s" % " ".join(str(x) for x in c)


def render_ini(ctx, target_spelling=None, bad=None):
    """bad: None or (fn record, lim[, how]): that function fails at every abscissa > lim - how = "py": Python's math.sqrt of a
    negative number (raises); "native": the expression library's own sqrt / log of a negative number (its only way of
    reporting a domain error is a not-a-number result)"""
    m = ctx.m

    # every definition of the file may start with the SAME first range (never sampled: it ends at r = 0), so that anything the
    # implementation remembers about a definition by its leading form and parameters alone shows
    # (a second spelling of that first range is the parameter-less as.zero: a definition that BEGINS with as.zero is not the zero function)
    head = (">=-9 as.constant 7 " if (ctx.idx // 2) % 4 == 3 else ">=-9 as.zero " if (ctx.idx // 2) % 4 == 1 else "") if bad is None else ""

    def IP(fn, flavour="analytic"):
        if bad is not None and fnkey(fn) == fnkey(bad[0]):
            return ini_poly(probe(fn), flavour, lim=bad[1], form={"py": "pfbad", "native": "pfbadn", "nativelog": "pfbadl", "nested": "pfbadm", "pole": "pfbadp"}[bad[2] if len(bad) > 2 else "py"])
        return head + ini_poly(probe(fn), flavour)
    tgt = target_spelling or m["tgt"]
    L = ctx.L
    out = ["[Tabulation]", "target : %s" % tgt, "nr : %d" % m["nr"], "cutoff : %s" % dec(ctx.cutoff)]
    if ctx.case.get("rejects") and bad is None:
        # a row count that must be refused is refused however the rest of the section spells the extent of the table:
        # nr + cutoff, nr alone (the cutoff takes its default), nr + dr
        out = [out[:4], out[:3], out[:3] + ["dr : 0.25"]][ctx.idx % 3]
    if m["nrho"]:
        out += ["nrho : %d" % m["nrho"], "cutoff_rho : %s" % dec(ctx.cutoff_rho)]
    out.append("")
    if ctx.flavour == "numeric" or bad is not None:
        out += ["[Potential-Form]", "pf(r, a, b, c) = a + b*r + c*r^2",
                "pfbad(r, a, b, c, lim) = a + b*r + c*r^2 + (pymath.sqrt(lim - r) - pymath.sqrt(lim - r))",
                "pfbadn(r, a, b, c, lim) = a + b*r + c*r^2 + (sqrt(lim - r) - sqrt(lim - r))",
                "pfbadl(r, a, b, c, lim) = a + b*r + c*r^2 + (log(lim - r) - log(lim - r))",
                # a pole: the expression library's division by zero is an infinite value, not an exception
                "pfbadp(r, a, b, c, lim) = a + b*r + c*r^2 + if(r > lim, 1/(r - r), 0)",
                # the failing form is called from another form, inside a construct that would absorb a not-a-number (max / min)
                "pfinner(r, lim) = sqrt(lim - r) - sqrt(lim - r)",
                "pfbadm(r, a, b, c, lim) = a + b*r + c*r^2 + min(0, max(0, pfinner(r, lim)))", ""]
    pairs = ["%s-%s : %s" % (L(a), L(b), IP(pair_fn(a, b), ctx.flavour)) for a, b in m["pots"]]
    if ctx.rev:
        pairs.reverse()
    if m["fam"] != "pair":
        emb = ["%s : %s" % (L(a), IP(dict(f="embed", s=a, t=0))) for a in m["els"] if a in m["embedDecl"]]
        if m["fam"] == "fs":
            dens = ["%s->%s : %s" % (L(a), L(b), IP(dict(f="dens", s=a, t=b))) for a, b in m["densDecl"]]
        else:
            dens = ["%s : %s" % (L(a), IP(dict(f="dens", s=a, t=0))) for a, _ in m["densDecl"]]
        if ctx.rev:
            dens.reverse()
        sec = [["[EAM-Embed]"] + emb + [""], ["[EAM-Density]"] + dens + [""], ["[Pair]"] + pairs + [""]]
        if ctx.idx % 2:
            sec = [sec[2], sec[1], sec[0]]
        for s in sec:
            out += s
        if m["fam"] == "adp":
            dip = ["%s-%s : %s" % (L(a), L(b), IP(pair_fn(a, b, "dip"))) for a, b in m["dip"]]
            quad = ["%s-%s : %s" % (L(a), L(b), IP(pair_fn(a, b, "quad"))) for a, b in m["quad"]]
            out += ["[EAM-ADP-Dipole]"] + dip + ["", "[EAM-ADP-Quadrupole]"] + quad + [""]
        sp = []
        for a in m["els"]:
            sp += species_meta(ctx, a)[1]
        if (ctx.idx // 2) % 3 == 2:
            # the entries of one species need not be next to each other (written property by property)
            sp.sort(key=lambda ln: (ln.split(".", 1)[1].split(":")[0].strip(), ln))
        elif (ctx.idx // 2) % 3 == 1:
            sp = sp[::2] + sp[1::2]
        if sp:
            out += ["[Species]"] + sp + [""]
    else:
        out += ["[Pair]"] + pairs + [""]
    return "\n".join(out) + "\n"


class ConvertedPotential(Potential):
    """a Potential whose energy() / force() are its own (the way a sub-class converts units or adds a correction): the callable
    handed to the base class is a decoy, the model is what energy() and force() return"""

    def __init__(self, a, b, fn):
        Potential.__init__(self, a, b, lambda r: 12345.0 + 0.5 * r)
        self._true = Potential(a, b, fn)

    def energy(self, r):
        return self._true.energy(r)

    def force(self, r, h=1e-6):
        return self._true.force(r)


class LazyDict(dict):
    """a dictionary that holds nothing until it is asked: d[key] works, d.get(key) and iteration see an empty mapping"""

    def __init__(self, full):
        dict.__init__(self)
        self._full = dict(full)

    def __missing__(self, key):
        v = self._full[key]
        self[key] = v
        return v


def build_objects(ctx, counter):
    """Python-API objects of the model: (pair Potentials, EAMPotentials, dipoles, quadrupoles)"""
    m = ctx.m
    L = ctx.L
    analytic = ctx.flavour == "analytic"

    # the writers use a potential through energy() and force(): every third pair model hands over sub-classed potentials
    P_ = ConvertedPotential if (m["fam"] == "pair" and m["tgt"] in ("LAMMPS", "DLPOLY", "GULP", "excel") and ctx.idx % 3 == 2) else Potential

    def pots_of(lst, kind):
        return [P_(L(a), L(b), PyFn(probe(pair_fn(a, b, kind)), counter, "%s %d-%d" % (kind, a, b), analytic)) for a, b in lst]
    pots = pots_of(m["pots"], "pair")
    eams = []
    for a in m["els"]:
        (z, mass, lc, lt), _ = species_meta(ctx, a)
        emb = PyFn(probe(dict(f="embed", s=a, t=0)) if a in m["embedDecl"] else ZERO, counter, "embed %d" % a)
        if m["fam"] == "fs":
            dd = {}
            for b in m["els"]:
                declared = [a, b] in m["densDecl"]
                dd[L(b)] = PyFn(probe(dict(f="dens", s=a, t=b)) if declared else ZERO, counter, "dens %d->%d" % (a, b))
            if (ctx.idx // 2) % 3 == 1 and len(m["els"]) < len(ctx.labels) and m["tgt"] in ("setfl_fs", "DL_POLY_EAM_fs"):
                # the dictionary may know more neighbours than the table has elements (dictionaries shared between models):
                # a density towards a species that is not tabulated is nowhere in a setfl / TABEAM file (the Excel writer lists
                # every key of the dictionary as a column: not asserted either way)
                foreign = [lab for lab in ctx.labels if lab not in [L(x) for x in m["els"]]][0]
                dd[foreign] = PyFn(probe(dict(f="dens", s=a, t=a)), counter, "dens %d->foreign" % a)
            if ctx.idx % 5 == 4 and m["tgt"] in ("setfl_fs", "DL_POLY_EAM_fs"):
                # the text writers look densities up by element: any mapping will do, here one that produces the functions on first
                # look-up (a dict with __missing__, like collections.defaultdict); the Excel writer lists the mapping's keys instead
                dd = LazyDict(dd)
            dens = dd
        else:
            dens = PyFn(probe(dict(f="dens", s=a, t=0)) if [a, 0] in m["densDecl"] else ZERO, counter, "dens %d" % a)
        eams.append(EAMPotential(L(a), z, float(mass), emb, dens, float(lc), lt))
    return pots, eams, pots_of(m.get("dip", []), "dip"), pots_of(m.get("quad", []), "quad")


CLASSES = {"LAMMPS": PT.LAMMPS_PairTabulation, "DLPOLY": PT.DLPoly_PairTabulation, "GULP": PT.GULP_PairTabulation,
           "excel": PT.Excel_PairTabulation, "setfl": ET.SetFL_EAMTabulation, "setfl_fs": ET.SetFL_FS_EAMTabulation,
           "DL_POLY_EAM": ET.TABEAM_EAMTabulation, "DL_POLY_EAM_fs": ET.TABEAM_FinnisSinclair_EAMTabulation,
           "excel_eam": ET.Excel_EAMTabulation, "excel_eam_fs": ET.Excel_FinnisSinclair_EAMTabulation,
           "eam_adp": ET.ADP_EAMTabulation}


class Sink(object):
    """recording file object: remembers every write"""

    def __init__(self, binary=False):
        self.binary = binary
        self.writes = []

    def write(self, s):
        self.writes.append(s)
        return len(s)

    def writelines(self, lines):
        for ln in lines:          # pulled one at a time, as a real file object does: a failing generator leaves what came before
            self.write(ln)

    def flush(self):
        pass

    def writable(self):
        return True

    def readable(self):
        return False

    def seekable(self):
        return False

    closed = False

    def close(self):
        pass

    def __enter__(self):
        return self

    def __exit__(self, *a):
        return False

    def value(self):
        return (b"" if self.binary else "").join(self.writes)


class StringSink(io.StringIO):
    """the same record kept by a genuine io.StringIO (an in-memory text file is what API users hand to write())"""

    def __init__(self):
        io.StringIO.__init__(self)
        self.binary = False
        self.writes = []

    def write(self, s):
        self.writes.append(s)
        return io.StringIO.write(self, s)

    def writelines(self, lines):
        for ln in lines:
            self.write(ln)

    def value(self):
        return self.getvalue()


def run_cli(args):
    """potable main() in-process; returns (exit status, stdout, stderr)"""
    from atsim.potentials.tools import potable
    old = sys.argv, sys.stdout, sys.stderr
    so, se = io.StringIO(), io.StringIO()
    sys.argv = ["potable"] + list(args)
    sys.stdout, sys.stderr = so, se
    status = 0
    try:
        try:
            potable.main()
        except SystemExit as e:
            status = e.code if isinstance(e.code, int) else (0 if e.code is None else 1)
    finally:
        sys.argv, sys.stdout, sys.stderr = old
        import logging
        logging.disable(logging.CRITICAL)
    return status, so.getvalue(), se.getvalue()


def make_writer(ctx, route, counter):
    """Python-API routes: build the objects once, return write(sink) (may be called repeatedly on the same objects)"""
    m = ctx.m
    tgt = m["tgt"]
    pots, eams, dips, quads = build_objects(ctx, counter)
    cutoff, nr = float(ctx.cutoff), m["nr"]
    crho = float(ctx.cutoff_rho)
    if ctx.idx % 2 == 1:
        # cut-offs that are whole numbers may be handed over as Python ints (as a potable file's 'cutoff : 10' is)
        cutoff = int(ctx.cutoff) if ctx.cutoff.denominator == 1 else cutoff
        crho = int(ctx.cutoff_rho) if ctx.cutoff_rho.denominator == 1 else crho
    if route == "wp":
        return lambda sink: P.writePotentials(WP_NAME[tgt], pots, cutoff, nr, sink)
    if route == "func":
        nrho = m["nrho"]
        dr, drho = cutoff / float(nr - 1), crho / float(nrho - 1)
        # any number of comment strings: the file still has exactly three comment lines
        comments = [[], ["c1"], ["c1", "c2", "c3"], ["c1", "c2", "c3", "c4", "c5"]][ctx.idx % 4]
        # the header's fifth number may be given by the caller (here: three quarters of the tabulated range); the arrays still hold
        # all Nr values
        kw = dict(cutoff=0.75 * (nr - 1) * dr) if ctx.idx % 3 == 1 else {}
        ctx.given_cutoff = kw.get("cutoff") if tgt in ("setfl", "setfl_fs") else None
        f = {"setfl": lambda sink: P.writeSetFL(nrho, drho, nr, dr, eams, pots, sink, comments, **kw),
             "setfl_fs": lambda sink: P.writeSetFLFinnisSinclair(nrho, drho, nr, dr, eams, pots, sink, comments, **kw),
             "DL_POLY_EAM": lambda sink: P.writeTABEAM(nrho, drho, nr, dr, eams, pots, sink, "title"),
             "DL_POLY_EAM_fs": lambda sink: P.writeTABEAMFinnisSinclair(nrho, drho, nr, dr, eams, pots, sink, "title"),
             "funcfl": lambda sink: P.writeFuncFL(nrho, drho, nr, dr, eams, pots, sink, "title")}
        return f[tgt]
    cls = CLASSES[tgt]
    if m["fam"] == "pair":
        tab = cls(pots, cutoff, nr)
    elif tgt == "eam_adp":
        tab = cls(pots, eams, dips, quads, cutoff, nr, crho, m["nrho"])
    else:
        tab = cls(pots, eams, cutoff, nr, crho, m["nrho"])
    return tab.write


def execute(ctx, route, fail_at=0, spelling=None, workdir=None, bad=None, preexisting=None):
    """Run the implementation on the case. Returns dict(outcome='ok'|'raised', exc=..., data=bytes/str, evals=int, sink=Sink)"""
    m = ctx.m
    tgt = m["tgt"]
    binary = tgt in BINARY
    counter = Counter(fail_at)
    sink = Sink(binary)
    res = dict(outcome="ok", exc=None, data=None, evals=0, writes=0, route=route)
    try:
        if route in ("class", "wp", "func"):
            w = make_writer(ctx, route, counter)
            if route == "class" and not fail_at and ctx.idx % 4 == 1:
                # the tabulation object was written once while the model's functions were in an earlier state (a fitting loop
                # writes after every step): the write that is examined must describe the functions as they are NOW
                counter.earlier_model = True
                try:
                    w(Sink(binary))
                finally:
                    counter.earlier_model = False
                res["rewritten_after_change"] = True
            w(sink)
            res["data"] = sink.value()
            if route == "class" and not fail_at:
                # the same tabulation object written a second time
                sink2 = Sink(binary)
                try:
                    w(sink2)
                    res["data2"] = sink2.value()
                except Exception as e:
                    res["data2"] = "raised %s: %s" % (type(e).__name__, str(e)[:160])
                if not binary:
                    # the destination need not be empty (a comment header written first, several tables into one stream): the bytes
                    # this write adds are the bytes it writes into an empty stream
                    sink4 = StringSink()
                    sink4.write("# tables of model 1\n")
                    try:
                        w(sink4)
                        res["data4"] = sink4.value()[len("# tables of model 1\n"):]
                    except Exception as e:
                        res["data4"] = "raised %s: %s" % (type(e).__name__, str(e)[:160])
                if binary:
                    # the Excel tabulations also offer the workbook itself (.workbook): after writing it holds what was written
                    try:
                        import openpyxl  # noqa: F401
                        buf = io.BytesIO()
                        w.__self__.workbook.save(buf)
                        res["data3"] = buf.getvalue()
                    except Exception as e:
                        res["data3"] = "raised %s: %s" % (type(e).__name__, str(e)[:160])
        elif route == "ini":
            text = render_ini(ctx, spelling, bad)
            res["ini"] = text
            tab = Configuration().read(io.StringIO(text))
            tab.write(sink)
            res["data"] = sink.value()
        elif route == "cli":
            text = render_ini(ctx, spelling, bad)
            res["ini"] = text
            d = workdir or tempfile.mkdtemp(prefix="verif-cli-")
            try:
                inp, outp = os.path.join(d, "in.ini"), os.path.join(d, "out.dat")
                with open(inp, "w") as f:
                    f.write(text)
                # the named output file already exists and is LONGER than the new table: nothing of it may survive
                # (preexisting=False: no such file, a refused run must not create one)
                if preexisting is None:
                    preexisting = "stale line of an earlier, longer tabulation 1.0 2.0 3.0\n" * 4000
                if preexisting is not False:
                    with open(outp, "w") as f:
                        f.write(preexisting)
                elif os.path.exists(outp):
                    os.remove(outp)
                # a species filter that deletes nothing leaves the table what it is (C13): every third run excludes a species the model
                # does not have, every third one includes all it has
                filt = []
                if bad is None and ctx.idx % 3 == 1:
                    filt = ["--exclude-species", "Zq9"]
                elif bad is None and ctx.idx % 3 == 2:
                    import re as _re
                    labels, sec_ = set(), None
                    for line in text.splitlines():
                        if line.startswith("["):
                            sec_ = line.strip("[] ")
                        elif sec_ in ("Pair", "EAM-Embed", "EAM-Density", "EAM-ADP-Dipole", "EAM-ADP-Quadrupole") and ":" in line and not line[0].isspace():
                            labels.update(x.strip() for x in _re.split(r"->|-", line.split(":", 1)[0]) if x.strip())
                    if labels:
                        filt = ["--include-species"] + sorted(labels)
                try:
                    status, so, se = run_cli([inp, outp] + filt)
                except Exception as e:      # an exception that escapes main(): the process would end with a traceback
                    status, so, se = 1, "", "uncaught %s: %s" % (type(e).__name__, str(e)[:200])
                    res["exc_type"] = type(e).__name__
                res["status"], res["stderr"] = status, se[-400:]
                if status != 0:
                    res["outcome"] = "raised"
                    res["exc"] = "exit status %s: %s" % (status, se.strip().splitlines()[-1] if se.strip() else "")
                    res["data"] = open(outp, "rb" if binary else "r").read() if os.path.exists(outp) else None
                    res["file_state"] = "absent" if res["data"] is None else "produced"
                    if preexisting is not False and res["data"] is not None and res["data"] == (preexisting.encode() if binary else preexisting):
                        res["data"] = None          # the earlier file was left alone: nothing of this run reached the output
                        res["file_state"] = "untouched"
                else:
                    res["data"] = open(outp, "rb" if binary else "r").read()
            finally:
                if not workdir:
                    shutil.rmtree(d, ignore_errors=True)
    except Exception as e:          # the exception class is part of the observation
        res["outcome"] = "raised"
        res["exc"] = "%s: %s" % (type(e).__name__, str(e)[:200])
        res["exc_type"] = type(e).__name__
        res["exc_is_config"] = isinstance(e, ConfigurationException)
        res["data"] = sink.value()
    res["evals"] = counter.n
    res["writes"] = len(sink.writes)
    return res


# ------------------------------------------------------------------------------------------------ comparison
class Cmp(object):
    """collects disagreements between the observed file and the plan"""

    def __init__(self, ctx, route):
        self.ctx = ctx
        self.route = route
        self.bad = []      # (clause, message)
        self.cells = 0

    def fail(self, clause, msg):
        if len(self.bad) < 8:
            self.bad.append((clause, msg))

    def num(self, clause, tok, exact, cond=F(0), extra=F(0), what=""):
        self.cells += 1
        if not agrees(tok, exact, cond, extra):
            self.fail(clause, "%s: printed %s, specification says %s (= %.12g)" % (what, tok, exact, float(exact)))
            return False
        return True

    def digits(self, clause, tok, exact, rel, what=""):
        """the file DECLARES this value (a grid step, a cutoff): the printed number must determine it to `rel`, not merely be
        consistent with it at whatever precision it happens to be printed"""
        try:
            v = F(float(tok.lower().replace("d", "e")))
        except ValueError:
            return
        if abs(v - F(exact)) > F(rel) * max(abs(F(exact)), F(1, 10 ** 6)):
            self.fail(clause, "%s printed as %s, specification says %s (= %.12g): digits are lost" % (what, tok.strip(), exact, float(exact)))

    def cells_of(self, clause, toks, group, what):
        """a group of the plan against the printed tokens of that group"""
        ctx = self.ctx
        if len(toks) != group["n"]:
            self.fail(clause, "%s: %d values, specification says %d" % (what, len(toks), group["n"]))
            return
        p = probe(group["fn"])
        d1 = p.deriv()
        for j, tok in enumerate(toks):
            k = group["k0"] + j
            x = ctx.x(group["grid"], k)
            scl = group["scl"]
            if scl == "none":
                v = p(x)
            elif scl == "r":
                v = x * p(x)
            elif scl.startswith("sqrt"):
                # funcfl: Z = sqrt(r*phi/27.2/0.529); compare Z^2 with the exact rational (relative 1e-12)
                self.cells += 1
                try:
                    z = F(tok)
                except Exception:
                    self.fail(clause, "%s[%d]: unreadable %r" % (what, k, tok))
                    return
                ex = x * p(x) / F("27.2") / F("0.529")
                unit = token_value(tok)[1]
                if abs(z * z - ex) > 2 * abs(z) * unit + unit * unit + F(1, 10 ** 12) * abs(ex):
                    self.fail(clause, "%s[%d]: Z=%s, Z^2*27.2*0.529/r does not return the pair potential (%s expected for Z^2)" % (what, k, tok, float(ex)))
                    return
                continue
            else:
                raise AssertionError(scl)
            cond = p.absval(x) * (abs(x) if scl == "r" else 1) + abs(x * d1(x))
            if not self.num(clause, tok, v, cond, what="%s[k=%d, x=%s]" % (what, k, x)):
                return


def label_pair_key(a, b):
    return tuple(sorted([a, b]))


def cmp_lammps(c, plan, text):
    ctx = c.ctx
    blocks = formats.parse_lammps_table(text)
    exp = [plan[i:i + 3] for i in range(0, len(plan), 3)]
    if len(blocks) != len(exp):
        c.fail("one-block-per-potential", "%d blocks in file, %d potentials in model" % (len(blocks), len(exp)))
    for title, hdr, rows in exp:
        la, lb = ctx.L(title["a"]), ctx.L(title["b"])
        cands = [b for b in blocks if b["title"] in ("%s-%s" % (la, lb), "%s-%s" % (lb, la))]
        mult = sum(1 for t2, _, _ in exp if {t2["a"], t2["b"]} == {title["a"], title["b"]})     # 1 unless the caller listed the pair twice
        if len(cands) != mult:
            c.fail("one-block-per-potential", "%d blocks titled %s-%s, the list of potentials has %d" % (len(cands), la, lb, mult))
            continue
        b = cands[0]
        if b["N"] != hdr["N"]:
            c.fail("header-N", "block %s declares N=%d, specification says nr-1=%d" % (b["title"], b["N"], hdr["N"]))
        c.num("header-lo", b["lo"], ctx.x("r", hdr["lo"]), what="R lo of %s" % b["title"])
        c.num("header-hi", b["hi"], ctx.x("r", hdr["hi"]), what="R hi of %s" % b["title"])
        if len(b["rows"]) != rows["n"]:
            c.fail("row-count", "block %s has %d rows, specification says %d" % (b["title"], len(b["rows"]), rows["n"]))
            continue
        if b["rows"] and (float(b["lo"]) != float(b["rows"][0][1]) or float(b["hi"]) != float(b["rows"][-1][1])):
            # the header's R lo hi and the first / last row are the same separations, printed by the same writer
            c.fail("header-body", "block %s: header R %s %s, first row at %s, last row at %s" % (b["title"], b["lo"], b["hi"], b["rows"][0][1], b["rows"][-1][1]))
        p = probe(rows["fn"])
        d1 = p.deriv()
        numeric = ctx.flavour == "numeric"
        for j, row in enumerate(b["rows"]):
            k = rows["k0"] + j
            x = ctx.x("r", k)
            if row[0] != str(rows["n0"] + j):
                c.fail("row-number", "block %s row %d is numbered %s" % (b["title"], j + 1, row[0]))
                break
            cond = p.absval(x) + abs(x * d1(x))
            ok = c.num("row-r", row[1], x, what="%s row %d r" % (b["title"], j + 1))
            ok = ok and c.num("energy", row[2], p(x), cond, what="%s row %d energy at r=%s" % (b["title"], j + 1, x))
            extra = (16 * EPS * p.absval(x) / F(H)) if numeric else F(0)
            ok = ok and c.num("force", row[3], -d1(x), cond, extra, what="%s row %d force at r=%s" % (b["title"], j + 1, x))
            if not ok:
                break


def cmp_dlpoly(c, plan, text):
    ctx = c.ctx
    t = formats.parse_dlpoly_table(text)
    hdr = plan[1]
    if t["ngrid"] != hdr["ngrid"]:
        c.fail("header-ngrid", "ngrid=%d, specification says %d" % (t["ngrid"], hdr["ngrid"]))
    c.num("header-delpot", t["delpot"], ctx.cutoff / hdr["delden"], what="delpot")
    c.num("header-cutpot", t["cutpot"], ctx.cutoff, what="cutpot")
    c.digits("header-delpot", t["delpot"], ctx.cutoff / hdr["delden"], F(1, 10 ** 7), what="delpot")      # the consumer computes every r from it
    c.digits("header-cutpot", t["cutpot"], ctx.cutoff, F(1, 10 ** 7), what="cutpot")
    exp = [plan[i:i + 3] for i in range(2, len(plan), 3)]
    if len(exp) != len(t["blocks"]):
        c.fail("one-block-per-potential", "%d blocks in file, %d potentials in model" % (len(t["blocks"]), len(exp)))
    numeric = ctx.flavour == "numeric"
    for lab, e, f in exp:
        la, lb = ctx.L(lab["a"]), ctx.L(lab["b"])
        cands = [b for b in t["blocks"] if label_pair_key(b["a"], b["b"]) == label_pair_key(la, lb)]
        mult = sum(1 for l2, _, _ in exp if {l2["a"], l2["b"]} == {lab["a"], lab["b"]})
        if len(cands) != mult:
            c.fail("one-block-per-potential", "%d blocks labelled %s %s, the list of potentials has %d" % (len(cands), la, lb, mult))
            continue
        b = cands[0]
        p = probe(e["fn"])
        d1 = p.deriv()
        for sec, g in (("E", e), ("F", f)):
            vals = b[sec]
            if len(vals) != g["n"]:
                c.fail("value-count", "%s %s %s: %d values, specification says %d" % (la, lb, sec, len(vals), g["n"]))
                continue
            for j, tok in enumerate(vals):
                k = g["k0"] + j
                x = ctx.x("r", k)
                # r is accumulated by repeated addition in the writer: allow k roundings of r
                cond = (p.absval(x) + abs(x * d1(x)) + abs(x * x * d1.deriv()(x))) * (k + 1)
                if sec == "E":
                    ok = c.num("energy", tok, p(x), cond, what="%s-%s energy %d at r=%s" % (la, lb, k, x))
                else:
                    extra = (16 * EPS * p.absval(x) * abs(x) / F(H)) if numeric else F(0)
                    ok = c.num("force", tok, -x * d1(x), cond, extra, what="%s-%s -r dU/dr %d at r=%s" % (la, lb, k, x))
                if not ok:
                    break


def cmp_gulp(c, plan, text):
    ctx = c.ctx
    blocks = formats.parse_gulp(text)
    exp = [plan[i:i + 3] for i in range(0, len(plan), 3)]
    if len(blocks) != len(exp):
        c.fail("one-block-per-potential", "%d blocks in file, %d potentials in model" % (len(blocks), len(exp)))
    for _, h, rows in exp:
        la, lb = ctx.L(h["a"]), ctx.L(h["b"])
        cands = [b for b in blocks if label_pair_key(b["a"], b["b"]) == label_pair_key(la, lb)]
        mult = sum(1 for _, h2, _ in exp if {h2["a"], h2["b"]} == {h["a"], h["b"]})
        if len(cands) != mult:
            c.fail("one-block-per-potential", "%d blocks for %s %s, the list of potentials has %d" % (len(cands), la, lb, mult))
            continue
        b = cands[0]
        c.num("gulp-cutoff", b["cutoff"], ctx.cutoff, what="cutoff of %s %s" % (la, lb))
        if b["rows"]:
            # the header's cutoff and the last row are the same separation: they agree to the FINER of their two printed precisions
            from engines.examples_trace import quantum
            try:
                hc, lr = float(b["cutoff"]), float(b["rows"][-1][1])
                if abs(hc - lr) > 1.02 * min(quantum(b["cutoff"]), quantum(b["rows"][-1][1])) + 1e-12 * abs(lr):
                    c.fail("gulp-cutoff", "block %s %s: header cutoff %s, last row at r=%s" % (la, lb, b["cutoff"], b["rows"][-1][1]))
            except ValueError:
                pass
        if len(b["rows"]) != rows["n"]:
            c.fail("row-count", "GULP block %s %s has %d rows, specification says nr=%d" % (la, lb, len(b["rows"]), rows["n"]))
            continue
        p = probe(rows["fn"])
        d1 = p.deriv()
        for j, (e, r) in enumerate(b["rows"]):
            x = ctx.x("r", rows["k0"] + j)
            cond = p.absval(x) + abs(x * d1(x))
            if not (c.num("row-r", r, x, what="%s %s row %d r" % (la, lb, j)) and
                    c.num("energy", e, p(x), cond, what="%s %s row %d energy at r=%s" % (la, lb, j, x))):
                break


def _find_case_for_order(cases_index, m, order):
    key = case_key(dict(m, els=order))
    return cases_index.get(key)


def case_key(m):
    return json.dumps([m["fam"], m["tgt"], m["nr"], m["nrho"], m["pots"], m["els"], sorted(m["embedDecl"]),
                       sorted(m["densDecl"]), m.get("dip", []), m.get("quad", [])])


def cmp_setfl(c, plan, text, kind, cases_index):
    ctx = c.ctx
    m = ctx.m
    f = formats.parse_setfl(text, kind)
    want = [ctx.L(a) for a in m["els"]]
    if sorted(f["names"]) != sorted(want) or len(set(f["names"])) != len(f["names"]):
        c.fail("elements-once", "header names %s, model elements %s" % (f["names"], want))
        return
    if f["names"] != want:
        # the statement does not fix the header order: compare with the plan of the model whose element order is the
        # order the file itself declares (emitted by TLC as another case of the same run)
        order = [ctx.labels.index(n) + 1 for n in f["names"]]
        other = _find_case_for_order(cases_index, m, order)
        if other is None:
            c.fail("elements-once", "no model in the bound has element order %s" % f["names"])
            return
        plan = other["plan"]
    if f["rest"]:
        c.fail("value-count", "%d values beyond the last array the consumer reads" % len(f["rest"]))
    g = plan[4]
    if (f["nrho"], f["nr"]) != (g["nrho"], g["nr"]):
        c.fail("grid-line", "header declares nrho=%d nr=%d, specification says %d %d" % (f["nrho"], f["nr"], g["nrho"], g["nr"]))
        return
    c.num("grid-line", f["drho"], ctx.drho(), what="drho")
    c.num("grid-line", f["dr"], ctx.dr(), what="dr")
    c.digits("grid-line", f["drho"], ctx.drho(), F(1, 10 ** 11), what="drho")
    c.digits("grid-line", f["dr"], ctx.dr(), F(1, 10 ** 11), what="dr")
    if c.route == "func" and getattr(ctx, "given_cutoff", None):
        # the caller of the function route gave the header's cutoff: that is the number the consumer must find
        try:
            if abs(float(f["cutoff"]) - ctx.given_cutoff) > 1e-9 * abs(ctx.given_cutoff):
                c.fail("header-cutoff", "the caller gave cutoff=%r, the header says %s" % (ctx.given_cutoff, f["cutoff"]))
        except (KeyError, ValueError):
            c.fail("header-cutoff", "header cutoff unreadable")
    if kind == "fs" and c.route in ("class", "ini", "cli"):
        # C04's second formulation (densities of a cluster by the consumer's rules): the consumer counts neighbours up to the header's
        # cutoff, so it must span the tabulated separations (the writers use nr*dr unless the caller passes a value)
        try:
            hc = float(f["cutoff"])
            if not (float(ctx.dr()) * (ctx.m["nr"] - 1) * (1 - 1e-6) <= hc <= float(ctx.dr()) * ctx.m["nr"] * (1 + 1e-6)):
                c.fail("header-cutoff", "header cutoff %s does not span the tabulated separations (last row at %s, nr*dr = %s)" % (
                    f["cutoff"], float(ctx.dr()) * (ctx.m["nr"] - 1), float(ctx.dr()) * ctx.m["nr"]))
        except (KeyError, ValueError):
            c.fail("header-cutoff", "header cutoff unreadable")
    body = plan[5:]
    n = len(f["names"])
    per = 2 + (n if kind == "fs" else 1)
    for e in range(n):
        recs = body[e * per:(e + 1) * per]
        hdr, emb, dens = recs[0], recs[1], recs[2:]
        (z, mass, lc, lt), _ = species_meta(ctx, hdr["sp"])
        h = f["els"][e]["hdr"]
        name = f["names"][e]
        if h[0] != str(z):
            c.fail("metadata", "element %s atomic number %s, expected %d (%s)" % (name, h[0], z, ctx.meta))
        c.num("metadata", h[1], mass, what="mass of %s (%s)" % (name, ctx.meta))
        c.num("metadata", h[2], lc, what="lattice constant of %s (%s)" % (name, ctx.meta))
        # the file GIVES the mass and the lattice constant: the printed number determines them (nine significant digits at
        # least), it is not just consistent with them at whatever precision it happens to be printed
        for tok, exact, what in ((h[1], mass, "mass"), (h[2], lc, "lattice constant")):
            try:
                printed = F(tok) if ("e" not in tok.lower() and "d" not in tok.lower()) else F(float(tok.lower().replace("d", "e")))
                if abs(printed - exact) > F(1, 10 ** 9) * max(abs(exact), 1):
                    c.fail("metadata", "%s of %s printed as %s, the model says %s (= %.10f): digits are lost" % (what, name, tok, exact, float(exact)))
            except (ValueError, ZeroDivisionError):
                pass
        if h[3] != lt:
            c.fail("metadata", "element %s lattice type %s, expected %s (%s)" % (name, h[3], lt, ctx.meta))
        c.cells_of("embed", f["els"][e]["embed"], emb, "embedding function of %s" % name)
        for di, dg in enumerate(dens):
            c.cells_of("density", f["els"][e]["dens"][di], dg, "density array %d in block of %s (who=%s)" % (di + 1, name, dg["who"]))
    rest = body[n * per:]
    ntri = n * (n + 1) // 2
    for x in range(ntri):
        c.cells_of("pair", f["pairs"][x], rest[x], "r*phi array %d (who=%s)" % (x + 1, rest[x]["who"]))
    if kind == "adp":
        for x in range(ntri):
            c.cells_of("dipole", f["dip"][x], rest[ntri + x], "dipole array %d (who=%s)" % (x + 1, rest[ntri + x]["who"]))
            c.cells_of("quadrupole", f["quad"][x], rest[2 * ntri + x], "quadrupole array %d (who=%s)" % (x + 1, rest[2 * ntri + x]["who"]))


def cmp_funcfl(c, plan, text):
    ctx = c.ctx
    f = formats.parse_funcfl(text)
    g = plan[2]
    if (f["nrho"], f["nr"]) != (g["nrho"], g["nr"]):
        c.fail("grid-line", "header declares nrho=%d nr=%d, specification says %d %d" % (f["nrho"], f["nr"], g["nrho"], g["nr"]))
        return
    if f["rest"]:
        c.fail("value-count", "%d values beyond the declared grid" % len(f["rest"]))
    c.num("grid-line", f["drho"], ctx.drho(), what="drho")
    c.num("grid-line", f["dr"], ctx.dr(), what="dr")
    c.num("grid-line", f["cutoff"], ctx.cutoff, what="cutoff=(nr-1)dr")
    # the header DECLARES the grid: the consumer computes every rho_i and r_i from these numbers (the values carry 17 digits)
    c.digits("grid-line", f["drho"], ctx.drho(), F(1, 10 ** 9), what="drho")
    c.digits("grid-line", f["dr"], ctx.dr(), F(1, 10 ** 9), what="dr")
    c.cells_of("embed", f["embed"], plan[3], "embedding function")
    c.cells_of("effective-charge", f["Z"], plan[4], "effective charge")
    c.cells_of("density", f["dens"], plan[5], "density")


def cmp_tabeam(c, plan, text):
    ctx = c.ctx
    t = formats.parse_tabeam(text)
    if t["count"] != len(t["blocks"]):
        c.fail("declared-count", "file declares %d functions and contains %d blocks" % (t["count"], len(t["blocks"])))
    if t["count"] != plan[1]["n"]:
        c.fail("declared-count", "file declares %d functions, specification says %d" % (t["count"], plan[1]["n"]))
    exp = [(plan[i], plan[i + 1]) for i in range(2, len(plan), 2)]
    if len(exp) != len(t["blocks"]):
        c.fail("block-census", "%d blocks in file, specification says %d" % (len(t["blocks"]), len(exp)))
    for blk, cells in exp:
        who = [ctx.L(a) for a in blk["who"]]
        kw = blk["kw"]
        cands = [b for b in t["blocks"] if b["kw"] == kw and (b["who"] == who or (kw == "pair" and b["who"] == who[::-1]))]
        if len(cands) != 1:
            c.fail("block-census", "%d blocks '%s %s'" % (len(cands), kw, " ".join(who)))
            continue
        b = cands[0]
        if b["n"] != blk["n"]:
            c.fail("block-header", "%s %s declares %d points, specification says %d" % (kw, who, b["n"], blk["n"]))
            continue
        c.num("block-header", b["start"], F(0), what="%s %s start" % (kw, who))
        c.num("block-header", b["end"], ctx.x(cells["grid"], blk["n"] - 1), what="%s %s end=(n-1)*step" % (kw, who))
        c.cells_of("values", b["vals"], cells, "%s %s" % (kw, " ".join(who)))


def cmp_excel(c, plan, data):
    ctx = c.ctx
    wb = formats.parse_xlsx(data)
    for sh in plan:
        if sh["name"] not in wb:
            c.fail("sheet", "sheet %s missing" % sh["name"])
            continue
        ws = wb[sh["name"]]
        if ws["n"] != sh["n"]:
            c.fail("sheet-rows", "sheet %s has %d rows, specification says %d" % (sh["name"], ws["n"], sh["n"]))
            continue
        first = ws["cols"].get(sh["first"])
        if first is None or ws["heads"][0] != sh["first"]:
            c.fail("first-column", "sheet %s first column is %r, expected %r" % (sh["name"], ws["heads"][:1], sh["first"]))
            continue
        for k, v in enumerate(first):
            if not isinstance(v, (int, float)):
                c.fail("first-column", "sheet %s row %d: %s cell holds %r" % (sh["name"], k, sh["first"], v))
                break
            if not c.num("first-column", repr(float(v)), ctx.x(sh["grid"], k), what="%s row %d %s" % (sh["name"], k, sh["first"])):
                break
        for col in sh["cols"]:
            who = [ctx.L(a) for a in col["who"]]
            if sh["name"] == "Pair":
                heads = ["%s-%s" % (who[0], who[1]), "%s-%s" % (who[1], who[0])]
            elif len(who) == 2:
                heads = ["%s->%s" % (who[0], who[1])]
            else:
                heads = [who[0]]
            found = [h for h in heads if h in ws["cols"]]
            p = probe(col["fn"])
            if not found:
                if p.is_zero():
                    continue       # an absent column carries no function; the consumer reads nothing = zero
                c.fail("column", "sheet %s has no column %s" % (sh["name"], heads))
                continue
            vals = ws["cols"][found[0]]
            d1 = p.deriv()
            for k, v in enumerate(vals):
                x = ctx.x(sh["grid"], k)
                if not isinstance(v, (int, float)):
                    c.fail("cell", "%s!%s row %d holds %r, not a number" % (sh["name"], found[0], k, v))
                    break
                if not c.num("cell", repr(float(v)), p(x), p.absval(x) + abs(x * d1(x)), what="%s!%s row %d at %s" % (sh["name"], found[0], k, x)):
                    break
        # no extra labelled columns carrying a function the model does not have
        known = set()
        for col in sh["cols"]:
            who = [ctx.L(a) for a in col["who"]]
            known.update(["-".join(who), "-".join(who[::-1]), "->".join(who), who[0]])
        for h in ws["heads"][1:]:
            if h not in known:
                c.fail("column", "sheet %s has an unexpected column %r" % (sh["name"], h))


def compare(ctx, route, res, cases_index):
    c = Cmp(ctx, route)
    tgt = ctx.m["tgt"]
    plan = ctx.plan
    try:
        if tgt == "LAMMPS":
            cmp_lammps(c, plan, res["data"])
        elif tgt == "DLPOLY":
            cmp_dlpoly(c, plan, res["data"])
        elif tgt == "GULP":
            cmp_gulp(c, plan, res["data"])
        elif tgt == "setfl":
            cmp_setfl(c, plan, res["data"], "alloy", cases_index)
        elif tgt == "setfl_fs":
            cmp_setfl(c, plan, res["data"], "fs", cases_index)
        elif tgt == "eam_adp":
            cmp_setfl(c, plan, res["data"], "adp", cases_index)
        elif tgt == "funcfl":
            cmp_funcfl(c, plan, res["data"])
        elif tgt in ("DL_POLY_EAM", "DL_POLY_EAM_fs"):
            cmp_tabeam(c, plan, res["data"])
        elif tgt in BINARY:
            cmp_excel(c, plan, res["data"])
        else:
            raise AssertionError(tgt)
    except FormatError as e:
        c.fail("unreadable", "the consumer cannot read the file: %s" % e)
    return c


# ------------------------------------------------------------------------------------------------ driver
_CASES = []
_INDEX = {}
_SEED = 0


def _replay_one(job):
    """worker: one case through all its routes. Returns list of result dicts (small)."""
    idx, routes, variant = job
    case = _CASES[idx]
    out = []
    ctx = Ctx(case, idx, _SEED, variant)
    if case["m"]["nr"] >= 1000:
        routes = [r for r in routes if r in ("class", "cli")]
    if case["m"]["fam"] == "pair" and len({tuple(p) for p in case["m"]["pots"]}) < len(case["m"]["pots"]):
        routes = [r for r in routes if r in ("class", "wp")]      # a pair listed twice: Python API only (a potable file with it is refused, C20)
    if idx % 3 == 0 and not case["rejects"]:
        # history prelude: an earlier tabulation of the same model in this process failed part-way (C12/C17 interplay);
        # the replay that follows must be unaffected
        try:
            cnt = Counter(1 + idx % 7)
            make_writer(ctx, ROUTES[case["m"]["tgt"]][0], cnt)(Sink(case["m"]["tgt"] in BINARY))
        except Exception:
            pass
    for route in routes:
        spellings = [None]
        if route in ("ini", "cli") and case["m"]["tgt"] in INI_TARGETS:
            sp = INI_TARGETS[case["m"]["tgt"]]
            spellings = [sp[idx % len(sp)]]
        for spelling in spellings:
            r = dict(idx=idx, route=route, spelling=spelling, bad=[], cells=0, evals=0, outcome=None, variant=variant)
            try:
                res = execute(ctx, route, 0, spelling, preexisting=False if (case["rejects"] and idx % 2) else None)
                r["outcome"] = res["outcome"]
                r["exc"] = res.get("exc")
                r["evals"] = res["evals"]
                if case["rejects"]:
                    if res["outcome"] != "raised":
                        r["bad"].append(("rejects", "row count %d is not divisible by four but a table was produced" % case["m"]["nr"]))
                    elif res["data"]:
                        r["bad"].append(("rejects", "rejected, but %d characters reached the output" % len(res["data"])))
                    elif res.get("file_state") == "produced":
                        r["bad"].append(("rejects", "rejected, but an (empty) output file was produced / an existing output file was emptied"))
                elif res["outcome"] != "ok":
                    r["bad"].append(("well-formed-model-refused", "the implementation raised %s" % res["exc"]))
                else:
                    c = compare(ctx, route, res, _INDEX)
                    r["bad"] = c.bad
                    r["cells"] = c.cells
                    if "data2" in res and not c.bad:
                        d1, d2 = res["data"], res["data2"]
                        if isinstance(d1, bytes) and isinstance(d2, bytes):       # workbooks: the container carries the time of writing (F03), the cells must agree
                            try:
                                same = {k: v["cols"] for k, v in formats.parse_xlsx(d1).items()} == {k: v["cols"] for k, v in formats.parse_xlsx(d2).items()}
                            except Exception as e:
                                same, d2 = False, "unreadable workbook: %s" % e
                        else:
                            same = d1 == d2
                        if not same:
                            r["bad"] = [("second-write", "write() called a second time on the same tabulation object %s" % (
                                d2[:120] if isinstance(d2, str) and d2.startswith(("raised", "unreadable")) else "gives a different table than the first time"))]
                    if "data4" in res and not r["bad"] and res["data4"] != res["data"]:
                        r["bad"] = [("stream-position", "written into a stream that already holds a comment line, write() %s" % (
                            res["data4"][:120] if res["data4"].startswith("raised") else "adds other bytes than it writes into an empty stream"))]
                    if "data3" in res and not r["bad"]:
                        d3 = res["data3"]
                        try:
                            same = not isinstance(d3, str) and {k: v["cols"] for k, v in formats.parse_xlsx(res["data"]).items()} == {k: v["cols"] for k, v in formats.parse_xlsx(d3).items()}
                        except Exception as e:
                            same, d3 = False, "unreadable workbook: %s" % e
                        if not same:
                            r["bad"] = [("workbook-property", "the .workbook of the tabulation object after write() %s" % (
                                d3[:120] if isinstance(d3, str) else "does not hold the sheets / cells that were written"))]
                if r["bad"]:
                    r["ini"] = res.get("ini")
            except Exception as e:      # harness failure, not a verdict
                import traceback
                r["machinery"] = traceback.format_exc()[-1500:]
            out.append(r)
    return out


def load_cases(run, cfgs, targets, timeout=1500):
    """(M): model-check each configuration, collect the emitted cases for the wanted targets"""
    cases = []
    for cfg in cfgs:
        res = tlc.run("Layout", cfg + ".cfg", env={"EMIT": "1"}, timeout=timeout, keep=True, coverage=True)
        try:
            if res.violated:
                run.machinery("TLC reports %s violated on %s (specification-level counterexample; see stdout)\n%s" % (
                    res.violated, cfg, "\n".join(res.stdout.splitlines()[-60:])))
                continue
            run.add_tlc(cfg, res)
            for c in tlc.read_ndjson(os.path.join(res.outdir, "cases.ndjson")):
                cases.append(c)
        finally:
            tlc.cleanup(res)
    allc = cases
    wanted = [c for c in allc if c["m"]["tgt"] in targets]
    return allc, wanted


def run_property(run, prop, tier, seed, max_jobs=None):
    global _CASES, _INDEX, _SEED
    import multiprocessing as mp
    conf = CONFIGS[prop]
    allc, _ = load_cases(run, conf[tier], conf["targets"])
    if run.machinery_errors:
        return
    _CASES = allc
    _INDEX = {case_key(c["m"]): c for c in allc}
    _SEED = seed
    jobs = [(i, ROUTES[c["m"]["tgt"]], v) for i, c in enumerate(allc) if c["m"]["tgt"] in conf["targets"]
            for v in (range(5) if c["m"]["nr"] >= 1000 else range(1))]
    total = len(jobs)
    if max_jobs and len(jobs) > max_jobs:
        rnd = random.Random(seed)
        jobs = rnd.sample(jobs, max_jobs)
        run.exhaustive = False
        run.notes["replay_sampled"] = "%d of %d emitted cases replayed (seeded sample)" % (max_jobs, total)
    else:
        run.notes["replay_sampled"] = "all %d emitted cases replayed" % total
    with mp.Pool(min(16, os.cpu_count() or 1)) as pool:
        results = pool.map(_replay_one, jobs, chunksize=max(1, len(jobs) // 64))
    cells = 0
    for rs in results:
        for r in rs:
            case = allc[r["idx"]]
            m = case["m"]
            run.evaluations += 1
            run.replayed += 1
            cells += r["cells"]
            if r.get("machinery"):
                run.machinery("replay of case %d via %s: %s" % (r["idx"], r["route"], r["machinery"]))
                continue
            blocks = len(m["pots"]) + len(m["els"])
            if blocks >= 2:
                run.distinct([case_key(m), r["route"]])
            ctx = Ctx(case, r["idx"], seed, r.get("variant", 0))
            if len(run.samples) < 4 and blocks >= 2 and r["idx"] % 7 == 3:
                run.sample(dict(model=m, route=r["route"], rendering=ctx.describe(), outcome=r["outcome"], cells_compared=r["cells"]))
            for clause, msg in r["bad"][:1]:
                sig = dict(engine="layout", target=m["tgt"], clause=clause, route=r["route"])
                run.violation(sig, "%s via %s: [%s] %s" % (m["tgt"], r["route"], clause, msg),
                              dict(case=case, idx=r["idx"], route=r["route"], rendering=ctx.describe(), ini=r.get("ini"), all=r["bad"]))
    if not run.samples and allc:
        run.sample(dict(model=allc[jobs[0][0]]["m"]))
    run.notes["cells_compared_exactly"] = cells
    run.rule = ("cases = every model of the TLC configuration(s) for the property's targets x every access route; "
                "non-trivial = model with >= 2 blocks (potentials + elements); distinct by (model, route)")


def calibrate_eeam(run):
    """Ground truth for the DL_POLY EEAM consumer model: the repository's own DL_POLY-dependent test
    (tests/test_dlpoly_writeTABEAM.py::testDensityFunctions, skipped here for lack of a DL_POLY binary) records the energy
    DL_POLY computed for a three-atom cluster (Ar at the origin, B at 2.5 and B at 5.0, B-B 5.590169 apart) with embedding
    F(rho) = rho.  The same file is written by the real writer, read with the consumer model ('dens a b' = density at an a site
    from a b neighbour) and the cluster energy recomputed: it must be the recorded constant."""
    import math

    def embed(rho):
        return rho
    dens = {("Ar", "Ar"): lambda r: 1.0, ("B", "Ar"): lambda r: 0.567 * r, ("Ar", "B"): lambda r: 0.11 * r, ("B", "B"): lambda r: 0.98 * r}
    zero = lambda r: 0.0
    pots = [Potential("Ar", "Ar", zero), Potential("Ar", "B", zero), Potential("B", "B", zero)]
    eams = [EAMPotential("Ar", 18, 39.948, embed, {"Ar": dens[("Ar", "Ar")], "B": dens[("Ar", "B")]}),
            EAMPotential("B", 5, 10.811, embed, {"Ar": dens[("B", "Ar")], "B": dens[("B", "B")]})]
    sink = io.StringIO()
    P.writeTABEAMFinnisSinclair(1000, 0.1, 1000, 0.01, eams, pots, sink)
    t = formats.parse_tabeam(sink.getvalue())
    blocks = {(b["kw"], tuple(b["who"])): b for b in t["blocks"]}

    def read(kw, who, x):
        b = blocks[(kw, who)]
        step = float(b["end"]) / (b["n"] - 1)
        k = x / step
        i = int(math.floor(k))
        lo, hi = float(b["vals"][i]), float(b["vals"][min(i + 1, b["n"] - 1)])
        return lo + (hi - lo) * (k - i)
    atoms = [("Ar", (0.0, 0.0)), ("B", (2.5, 0.0)), ("B", (0.0, 5.0))]
    energy = 0.0
    for i, (si, pi) in enumerate(atoms):
        rho = 0.0
        for j, (sj, pj) in enumerate(atoms):
            if i != j:
                rho += read("dens", (si, sj), math.hypot(pi[0] - pj[0], pi[1] - pj[1]))     # density at an si site from an sj neighbour
        energy += read("embe", (si,), rho)
    expect = 0.11 * 5 + 0.11 * 2.5 + 0.567 * 5.0 + 0.98 * 5.590169 + 0.567 * 2.5 + 0.98 * 5.590169
    run.evaluations += 1
    run.notes["eeam_ground_truth"] = dict(recomputed=energy, recorded_by_dl_poly_test=expect)
    if abs(energy - expect) > 1e-3:
        run.violation(dict(engine="layout", target="DL_POLY_EAM_fs", clause="dl_poly-ground-truth", route="func"),
                      "DL_POLY_EAM_fs: cluster energy recomputed from the written TABEAM with the consumer's rules is %.6f; DL_POLY computed %.6f for this model "
                      "(tests/test_dlpoly_writeTABEAM.py::testDensityFunctions)" % (energy, expect), dict(energy=energy, expect=expect))


def main(prop, tier, seed):
    from lib.harness import Run
    run = Run(prop, tier, seed)
    run.assumptions = [
        "consumer models (LAMMPS pair_style table/eam/alloy/eam/fs/adp, DL_POLY TABLE/TABEAM/EEAM, GULP spline, Excel headings) in spec/Layout.tla are the trusted base",
        "cell values compared with exact rationals of polynomial probes; transcendental forms are the subject of C06/C07",
        "TLC 1.8 and CommunityModules are correct",
    ]
    try:
        run_property(run, prop, tier, seed, max_jobs=None if tier == "thorough" else 2500)
        if not run.machinery_errors:
            from engines import layout_trace
            layout_trace.validate(run, prop, tier, seed)
        if not run.machinery_errors and prop in layout_trace.TRACE_TARGETS:
            # the models the repository ships (tests' resources, the manual's examples), identified against their own functions
            from engines import examples_trace
            examples_trace.validate(run, layout_trace.TRACE_TARGETS[prop], tier)
        if prop in ("C03", "C04") and not run.machinery_errors:
            # where the element order and the declared / zero-filled functions of a potable model come from (spec/Builder.tla)
            from engines import builder
            builder.validate(run, prop == "C04", tier)
        if prop == "C19" and not run.machinery_errors:
            funcfl_negative_pair(run)
            row_at_zero(run)
            typed_values(run, "GULP")
        if prop == "C01" and not run.machinery_errors:
            typed_values(run, "LAMMPS")
        if prop == "C02" and not run.machinery_errors:
            dlpoly_dynamic_range(run)
            dlpoly_large_and_grid_points(run)
            dlpoly_header_sweep(run, tier)
        if prop in ("C04", "C05") and not run.machinery_errors:
            calibrate_eeam(run)
        if tier == "thorough" and prop in ("C01", "C03", "C05"):
            # unbounded arithmetic facts behind the counting / grid invariants, by the TLA+ proof system (extra evidence only)
            run.notes["tlaps_LayoutFacts"] = tlc.tlaps(os.path.join(boot.VERIF, "spec", "proofs", "LayoutFacts.tla"))
    except tlc.TLCError as e:
        run.machinery(str(e))
    return run.finish()


# ------------------------------------------------------------------------------------------------ C17: faults
FAULT_CONFIGS = dict(
    quick=["Layout_fault_pair", "Layout_fault_eam", "Layout_fault_fs", "Layout_fault_adp", "Layout_fault_funcfl"],
    thorough=["Layout_fault_pair", "Layout_fault_eam", "Layout_fault_fs", "Layout_fault_adp", "Layout_fault_funcfl"])
API_ROUTES = ("class", "wp", "func")


def _slots(case):
    """(fn, grid, k0, n) of every non-zero function group of the plan, once per function"""
    seen, out = set(), []

    def add(fn, grid, k0, n):
        if fn["f"] != "zero" and fnkey(fn) not in seen:
            seen.add(fnkey(fn))
            out.append((fn, grid, k0, n))
    for r in case["plan"]:
        if r["t"] in ("cells",):
            add(r["fn"], r["grid"], r["k0"], r["n"])
        elif r["t"] in ("rows", "grows", "recs"):
            add(r["fn"], "r", r["k0"], r["n"])
        elif r["t"] == "sheet":
            for col in r["cols"]:
                add(col["fn"], r["grid"], 0, r["n"])
    return out


def _fault_one(idx):
    case = _CASES[idx]
    m = case["m"]
    ctx = Ctx(case, idx, _SEED)
    ctx.flavour = "analytic"
    tgt = m["tgt"]
    binary = tgt in BINARY
    out = dict(idx=idx, bad=[], runs=0, ks=0, n_measured={}, machinery=None)
    if case["rejects"]:
        return out

    def bad(route, clause, msg, extra=None):
        if len(out["bad"]) < 6:
            out["bad"].append((route, clause, msg, extra))
    try:
        for route in ROUTES[tgt]:
            if route not in API_ROUTES:
                continue
            counter = Counter(0)
            w = make_writer(ctx, route, counter)
            w(Sink(binary))
            N = counter.n
            out["n_measured"][route] = N
            for k in range(1, N + 1):
                # a value no number format accepts: only for the writers that format with '%' (GULP's str.format prints a complex
                # number, a spreadsheet library decides for itself - no failure happens there, nothing is asserted)
                kinds = FAULT_KINDS + ((ReturnsNone,) if tgt not in BINARY and tgt != "GULP" else ())
                counter = Counter(k, kinds[(idx + k) % len(kinds)])
                w = make_writer(ctx, route, counter)
                sink = Sink(binary) if binary or (idx + k) % 2 else StringSink()
                raised = False
                try:
                    w(sink)
                except Exception as e:
                    raised = True
                out["runs"] += 1
                out["ks"] += 1
                if not raised:
                    bad(route, "fault-swallowed", "evaluation %d of %d raised %s but write() returned normally" % (k, N, counter.exc.__name__))
                if sink.value():
                    bad(route, "partial-output", "evaluation %d of %d failed and %d characters in %d write(s) had already reached the file object" % (
                        k, N, len(sink.value()), len(sink.writes)), dict(k=k, N=N))
                # the same tabulation object is written again, this time without a fault: whole table or nothing
                counter.fail_at = 0
                sink2 = Sink(binary)
                try:
                    w(sink2)
                except Exception:
                    if sink2.value():
                        bad(route, "partial-output", "second write() after a failure at evaluation %d raised and left %d characters" % (k, len(sink2.value())))
                    continue
                out["runs"] += 1
                c = compare(ctx, route, dict(data=sink2.value()), _INDEX)
                if c.bad:
                    bad(route, "retry-not-whole", "write() after a failed write() (evaluation %d of %d) returned normally but did not emit the whole table: %s" % (k, N, c.bad[0][1]), dict(k=k, N=N))
        # potable routes: a formula that leaves its domain at a chosen grid index of a chosen function
        for fn, grid, k0, n in _slots(case):
            for i in sorted(set([k0, k0 + n // 2, k0 + n - 1])):
                step = ctx.x(grid, 1) - ctx.x(grid, 0)
                lim = ctx.x(grid, i) - step / 2
                for route in ("ini", "cli"):
                    if route not in ROUTES[tgt]:
                        continue
                    how = ["py", "native", "nested", "nativelog", "pole", "nested", "py"][(idx + i + (route == "cli")) % 7]
                    res = execute(ctx, route, bad=(fn, lim, how), preexisting="OLD TABLE\n" if route == "cli" else None)
                    out["runs"] += 1
                    out["ks"] += 1
                    where = "%s at grid index %d, %s" % (fnkey(fn), i, {"py": "pymath.sqrt of a negative number", "native": "sqrt of a negative number",
                                                                        "nativelog": "log of a negative number", "nested": "sqrt of a negative number in a form called inside max() of another form",
                                                                        "pole": "division by zero (an infinite value)"}[how])
                    if res["outcome"] != "raised":
                        bad(route, "fault-swallowed", "formula outside its domain (%s) but the run ended normally" % where, dict(ini=res.get("ini")))
                    elif res["data"]:
                        bad(route, "partial-output", "formula outside its domain (%s): %s, and the output holds %d characters" % (
                            where, res["exc"], len(res["data"])), dict(ini=res.get("ini")))
    except Exception:
        import traceback
        out["machinery"] = traceback.format_exc()[-1500:]
    return out


def main_c17(tier, seed):
    global _CASES, _INDEX, _SEED
    import multiprocessing as mp
    from lib.harness import Run
    run = Run("C17", tier, seed)
    run.assumptions = ["a failing evaluation is modelled as an exception raised by the k-th call of a user function (energy or derivative); zero-filled slots cannot fail",
                       "evaluation ORDER carries no obligation; k ranges over the number of evaluations measured on the fault-free run"]
    try:
        targets = set(ROUTES)
        allc, _ = load_cases(run, FAULT_CONFIGS[tier], targets)
        if not run.machinery_errors:
            _CASES, _SEED = allc, seed
            _INDEX = {case_key(c["m"]): c for c in allc}
            jobs = list(range(len(allc)))
            if tier == "quick":
                # every target, every model up to a cap per target (seeded), every k of each chosen model
                rnd = random.Random(seed)
                by = {}
                for i in jobs:
                    by.setdefault(allc[i]["m"]["tgt"], []).append(i)
                jobs = []
                for t, lst in sorted(by.items()):
                    rnd.shuffle(lst)
                    jobs += sorted(lst[:40])
                run.exhaustive = False
                run.notes["replay_sampled"] = "<= 40 models per target (seeded), every failing position k of each"
            with mp.Pool(min(16, os.cpu_count() or 1)) as pool:
                results = pool.map(_fault_one, jobs, chunksize=4)
            agree = disagree = 0
            for r in results:
                case = allc[r["idx"]]
                m = case["m"]
                if r["machinery"]:
                    run.machinery("fault replay of case %d: %s" % (r["idx"], r["machinery"]))
                    continue
                run.evaluations += r["runs"]
                run.replayed += r["ks"]
                for route, N in r["n_measured"].items():
                    if N == case["totalEv"]:
                        agree += 1
                    else:
                        disagree += 1
                if r["ks"] >= 2:
                    run.distinct(case_key(m))
                if len(run.samples) < 4 and r["ks"] > 5:
                    run.sample(dict(model=m, failing_positions_explored=r["ks"], evaluations_measured=r["n_measured"], spec_total_evaluations=case["totalEv"]))
                for route, clause, msg, extra in r["bad"][:2]:
                    sig = dict(engine="layout", target=m["tgt"], clause=clause, route=route)
                    run.violation(sig, "%s via %s: [%s] %s" % (m["tgt"], route, clause, msg), dict(case=case, idx=r["idx"], route=route, extra=extra))
            run.notes["eval_count_agrees_with_spec"] = dict(agree=agree, disagree=disagree)
            # sessions of the command line in one directory (spec/PotableFS.tla): a failed tabulation leaves the named file empty
            # whatever it held, refused runs and queries leave the directory alone
            from engines import potfs
            potfs.check(run, tier, seed, clause_engine="layout")
            run.rule = ("cases = models of the fault configurations x every failing evaluation position k (API routes: k = 1..N measured; potable routes: "
                        "every function slot x first/middle/last grid index); non-trivial = model with >= 2 failing positions; distinct by model")
    except tlc.TLCError as e:
        run.machinery(str(e))
    return run.finish()


_main_layout = main


def funcfl_negative_pair(run):
    """the funcfl format stores Z(r) = sqrt(r phi(r) / 27.2 / 0.529): a pair potential that is negative somewhere on the grid has
    no representation, so no file may be produced for it (squaring any Z that is written cannot give phi back)"""
    from atsim.potentials import Potential, EAMPotential
    for name, phi in (("attractive tail", lambda r: 2.0 - r), ("negative everywhere", lambda r: -1.0 - 0.5 * r), ("well", lambda r: (r - 1.5) ** 2 - 0.25)):
        eam = EAMPotential("Al", 13, 26.98, lambda rho: -rho ** 0.5, lambda r: 1.0 / (1.0 + r), 4.05, "fcc")
        sink = Sink(False)
        run.evaluations += 1
        try:
            P.writeFuncFL(5, 0.5, 9, 0.5, [eam], [Potential("Al", "Al", phi)], sink, "title")
            raised = None
        except Exception as e:
            raised = e
        text = sink.value()
        if raised is None or text:
            vals = ""
            if text:
                try:
                    f = formats.parse_funcfl(text)
                    k = next((i for i in range(1, f["nr"]) if phi(i * 0.5) < 0), None)
                    if k is not None:
                        z = float(f["Z"][k])
                        vals = ": at r=%s the file's Z gives phi = %r, the pair potential is %r" % (k * 0.5, z * z * 27.2 * 0.529 / (k * 0.5), phi(k * 0.5))
                except Exception as e:
                    vals = " (unreadable: %s)" % e
            run.violation(dict(engine="layout", target="funcfl", clause="negative-pair", route="func"),
                          "funcfl via func: [negative-pair] a pair potential with %s (negative on the grid) %s%s" % (
                              name, "was written as a funcfl file" if raised is None else "was refused but %d characters were written" % len(text), vals), dict(name=name))


def dlpoly_dynamic_range(run):
    """C02 'records of four 15-character fields' over the whole range of values a potential takes: a short-ranged repulsion
    falls below 1e-99 well inside ordinary cutoffs (1000 exp(-r / 0.03) at r = 7), where '% 14.7e' needs a three digit exponent"""
    import io, math
    from atsim.potentials import Potential
    from atsim.potentials.pair_tabulation import DLPoly_PairTabulation
    cases = [("bornmayer 1000 0.03", lambda r: 1000.0 * math.exp(-r / 0.03), "as.bornmayer 1000.0 0.03"),
             ("constant 3e-120", lambda r: 3e-120, "as.constant 3e-120"),
             ("-2.5e-101 r", lambda r: -2.5e-101 * r, "as.polynomial 0 -2.5e-101")]
    # values are numbers, whatever their Python type: a cap written with an integer literal returns an int on the first rows and
    # floats afterwards; numpy scalars; (Python API only)
    import numpy
    cases += [("int on the first rows (min(5000, ...))", lambda r: 5000 if r <= 1.0 else 4505.5458 - r, None),
              ("int on the last rows", lambda r: 4505.5458 - r if r <= 11.0 else 0, None),
              ("numpy scalars", lambda r: numpy.float64(4505.5458) - numpy.float32(0.5) * r, None)]
    for name, fn, defn in cases:
        for route in ("class", "wp", "ini"):
            if defn is None and route == "ini":
                continue
            run.evaluations += 1
            run.replayed += 1
            run.distinct("dynamic-range:%s:%s" % (name, route))
            out = io.StringIO()
            try:
                if route == "class":
                    DLPoly_PairTabulation([Potential("Aa", "Bq1", fn)], 10.0, 24).write(out)
                elif route == "wp":
                    P.writePotentials("DL_POLY", [Potential("Aa", "Bq1", fn)], 10.0, 24, out=out)
                else:
                    Configuration().read(io.StringIO("[Tabulation]\ntarget : DL_POLY\ncutoff : 10.0\nnr : 24\n\n[Pair]\nAa-Bq1 : >=0 %s\n" % defn)).write(out)
                t = formats.parse_dlpoly_table(out.getvalue())
                b = t["blocks"][0]
                bad = None
                for k in range(1, 25):
                    r = k * 0.5
                    for col, exact in (("E", fn(r)), ("F", None)):
                        tok = b[col][k - 1]
                        if len(tok.split()) != 1:
                            bad = "%s record %d holds %r" % (col, k, tok)
                            break
                        if exact is not None:
                            v = float(tok)
                            # a value below the smallest magnitude the field can hold (1e-99) is written as zero; others to 8 digits
                            if not (abs(v - exact) <= 1e-7 * abs(exact) or (abs(exact) < 1e-99 and v == 0.0)):
                                bad = "energy %d is %s, the potential gives %r at r=%s" % (k, tok, exact, r)
                                break
                    if bad:
                        break
                if bad:
                    run.violation(dict(engine="layout", target="DLPOLY", clause="dynamic-range", route=route),
                                  "DLPOLY via %s: [dynamic-range] potential %s: %s" % (route, name, bad), dict(name=name, route=route))
            except formats.FormatError as e:
                run.violation(dict(engine="layout", target="DLPOLY", clause="dynamic-range", route=route),
                              "DLPOLY via %s: [dynamic-range] potential %s (values below 1e-99 inside the cutoff): the TABLE is not laid out in 15-character fields: %s" % (route, name, e),
                              dict(name=name, route=route))
            except Exception as e:
                run.violation(dict(engine="layout", target="DLPOLY", clause="dynamic-range", route=route),
                              "DLPOLY via %s: [dynamic-range] potential %s: %s: %s" % (route, name, type(e).__name__, e), dict(name=name, route=route))


def row_at_zero(run):
    """C19: the GULP table and the Excel sheet start at r = 0.  A form that is regular there, written with an explicit '>=0', has its
    closed-form value in that row (A exp(0) = A for Born-Mayer)"""
    import io, math
    forms_ = [("as.bornmayer 1000.0 0.5", 1000.0), ("as.morse 1.5 2.0 0.5", 0.5 * (math.exp(3.0) ** 2 - 2 * math.exp(3.0))), ("as.exponential 2.0 1", 0.0),
              ("as.sqrt 3.0", 0.0), ("as.polynomial 4 1", 4.0), ("as.exp_spline 0.1 0.2 0 0 0 0 2.0", math.exp(0.1) + 2.0)]
    for defn, want in forms_:
        for target in ("GULP", "excel"):
            run.evaluations += 1
            run.distinct("row-zero:%s:%s" % (defn, target))
            out = io.BytesIO() if target == "excel" else io.StringIO()
            try:
                Configuration().read(io.StringIO("[Tabulation]\ntarget : %s\ncutoff : 2.0\nnr : 5\n\n[Pair]\nAa-Bq1 : >=0 %s\n" % (target, defn))).write(out)
                if target == "GULP":
                    got = float(formats.parse_gulp(out.getvalue())[0]["rows"][0][0])
                else:
                    got = float(formats.parse_xlsx(out.getvalue())["Pair"]["cols"]["Aa-Bq1"][0])
                if abs(got - want) > 1e-9 * max(1.0, abs(want)):
                    run.violation(dict(engine="layout", target=target, clause="row-zero"), "%s via ini: [row-zero] '>=0 %s': the row at r = 0 holds %r, the form's value there is %r" % (target, defn, got, want), dict(defn=defn))
            except Exception as e:
                run.violation(dict(engine="layout", target=target, clause="row-zero"), "%s via ini: [row-zero] '>=0 %s' (regular at r = 0) cannot be tabulated: %s: %s" % (target, defn, type(e).__name__, e), dict(defn=defn))


def typed_values(run, target):
    """C01 / C19: values are numbers, whatever their Python type.  A cap written with an integer literal returns a Python int on the
    first rows and floats afterwards (or the other way round); numpy scalars; through the Python API (class and writePotentials)
    and - a whole-number constant in front of a second range - through a potable file.  Every printed energy is the callable's."""
    import io, math, numpy
    import atsim.potentials as P
    cutoff, nr = 6.0, 13
    cases = [("int on the first rows", lambda r: 5000 if r <= 1.0 else 4505.5458 - r, None),
             ("int on the last rows", lambda r: 4505.5458 - r if r <= 4.0 else 0, None),
             ("numpy scalars", lambda r: numpy.float64(4505.5458) - numpy.float32(0.5) * r, None),
             ("whole-number constant, then a second range", lambda r: 2 if r < 1.1 else 1000.0 * math.exp(-r / 0.5) - 32.0 / r ** 6, "as.constant 2 >=1.1 as.buck 1000.0 0.5 32.0")]
    for name, fn, defn in cases:
        for route in ("class", "wp", "ini"):
            if defn is None and route == "ini":
                continue
            run.evaluations += 1
            run.replayed += 1
            run.distinct("typed-values:%s:%s:%s" % (target, name, route))
            out = io.StringIO()
            try:
                if route == "class":
                    (PT.LAMMPS_PairTabulation if target == "LAMMPS" else PT.GULP_PairTabulation)([Potential("Aa", "Bq1", fn)], cutoff, nr).write(out)
                elif route == "wp":
                    P.writePotentials(target, [Potential("Aa", "Bq1", fn)], cutoff, nr, out=out)
                else:
                    Configuration().read(io.StringIO("[Tabulation]\ntarget : %s\ncutoff : %r\nnr : %d\n\n[Pair]\nAa-Bq1 : %s\n" % (target, cutoff, nr, defn))).write(out)
                if target == "LAMMPS":
                    rows = [(float(t[1]), float(t[2])) for t in formats.parse_lammps_table(out.getvalue())[0]["rows"]]
                else:
                    rows = [(float(t[1]), float(t[0])) for t in formats.parse_gulp(out.getvalue())[0]["rows"]]
                for r, e in rows:
                    if r == 0.0:
                        continue
                    want = float(fn(r))
                    if abs(e - want) > 1e-7 * max(1.0, abs(want)):
                        run.violation(dict(engine="layout", target=target, clause="typed-values", route=route),
                                      "%s via %s: [typed-values] potential '%s': the row at r=%s holds the energy %r, the potential gives %r" % (target, route, name, r, e, want), dict(name=name, route=route))
                        break
            except Exception as e:
                run.violation(dict(engine="layout", target=target, clause="typed-values", route=route),
                              "%s via %s: [typed-values] potential '%s': %s: %s" % (target, route, name, type(e).__name__, e), dict(name=name, route=route))


def dlpoly_header_sweep(run, tier):
    """C02: the header's ngrid is the row count and the number of energies / forces of every block, for EVERY row count divisible by
    four up to 1000 (2000) and a set of decimal cutoffs - not only where cutoff / delpot happens to be a whole number in floating point"""
    import io
    pot = [Potential("Aa", "Bq1", lambda r: 1.5)]
    for cutoff in (6.5, 8.0, 9.0, 10.0, 12.0, 15.0, 2.4) + ((7.3, 11.1, 4.25) if tier == "thorough" else ()):
        for nr in range(8, 2001 if tier == "thorough" else 1001, 4):
            out = io.StringIO()
            run.evaluations += 1
            try:
                PT.DLPoly_PairTabulation(pot, cutoff, nr).write(out)
                lines = out.getvalue().split("\n")
                hdr = lines[1]
                ngrid = int(hdr[30:40])
                nval = sum(len(l) // 15 for l in lines[3:] if l.strip())
                if ngrid != nr or nval != 2 * nr:
                    run.violation(dict(engine="layout", target="DLPOLY", clause="header-sweep", route="class"),
                                  "DLPOLY via class: [header-sweep] cutoff %s, %d rows: the header declares ngrid = %d, the block holds %d values (2 x %d wanted)" % (cutoff, nr, ngrid, nval, nr),
                                  dict(cutoff=cutoff, nr=nr))
                    return
            except Exception as e:
                run.violation(dict(engine="layout", target="DLPOLY", clause="header-sweep", route="class"),
                              "DLPOLY via class: [header-sweep] cutoff %s, %d rows: %s: %s" % (cutoff, nr, type(e).__name__, e), dict(cutoff=cutoff, nr=nr))
                return
    run.distinct("header-sweep")



def dlpoly_large_and_grid_points(run):
    """(a) a value of 1e100 or more cannot be written in a 15-character field at all: such a model has no TABLE, the write is refused
    and nothing is written; (b) the k-th row is V(k*delpot): when k*delpot is exactly a range start (1000 * 0.0025 = 2.5, in
    binary floating point too) the row belongs to the range that starts there"""
    import io
    from atsim.potentials import Potential
    from atsim.potentials.pair_tabulation import DLPoly_PairTabulation
    for route in ("class", "wp", "ini"):
        run.evaluations += 1
        run.distinct("dynamic-range:huge:%s" % route)
        out = io.StringIO()
        try:
            if route == "class":
                DLPoly_PairTabulation([Potential("Aa", "Bq1", lambda r: r ** -38.0)], 10.0, 4004).write(out)
            elif route == "wp":
                P.writePotentials("DL_POLY", [Potential("Aa", "Bq1", lambda r: r ** -38.0)], 10.0, 4004, out=out)
            else:
                Configuration().read(io.StringIO("[Tabulation]\ntarget : DL_POLY\ncutoff : 10.0\nnr : 4004\n\n[Pair]\nAa-Bq1 : as.exponential 1.0 -38\n")).write(out)
            raised = None
        except Exception as e:
            raised = e
        text = out.getvalue()
        if raised is None:
            widths = sorted(set(len(ln) for ln in text.splitlines()[3:]))
            run.violation(dict(engine="layout", target="DLPOLY", clause="dynamic-range", route=route, huge=True),
                          "DLPOLY via %s: [dynamic-range] r^-38 on a grid from 0.0025 (values up to 1e98 and force values of 1e100): a TABLE was written whose records are %s characters long" % (route, widths),
                          dict(route=route))
        elif text:
            run.violation(dict(engine="layout", target="DLPOLY", clause="dynamic-range", route=route, huge=True),
                          "DLPOLY via %s: [dynamic-range] values beyond the field width refused (%s) but %d characters were written" % (route, type(raised).__name__, len(text)), dict(route=route))
    for route in ("class", "ini"):
        for cutoff, nr, k in ((10.0, 4004, 1000), (10.0, 404, 100), (12.0, 1204, 250)):
            delpot = cutoff / (nr - 4)
            if k * delpot != 2.5:
                continue
            run.evaluations += 1
            run.distinct("grid-point:%s:%s:%d" % (route, cutoff, nr))
            out = io.StringIO()
            try:
                if route == "class":
                    fn = lambda r: 5.0 - r if r < 2.5 else 0.0
                    pot = Potential("Aa", "Bq1", fn)
                    fn.deriv = lambda r: -1.0 if r < 2.5 else 0.0
                    DLPoly_PairTabulation([pot], cutoff, nr).write(out)
                else:
                    Configuration().read(io.StringIO("[Tabulation]\ntarget : DL_POLY\ncutoff : %r\nnr : %d\n\n[Pair]\nAa-Bq1 : >0 as.polynomial 5 -1 >=2.5 as.zero\n" % (cutoff, nr))).write(out)
                b = formats.parse_dlpoly_table(out.getvalue())["blocks"][0]
                e, f = float(b["E"][k - 1]), float(b["F"][k - 1])
                if e != 0.0 or f != 0.0:
                    run.violation(dict(engine="layout", target="DLPOLY", clause="grid-point", route=route),
                                  "DLPOLY via %s: [grid-point] cutoff %s, %d rows: row %d is at %d * %r = 2.5 exactly, where the range '>=2.5 as.zero' starts; it holds energy %s force %s" % (
                                      route, cutoff, nr, k, k, delpot, b["E"][k - 1], b["F"][k - 1]), dict(route=route, cutoff=cutoff, nr=nr))
            except Exception as e:
                run.violation(dict(engine="layout", target="DLPOLY", clause="grid-point", route=route), "DLPOLY via %s: [grid-point] %s: %s" % (route, type(e).__name__, e), dict(route=route))


def main(prop, tier, seed):     # noqa: F811
    if prop == "C17":
        return main_c17(tier, seed)
    return _main_layout(prop, tier, seed)
