"""Algebra engine: C09 (model language) and C07 (derivatives) on spec/PotExpr.tla (+ FormEval.tla for custom formulas);
C06, C10, C18 live in engines/forms.py.

(M) TLC grows definitions production by production and checks the denotation's sanity properties;
(R) every definition TLC emits, with its exact jets <<value, d/dr, d2/dr2>> at the lattice points, the Offers record and
    the boundary / domain / analytic flags, is rendered to potable text (several surface variants and sections) and to a
    Python-API composition, evaluated on the real code and compared point by point."""
import io, json, os, random, functools, re
from fractions import Fraction as F

from lib import boot, tlc
from lib.harness import Run

P = boot.boot()
import atsim.potentials as AP                                           # noqa: E402
from atsim.potentials import potentialforms as PF                        # noqa: E402
from atsim.potentials import Multi_Range_Defn, create_Multi_Range_Potential_Form, Potential   # noqa: E402
from atsim.potentials.config import Configuration                        # noqa: E402
from atsim.potentials.config._common import ConfigurationException       # noqa: E402


def fr(q):
    return F(q[0], q[1])


# ------------------------------------------------------------------------------------------------ rendering
def leaf_text(l, style=0):
    """numbers are written as integers ('3') or as decimals ('3.0') depending on the style: the potable reader types them
    differently (int / float), the potential denoted is the same"""
    c = l["c"]
    k = l["kind"]
    num = (lambda v: "%d" % v) if style % 4 < 2 else (lambda v: "%.1f" % v)
    if k == "poly":
        return "as.polynomial %s %s %s" % tuple(num(v) for v in c)
    if k == "formula":
        return "pf %s %s %s" % tuple(num(v) for v in c)
    if k == "const":
        return "as.constant %s" % num(c[0])
    if k == "zero":
        return "as.zero"
    if k == "expn":
        return "as.exponential %s %s" % (num(c[0]), num(l["n"]))
    raise AssertionError(k)


def item_text(it, style):
    t = it["t"]
    sep = ", " if style % 2 == 0 else " ,"
    if t == "leaf":
        return leaf_text(it, style)
    if t in ("sum", "product"):
        return "%s(%s)" % (t, sep.join(def_text(a, style) for a in it["args"]))
    if t == "pow":
        return "pow(%s%sas.constant %d)" % (def_text(it["args"][0], style), sep, it["k"])
    if t == "trans":
        return "trans(%s%sas.constant %d)" % (def_text(it["args"][0], style), sep, it["x"])
    raise AssertionError(t)


def def_text(d, style=0):
    parts = []
    for i, rg in enumerate(d["rs"]):
        implicit = len(d["rs"]) == 1 and rg["ty"] == ">" and rg["s"] == 0 and style % 3 != 2
        marker = "" if implicit else "%s%s " % (rg["ty"], ("%d" % rg["s"]) if style % 2 else ("%.1f" % rg["s"]))      # starts may be negative
        parts.append(marker + item_text(rg["it"], style))
    return " ".join(parts)


FORMS = "pf(r, a, b, c) = a + b*r + c*r^2"


def continuation(value, style):
    """split a value over continuation lines (INI: following lines indented)"""
    if style % 4 != 3 or " " not in value:
        return value
    words = value.split(" ")
    mid = len(words) // 2
    return " ".join(words[:mid]) + "\n      " + " ".join(words[mid:])


def render_ini(d, section, style):
    delim = " : " if style % 2 == 0 else " = "
    val = continuation(def_text(d, style), style)
    other = "as.polynomial 9 9"
    tgt = {"Pair": "LAMMPS", "EAM-Embed": "setfl", "EAM-Density": "setfl", "EAM-Density-FS": "setfl_fs", "EAM-ADP-Dipole": "eam_adp"}[section]
    lines = ["[Tabulation]", "target%s%s" % (delim, tgt), "nr%s5" % delim, "cutoff%s4.0" % delim, "nrho%s5" % delim, "cutoff_rho%s4.0" % delim, ""]
    pf = ["[Potential-Form]", "pf(r, a, b, c) = a + b*r + c*r^2" if style % 2 == 0 else "pf( r,a , b,c ) : a + b*r + c*r^2", ""]
    if style >= 12:
        # the same formula as two statements of the expression language, with blanks (or a line break) around the ';' that
        # separates them: whitespace is not part of a formula
        pf[1] = "pf(r, a, b, c) = var q := a + b*r ; q + c*r^2" if style % 2 == 0 else "pf( r,a , b,c ) : var q := a + b*r ;\n      q + c*r^2"
    pair = ["Al-Al%s%s" % (delim, val if section == "Pair" else other), "Al-Cu%s%s" % (delim, other)]
    if style % 4 >= 2:
        pair.reverse()
    secs = [["[Pair]"] + pair + [""]]
    if section != "Pair":
        emb = ["Al%s%s" % (delim, val if section == "EAM-Embed" else other), "Cu%s%s" % (delim, other)]
        if section == "EAM-Density-FS":
            dens = ["Al->Al%s%s" % (delim, other), "Al->Cu%s%s" % (delim, val), "Cu->Al%s%s" % (delim, other), "Cu->Cu%s%s" % (delim, other)]
        else:
            dens = ["Al%s%s" % (delim, val if section == "EAM-Density" else other), "Cu%s%s" % (delim, other)]
        if style % 4 >= 2:
            emb.reverse()
            dens.reverse()
        secs += [["[EAM-Embed]"] + emb + [""], ["[EAM-Density]"] + dens + [""]]
        if section == "EAM-ADP-Dipole":
            secs += [["[EAM-ADP-Dipole]", "Al-Cu%s%s" % (delim, val), ""], ["[EAM-ADP-Quadrupole]", "Al-Al%s%s" % (delim, other), ""]]
    blocks = [lines, pf] + secs
    if style % 3 == 1:
        blocks = [lines] + secs + [pf]       # entry / section order must not matter
    text = "\n".join("\n".join(b) for b in blocks) + "\n"
    if (style // 6) % 2 == 1:
        # the custom form carries the bare name of a standard form (the manual's own examples call theirs 'buck' and 'morse'):
        # 'buck 1 2 3' is the file's formula, 'as.buck 1 2 3' the library's
        import re
        text = re.sub(r"\bpf\b", "buck", text)
    return text


def extract(tab, section):
    if section == "Pair":
        return [p for p in tab.potentials if (p.speciesA, p.speciesB) == ("Al", "Al")][0].potentialFunction
    if section == "EAM-Embed":
        return [e for e in tab.eam_potentials if e.species == "Al"][0].embeddingFunction
    if section == "EAM-Density":
        return [e for e in tab.eam_potentials if e.species == "Al"][0].electronDensityFunction
    if section == "EAM-Density-FS":
        return [e for e in tab.eam_potentials if e.species == "Al"][0].electronDensityFunction["Cu"]
    if section == "EAM-ADP-Dipole":
        return tab.dipole_potentials[0].potentialFunction
    raise AssertionError(section)


# ------------------------------------------------------------------------------------------------ Python API composition
def api_leaf(l):
    c = l["c"]
    k = l["kind"]
    if k == "poly":
        return PF.polynomial(*[float(x) for x in c])
    if k == "formula":
        a, b, cc = [float(x) for x in c]
        return lambda r: a + b * r + cc * r ** 2      # a plain callable: no analytic derivatives
    if k == "const":
        return PF.constant(float(c[0]))
    if k == "zero":
        return PF.zero()
    if k == "expn":
        return PF.exponential(float(c[0]), float(l["n"]))


def used_elsewhere(obj):
    """objects are values: a function that has been composed is not changed by being composed again.  Every intermediate result
    of the Python-API composition becomes an operand of further, discarded compositions (as a partial sum re-used in two
    models would) before anything is evaluated"""
    other = PF.polynomial(1.0, 2.0)
    for op in (AP.plus, AP.product):
        op(obj, other)
        op(other, obj)
    AP.pow(obj, PF.constant(2.0))
    return obj


def api_item(it):
    t = it["t"]
    if t == "leaf":
        return api_leaf(it)
    args = [api_def(a) for a in it["args"]]
    if t == "sum":
        return used_elsewhere(functools.reduce(lambda a, b: AP.plus(used_elsewhere(a), b), args))
    if t == "product":
        return used_elsewhere(functools.reduce(lambda a, b: AP.product(used_elsewhere(a), b), args))
    if t == "pow":
        return used_elsewhere(AP.pow(args[0], api_def(dict(t="def", rs=[dict(ty=">", s=0, it=dict(t="leaf", kind="const", c=[it["k"], 0, 0], n=0))]))))
    if t == "trans":
        f, X = args[0], float(it["x"])

        def shifted(r):
            return f(r + X)
        return shifted


def api_def(d):
    return create_Multi_Range_Potential_Form(*[Multi_Range_Defn(rg["ty"], float(rg["s"]), api_item(rg["it"])) for rg in d["rs"]])


def has_trans(d):
    for rg in d["rs"]:
        it = rg["it"]
        if it["t"] == "trans":
            return True
        if it["t"] != "leaf" and any(has_trans(a) for a in it["args"]):
            return True
    return False


# ------------------------------------------------------------------------------------------------ checks
SECTIONS = ["Pair", "EAM-Embed", "EAM-Density", "EAM-Density-FS", "EAM-ADP-Dipole"]
_CASES = []
_MODE = "C09"


def scale_of(row):
    j = row["jet"]
    return 1.0 + abs(float(fr(j["v"]))) + abs(float(fr(j["d1"]))) + abs(float(fr(j["d2"])))


def _one(idx):
    case = _CASES[idx]
    d = case["tree"]
    out = dict(idx=idx, bad=[], n=0)
    try:
        style = idx % 24
        section = SECTIONS[idx % len(SECTIONS)] if _MODE == "C09" else "Pair"
        text = render_ini(d, section, style)
        out["ini"] = None
        try:
            tab = Configuration().read(io.StringIO(text))
            f = extract(tab, section)
        except Exception as e:
            out["bad"].append(("well-formed-definition-refused", "%s: %s" % (type(e).__name__, str(e)[:200]), text))
            return out
        g = None if has_trans(d) else api_def(d)
        for row in case["rows"]:
            x = float(row["x"])
            v, d1, d2 = (float(fr(row["jet"][k])) for k in ("v", "d1", "d2"))
            S = scale_of(row)
            out["n"] += 1
            if not row.get("defined", True):
                continue
            try:
                got = f(x)
            except Exception as e:
                out["bad"].append(("evaluation-raises", "energy at r=%s: %s: %s" % (x, type(e).__name__, e), text))
                break
            if _MODE == "C09":
                if abs(got - v) > 1e-9 * S:
                    out["bad"].append(("value", "%s in [%s]: energy at r=%s is %r, the definition denotes %r (= %s/%s)" % (
                        def_text(d, style), section, x, got, v, row["jet"]["v"][0], row["jet"]["v"][1]), text))
                    break
                if g is not None:
                    ga = g(x)
                    if abs(ga - got) > 1e-12 * S:
                        out["bad"].append(("api-equivalence", "%s: potable gives %r at r=%s, the same pieces composed through the Python API give %r" % (def_text(d, style), got, x, ga), text))
                        break
                continue
            # ---- C07
            off = case["offers"]
            if g is not None and not row["boundary"] and row["dom"]:
                # the same pieces composed through the Python API (plain callables for the non-analytic leaves)
                for name, want in (("deriv", d1), ("deriv2", d2)):
                    if hasattr(g, name):
                        try:
                            dv = getattr(g, name)(x)
                        except Exception as e:
                            out["bad"].append(("evaluation-raises", "%s (Python API): .%s(%s) raised %s: %s" % (def_text(d, style), name, x, type(e).__name__, e), text))
                            return out
                        tol = 1e-9 * S if row["analytic"] else (1e-6 if name == "deriv" else 2e-3) * S
                        if abs(dv - want) > tol:
                            out["bad"].append((name, "%s composed through the Python API: .%s(%s) = %r, the true derivative is %r" % (def_text(d, style), name, x, dv, want), text))
                            return out
                if abs(Potential("A", "B", g).force(x) + d1) > (1e-9 if (row["analytic"] and off["d1"]) else 1e-6) * S:
                    out["bad"].append(("force", "%s composed through the Python API: Potential.force(%s) = %r, minus the true slope is %r" % (def_text(d, style), x, Potential("A", "B", g).force(x), -d1), text))
                    return out
            for name, want, o in (("deriv", d1, off["d1"]), ("deriv2", d2, off["d2"])):
                if hasattr(f, name) != o:
                    out["bad"].append(("offers", "%s: callable %s .%s, the specification says it %s" % (
                        def_text(d, style), "has" if hasattr(f, name) else "lacks", name, "offers it" if o else "does not"), text))
                    return out
                if not o or row["boundary"] or not row["dom"]:
                    continue
                try:
                    dv = getattr(f, name)(x)
                except Exception as e:
                    out["bad"].append(("evaluation-raises", "%s: .%s(%s) raised %s: %s" % (def_text(d, style), name, x, type(e).__name__, e), text))
                    return out
                if row["analytic"]:
                    tol = 1e-9 * S
                else:
                    tol = (1e-6 if name == "deriv" else 2e-3) * S
                if abs(dv - want) > tol:
                    out["bad"].append((name, "%s: .%s(%s) = %r, the true derivative is %r (%s component, tolerance %.1e)" % (
                        def_text(d, style), name, x, dv, want, "analytic" if row["analytic"] else "numerically differentiated", tol), text))
                    return out
            if not row["boundary"] and row["dom"]:
                pot = Potential("Al", "Al", f)
                fo = pot.force(x)
                tol = (1e-9 if (row["analytic"] and off["d1"]) else 1e-6) * S
                if abs(fo + d1) > tol:
                    out["bad"].append(("force", "%s: Potential.force(%s) = %r, minus the true slope is %r" % (def_text(d, style), x, fo, -d1), text))
                    return out
        if _MODE == "C07" and not out["bad"]:
            table_forces(case, d, style, out)
    except Exception:
        import traceback
        out["machinery"] = traceback.format_exc()[-1500:]
    return out


def table_forces(case, d, style, out):
    """the force column of LAMMPS / DL_POLY tables is minus the slope of the tabulated energy (rows chosen to fall on the lattice)"""
    from lib import formats
    rows = {r["x"]: r for r in case["rows"]}
    for target, nr in (("LAMMPS", 5), ("DL_POLY", 8)):
        text = "[Tabulation]\ntarget : %s\nnr : %d\ncutoff : 4.0\n\n[Potential-Form]\n%s\n\n[Pair]\nAl-Al : %s\n" % (target, nr, FORMS, def_text(d, style))
        try:
            tab = Configuration().read(io.StringIO(text))
            buf = io.StringIO()
            tab.write(buf)
        except Exception as e:
            # a definition that cannot be evaluated at some grid point (e.g. a negative power at r = 0) is not this check's subject
            continue
        if target == "LAMMPS":
            b = formats.parse_lammps_table(buf.getvalue())[0]
            trip = [(float(r[1]), float(r[2]), float(r[3]), 1.0) for r in b["rows"]]
        else:
            t = formats.parse_dlpoly_table(buf.getvalue())
            blk = t["blocks"][0]
            trip = [(float(k + 1), float(blk["E"][k]), float(blk["F"][k]), float(k + 1)) for k in range(len(blk["E"]))]    # F column is -r dU/dr
        for x, e, f, scale in trip:
            row = rows.get(int(round(x)))
            if row is None or abs(x - round(x)) > 1e-9 or not row.get("defined", True):
                continue
            v, d1 = float(fr(row["jet"]["v"])), float(fr(row["jet"]["d1"]))
            S = scale_of(row)
            out["n"] += 1
            if abs(e - v) > 1e-7 * S:
                out["bad"].append(("table-energy", "%s table of %s: energy at r=%s is %r, the definition denotes %r" % (target, def_text(d, style), x, e, v), text))
                return
            if row["boundary"] or not row["dom"]:
                continue
            tol = (1e-7 if (row["analytic"] and case["offers"]["d1"]) else 1e-5) * S * max(1.0, scale)
            if abs(f + scale * d1) > tol:
                out["bad"].append(("table-force", "%s table of %s: force entry at r=%s is %r, minus the slope of the tabulated energy%s is %r" % (
                    target, def_text(d, style), x, f, " times r" if scale != 1.0 else "", -scale * d1), text))
                return


# ------------------------------------------------------------------------------------------------ custom formulas (FormEval.tla)
def fe_expr(e, f, nforms, style):
    op = e["op"]
    if op == "par":
        return "a" if style != 2 else "as.polynomial(r, a)"
    if op == "r":
        return "r" if style != 2 else "pymath.sqrt(r*r)"
    if op == "num":
        return str(e["k"]) if style == 0 else "as.constant(r, %d)" % e["k"]
    if op in ("add", "sub", "mul", "lt"):
        x, y = fe_expr(e["x"], f, nforms, style), fe_expr(e["y"], f, nforms, style)
        if op == "add" and style == 1:
            return "pymath.fsum(%s, %s)" % (x, y)
        return "(%s %s %s)" % (x, {"add": "+", "sub": "-", "mul": "*", "lt": "<"}[op], y)
    if op == "if":
        return "if(%s, %s, %s)" % (fe_expr(e["c"], f, nforms, style), fe_expr(e["x"], f, nforms, style), fe_expr(e["y"], f, nforms, style))
    if op == "fn2":
        return "%s(%s, %s)" % ("h2" if e["kind"] == "h2" else "pymath.fsum", fe_expr(e["x"], f, nforms, style), fe_expr(e["y"], f, nforms, style))
    if op == "call":
        tgt = f + e["g"] if f + e["g"] <= nforms else ((f + e["g"] - 1) % nforms) + 1      # the cyclic program wraps around
        return "f%d(r, %s)" % (tgt, fe_expr(e["x"], f, nforms, style))
    raise AssertionError(op)


def fe_render(case, style):
    prog = case["prog"]
    n = len(prog)
    forms = ["f%d(r, a) = %s" % (i + 1, fe_expr(prog[i], i + 1, n, style % 3)) for i in range(n)]
    if style >= 6:       # each formula as two statements, blanks around the separating ';'
        forms = ["%s = var q%d := (%s) ; q%d" % (f.split(" = ", 1)[0], i, f.split(" = ", 1)[1], i) for i, f in enumerate(forms)]
    if "\"h2\"" in json.dumps(prog):
        forms.append("h2(x, y) = x*100 + y")
    if style % 2:
        forms.reverse()           # a form may be defined after the forms that call it
    pairs = []
    insts = sorted(set((v["f"], v["a"]) for v in case["vals"]))
    sp = ["Al", "Cu", "Fe", "Ni", "Ag", "Au", "Pt", "Pd", "Co", "Cr", "Mn", "Mo"]
    keys = {}
    k = 0
    for i in range(len(sp)):
        for j in range(i, len(sp)):
            if k < len(insts):
                keys[insts[k]] = "%s-%s" % (sp[i], sp[j])
                k += 1
    for inst in insts:
        pairs.append("%s : >=0 f%d %d" % (keys[inst], inst[0], inst[1]))
    text = "[Tabulation]\ntarget : LAMMPS\nnr : 5\ncutoff : 4.0\n\n[Potential-Form]\n" + "\n".join(forms) + "\n\n[Pair]\n" + "\n".join(pairs) + "\n"
    return text, keys


_FCASES = []


def _fe_one(idx):
    case = _FCASES[idx]
    out = dict(idx=idx, bad=[], n=0)
    try:
        style = idx % 12
        if case.get("cyclic"):
            style = 0 if style % 2 == 0 else 3      # operators as written (which sums are function calls is part of the program)
        text, keys = fe_render(case, style)
        try:
            tab = Configuration().read(io.StringIO(text))
        except Exception as e:
            out["bad"].append(("well-formed-definition-refused", "%s: %s" % (type(e).__name__, str(e)[:200]), text))
            return out
        pots = {"%s-%s" % (p.speciesA, p.speciesB): p for p in tab.potentials}
        rnd = random.Random(idx)
        vals = list(case["vals"])
        for rep in range(2):            # every (form, argument, r) twice, in two different shuffled orders, on one tabulation
            rnd.shuffle(vals)
            for v in vals:
                try:
                    got = pots[keys[(v["f"], v["a"])]].energy(float(v["r"]))
                except Exception as e:
                    out["bad"].append(("evaluation-raises", "f%d %d at r=%d: %s: %s" % (v["f"], v["a"], v["r"], type(e).__name__, str(e)[:200]), text))
                    return out
                out["n"] += 1
                if abs(got - v["v"]) > 1e-9 * (1 + abs(v["v"])) and case.get("h2") and abs(got - v.get("impl", v["v"])) <= 1e-9 * (1 + abs(got)):
                    # the deviation the specification's model of the implementation (CallBuffers) predicts: finding F48
                    out.setdefault("known", []).append(("formula-value", "potential 'f%d %d' at r=%d gives %r, as the call-node argument buffers of FormEval.tla predict; the formulas denote %d" % (
                        v["f"], v["a"], v["r"], got, v["v"]), text))
                    continue
                if abs(got - v["v"]) > 1e-9 * (1 + abs(v["v"])):
                    out["bad"].append(("formula-value", "potential 'f%d %d' at r=%d gives %r; binding parameters positionally the formulas denote %d (evaluation #%d of this tabulation)" % (
                        v["f"], v["a"], v["r"], got, v["v"], out["n"]), text))
                    return out
    except Exception:
        import traceback
        out["machinery"] = traceback.format_exc()[-1500:]
    return out


def run_formeval(run, tier):
    """(M) FormEval.tla for acyclic programs + anti-vacuity on the cyclic one; (R) every program on the real registry"""
    global _FCASES
    import multiprocessing as mp
    res = tlc.run("FormEval", "FormEval_acyclic.cfg", env={"EMIT": "1"}, coverage=True, keep=True, timeout=1800)
    try:
        if res.violated:
            run.machinery("TLC: %s violated on FormEval_acyclic\n%s" % (res.violated, res.stdout[-1500:]))
            return
        run.add_tlc("FormEval_acyclic", res)
        _FCASES = tlc.read_ndjson(os.path.join(res.outdir, "cases.ndjson"))
        pymath = tlc.read_ndjson(os.path.join(res.outdir, "pymath.ndjson"))
    finally:
        tlc.cleanup(res)
    # pymath.* bindings: exact identities computed by the specification, evaluated inside custom formulas
    forms, pairs = [], []
    for i, c in enumerate(pymath):
        forms.append("pm%d(r) = pymath.%s(%s) + 0*r" % (i, c["fn"], ", ".join(str(a) for a in c["args"])))
    text = "[Tabulation]\ntarget : LAMMPS\nnr : 5\ncutoff : 4.0\n\n[Potential-Form]\n" + "\n".join(forms) + "\n\n[Pair]\n" + \
        "\n".join("X%d-Y%d : >=0 pm%d" % (i, i, i) for i in range(len(pymath))) + "\n"
    try:
        tab = Configuration().read(io.StringIO(text))
        pots = {p.speciesA: p for p in tab.potentials}
    except Exception as e:
        run.violation(dict(engine="algebra", clause="well-formed-definition-refused", cyclic=False), "pymath formulas refused: %s: %s" % (type(e).__name__, str(e)[:300]), dict(ini=text))
        pots = None
    if pots is not None:
        for i, c in enumerate(pymath):
            try:
                got = pots["X%d" % i].energy(1.5)
            except Exception as e:
                run.violation(dict(engine="algebra", clause="pymath", cyclic=False), "[pymath] pymath.%s%s raised %s: %s" % (c["fn"], tuple(c["args"]), type(e).__name__, str(e)[:200]), dict(case=c))
                continue
            run.evaluations += 1
            run.replayed += 1
            run.distinct("pymath:%s%s" % (c["fn"], c["args"]))
            if abs(got - c["v"]) > 1e-9 * (1 + abs(c["v"])):
                run.violation(dict(engine="algebra", clause="pymath", cyclic=False), "[pymath] pymath.%s%s inside a formula gives %r; math.%s of the same arguments is %d" % (
                    c["fn"], tuple(c["args"]), got, c["fn"], c["v"]), dict(case=c))
    r2 = tlc.run("FormEval", "FormEval_cyclic.cfg", env={"EMIT": "1"}, keep=True, timeout=600)
    try:
        if r2.violated:
            run.machinery("TLC: %s violated on FormEval_cyclic (save/restore model)" % r2.violated)
        else:
            run.add_tlc("FormEval_cyclic", r2)
        cyc = tlc.read_ndjson(os.path.join(r2.outdir, "cases.ndjson"))
    finally:
        tlc.cleanup(r2)
    # recursion through the argument of another call: the statement is violated by the model of the tree as it is (F48) and
    # holds when call arguments belong to the activation
    for cfgname, want in (("FormEval_cyclic_f48.cfg", "ImplIsSubstitution"), ("FormEval_cyclic_design.cfg", None)):
        r4 = tlc.run("FormEval", cfgname, timeout=600)
        if r4.violated != want:
            run.machinery("%s: expected %r, TLC says %r" % (cfgname, want, r4.violated))
    r3 = tlc.run("FormEval", "FormEval_cyclic_unrepaired.cfg", timeout=600)
    run.notes["unrepaired_model_violates"] = r3.violated
    if r3.violated != "ImplIsSubstitution":
        run.machinery("anti-vacuity: the re-entrant program without save/restore should violate ImplIsSubstitution, TLC says %r" % r3.violated)
    with mp.Pool(min(16, os.cpu_count() or 1)) as pool:
        results = pool.map(_fe_one, range(len(_FCASES)), chunksize=8)
    for r in results:
        case = _FCASES[r["idx"]]
        if r.get("machinery"):
            run.machinery("formula case %d: %s" % (r["idx"], r["machinery"]))
            continue
        run.evaluations += r["n"]
        run.replayed += 1
        run.distinct("prog:" + json.dumps(case["prog"], sort_keys=True))
        if r["idx"] % 97 == 3 and len(run.samples) < 6:
            run.sample(dict(program=fe_render(case, r["idx"] % 6)[0].split("[Pair]")[0], values=case["vals"][:3]))
        for clause, msg, text in r["bad"][:1]:
            run.violation(dict(engine="algebra", clause=clause, cyclic=False), "[%s] %s" % (clause, msg), dict(case=case, ini=text))
    # the cyclic program of the specification on the real code (known finding F14 when it deviates)
    for c in cyc:
        c["cyclic"] = True
    _FCASES = cyc
    for i in range(len(cyc)):
        r = _fe_one(i)
        run.evaluations += r["n"]
        for clause, msg, text in r["bad"][:1]:
            run.violation(dict(engine="algebra", clause=clause, cyclic=True), "[%s] mutually recursive forms: %s" % (clause, msg), dict(case=cyc[i], ini=text))
        for clause, msg, text in r.get("known", [])[:1]:
            run.violation(dict(engine="algebra", clause=clause, cyclic=True, recursion_through_call_argument=True, as_modelled=True),
                          "[%s] mutually recursive forms: %s" % (clause, msg), dict(case=cyc[i], ini=text))
        if cyc[i].get("h2") and not r.get("known") and not r["bad"]:
            run.notes["F48_no_longer_shows"] = True


def parse_printed(stdout):
    """CASE lines printed by the EmitCase invariant"""
    out = []
    for line in stdout.splitlines():
        if line.startswith('<<"CASE", "') and line.endswith('">>'):
            inner = line[len('<<"CASE", "'):-3]
            try:
                out.append(json.loads(json.loads('"' + inner + '"')))
            except Exception:
                pass
    return out


def load_cases(run, tier, seed):
    cases = []
    res = tlc.run("PotExpr", "PotExpr_quick.cfg", env={"EMIT": "1"}, coverage=True, keep=True, timeout=1800)
    try:
        if res.violated:
            run.machinery("TLC: %s violated\n%s" % (res.violated, res.stdout[-1500:]))
            return []
        run.add_tlc("PotExpr_quick", res)
        cases = tlc.read_ndjson(os.path.join(res.outdir, "cases.ndjson"))
        _POWVAR[:] = tlc.read_ndjson(os.path.join(res.outdir, "powvar.ndjson"))
        _POWTOWER[:] = tlc.read_ndjson(os.path.join(res.outdir, "powtower.ndjson"))
    finally:
        tlc.cleanup(res)
    # depth 2 by simulation: behaviours of the grammar, finished trees printed by the EmitCase invariant
    n = 200 if tier == "quick" else 6000
    res = tlc.run("PotExpr", "PotExpr_deep.cfg", workers=1, simulate="num=%d" % n, depth=4, seed=seed + 11, timeout=1800, keep=True)
    try:
        if res.violated:
            run.machinery("TLC (simulation): %s violated\n%s" % (res.violated, res.stdout[-1500:]))
            return []
        run.add_tlc("PotExpr_deep(simulate num=%d)" % n, res, exhaustive=False)
        deep = parse_printed(res.stdout)
        seen = set()
        for c in deep:
            k = json.dumps(c["tree"], sort_keys=True)
            if k not in seen:
                seen.add(k)
                cases.append(c)
        run.notes["depth2_trees_from_simulation"] = len(seen)
    finally:
        tlc.cleanup(res)
    if tier == "thorough":
        # depth 3 (the statement's bound) by simulation; values of deep products may leave TLC's 32-bit integers, in which case
        # the sampling stops early and the trees printed so far are used
        res = tlc.run("PotExpr", "PotExpr_deep3.cfg", workers=1, simulate="num=4000", depth=6, seed=seed + 23, timeout=3000, keep=True, tolerate=True)
        try:
            if res.violated:
                run.machinery("TLC (depth-3 simulation): %s violated\n%s" % (res.violated, res.stdout[-1500:]))
                return []
            run.add_tlc("PotExpr_deep3(simulate num=4000)", res, exhaustive=False)
            n3 = 0
            for c in parse_printed(res.stdout):
                k = json.dumps(c["tree"], sort_keys=True)
                if k not in seen:
                    seen.add(k)
                    cases.append(c)
                    n3 += 1
            run.notes["depth3_simulation"] = dict(new_trees=n3, stopped_early=bool(res.error), reason=(res.error or "")[-300:])
        finally:
            tlc.cleanup(res)
    return cases


_POWVAR = []
_POWTOWER = []


def powtower_check(run):
    """pow(a, pow(b, c)) = a ** (b ** c) (PowTowerCases of PotExpr.tla): the exponent is itself a power; through potable text (bare and
    wrapped in a sum) and through the Python API"""
    for c in _POWTOWER:
        a, b, k, v = c["a"], c["b"], c["c"], c["v"]
        defs = ["pow(as.constant %d, pow(as.constant %d, as.constant %d))" % (a, b, k),
                "pow(as.constant %d, sum(pow(as.constant %d, as.constant %d), as.zero))" % (a, b, k),
                "sum(as.zero, pow(as.constant %d, pow(as.constant %d, as.constant %d)))" % (a, b, k)]
        text = "[Tabulation]\ntarget : LAMMPS\nnr : 5\ncutoff : 4.0\n\n[Pair]\n" + "\n".join("A-B%d : %s" % (i, d) for i, d in enumerate(defs)) + "\n"
        try:
            pots = Configuration().read(io.StringIO(text)).potentials
            fns = [("potable '%s'" % d, p.potentialFunction) for d, p in zip(defs, sorted(pots, key=lambda p: p.speciesB))]
            fns.append(("atsim.potentials.pow(a, pow(b, c))", AP.pow(PF.constant(float(a)), AP.pow(PF.constant(float(b)), PF.constant(float(k))))))
        except Exception as e:
            run.violation(dict(engine="algebra", clause="well-formed-definition-refused"), "[well-formed-definition-refused] %s: %s: %s" % (defs[0], type(e).__name__, str(e)[:200]), dict(case=c))
            continue
        for what, f in fns:
            for x in (1.0, 2.5):
                run.evaluations += 1
                got = f(x)
                if abs(got - v) > 1e-9 * abs(v):
                    run.violation(dict(engine="algebra", clause="value"), "[value] %s at r=%s = %r; %d ** (%d ** %d) = %d%s" % (
                        what, x, got, a, b, k, v, " (and (%d ** %d) ** %d = %d)" % (a, b, k, c["other"]) if abs(got - c["other"]) < 1e-9 * abs(c["other"]) else ""), dict(case=c))
                    break
        run.replayed += 1
        run.distinct("powtower:%d:%d:%d" % (a, b, k))


def powvar_check(run):
    """pow(a, b) with an exponent that varies with r (PowVarCases of PotExpr.tla): through the Python API and through potable
    text; exact where a(r) = 1, otherwise the power rule evaluated in floating point from the exact jets of a and b"""
    import math
    for ci, c in enumerate(_POWVAR):
        la, lb = c["base"], c["exp"]
        da = dict(t="def", rs=[dict(ty=">=", s=0, it=la)])
        db = dict(t="def", rs=[dict(ty=">=", s=0, it=lb)])
        text = "[Tabulation]\ntarget : LAMMPS\nnr : 5\ncutoff : 4.0\n\n[Potential-Form]\n%s\n\n[Pair]\nA-B : >=0 pow(%s, %s)\n" % (FORMS, def_text(da, 1), def_text(db, 1))
        what = "pow(%s, %s)" % (def_text(da, 1), def_text(db, 1))
        try:
            g = Configuration().read(io.StringIO(text)).potentials[0].potentialFunction
            f = AP.pow(api_def(da), api_def(db))
        except Exception as e:
            run.violation(dict(engine="algebra", clause="well-formed-definition-refused"), "[well-formed-definition-refused] %s: %s: %s" % (what, type(e).__name__, str(e)[:200]), dict(case=c))
            continue
        analytic = la["kind"] != "formula" and lb["kind"] != "formula"
        for row in c["rows"]:
            if not row["positive"] or row["x"] == 0:
                continue
            x = float(row["x"])
            a, a1, a2 = (float(fr(row["a"][k])) for k in ("v", "d1", "d2"))
            b, b1, b2 = (float(fr(row["b"][k])) for k in ("v", "d1", "d2"))
            if row["one"]:
                v, v1, v2 = (float(fr(row["e"][k])) for k in ("v", "d1", "d2"))
            else:
                la_ = math.log(a)
                v = a ** b
                q = b1 * la_ + b * a1 / a
                v1 = v * q
                v2 = v * (q * q + b2 * la_ + 2 * a1 * b1 / a + b * a2 / a - b * a1 * a1 / (a * a))
            scale = 1.0 + abs(v) + abs(v1) + abs(v2)
            for route, h in (("the Python API", f), ("potable text", g)):
                run.evaluations += 1
                got = h(x)
                if _MODE == "C09":
                    if abs(got - v) > 1e-10 * scale:
                        run.violation(dict(engine="algebra", clause="value"), "[value] %s through %s at r=%s = %r, a(r)**b(r) = %r" % (what, route, x, got, v), dict(case=c, row=row))
                        break
                    continue
                for name, want, tol in (("deriv", v1, 1e-9 if analytic else 1e-5), ("deriv2", v2, 1e-9 if analytic else 5e-3)):
                    if not hasattr(h, name):
                        continue         # "whenever a callable offers deriv or deriv2": nothing is claimed about what it does not offer
                    dv = getattr(h, name)(x)
                    if abs(dv - want) > tol * scale:
                        run.violation(dict(engine="algebra", clause=name), "[%s] %s through %s: .%s(%s) = %r, the derivative of a(r)**b(r) is %r%s" % (
                            name, what, route, name, x, dv, want, " (exact: a(r) = 1)" if row["one"] else ""), dict(case=c, row=row))
                        break
        run.replayed += 1
        run.distinct("powvar:%d" % ci)


def depth_of(d):
    m = 0
    for rg in d["rs"]:
        it = rg["it"]
        if it["t"] != "leaf":
            m = max(m, 1 + max(depth_of(a) for a in it["args"]))
    return m + (1 if len(d["rs"]) > 1 else 0)


def main(prop, tier, seed):
    global _CASES, _MODE
    import multiprocessing as mp
    run = Run(prop, tier, seed)
    _MODE = prop
    run.assumptions = ["leaves are exact Laurent polynomials (as.polynomial, as.constant, as.zero, as.exponential with integer exponent, a custom formula); transcendental built-ins are C06's subject",
                       "derivatives are not asserted on range boundaries nor where the implemented power rule needs log of a non-positive number",
                       "numerically differentiated components: tolerance 1e-6 (first) / 2e-3 (second derivative) relative to the jet's magnitude"]
    try:
        cases = load_cases(run, tier, seed)
        if prop == "C09" and not run.machinery_errors:
            run_formeval(run, tier)
            # which definition a name denotes, in definitions, modifier arguments and formula calls (spec/Names.tla)
            from engines import names
            names.check(run, tier, seed, engine="algebra")
        if prop == "C07" and not run.machinery_errors:
            from engines import forms
            forms.run_forms(run, "derivs")
            # splined potentials: the offered derivatives of the three construction routes and of splines whose end potentials
            # have no analytic derivative (engines/splines.check_routes)
            from engines import splines
            sbad = []
            splines.check_routes(run, sbad)
            seen = set()
            for clause, msg, case in sbad:
                if (clause, msg[:60]) not in seen and ".deriv" in msg:
                    seen.add((clause, msg[:60]))
                    run.violation(dict(engine="algebra", clause="spline-" + clause), "[spline-%s] %s" % (clause, msg), case)
        if not run.machinery_errors:
            powvar_check(run)
            if _MODE == "C09":
                powtower_check(run)
        if not run.machinery_errors:
            _CASES = cases
            with mp.Pool(min(16, os.cpu_count() or 1)) as pool:
                results = pool.map(_one, range(len(cases)), chunksize=16)
            for r in results:
                case = cases[r["idx"]]
                if r.get("machinery"):
                    run.machinery("case %d: %s" % (r["idx"], r["machinery"]))
                    continue
                run.evaluations += r["n"]
                run.replayed += 1
                if depth_of(case["tree"]) >= 1:
                    run.distinct(json.dumps(case["tree"], sort_keys=True))
                if len(run.samples) < 4 and r["idx"] % 131 == 17:
                    run.sample(dict(definition=def_text(case["tree"], r["idx"] % 12), offers=case["offers"], rows=case["rows"][:2]))
                for clause, msg, text in r["bad"][:1]:
                    run.violation(dict(engine="algebra", clause=clause), "[%s] %s" % (clause, msg), dict(case=case, ini=text))
            run.rule = (run.rule + " | " if run.rule else "") + "cases = every definition of depth <= 1 of the grammar (TLC, exhaustive) + depth-2 definitions from TLC simulation, x lattice points; non-trivial = definition with a modifier or several ranges; distinct by definition"
    except tlc.TLCError as e:
        run.machinery(str(e))
    return run.finish()
