"""spec/Names.tla on the real code: every (model, use) of the bound through Configuration.read.

Each user definition returns a number of its own (custom formula l: 100 + index, table form l: 200 + index), the standard form and the
library function have known values, so the energy tabulated for the use names the definition that was bound to the name.  A use
the specification does not give a meaning (a name nothing defines, a library function as a potential form, a model that defines
a thing twice) must end in a configuration error."""
import io, json, math, os
import multiprocessing as mp

from lib import tlc, boot

CUSTOM = ["f", "F", "g", "buck", "morse", "exp"]
TABLE = ["tab", "f", "buck", "G"]


def ident(kind, label):
    return 100.0 + CUSTOM.index(label) if kind == "custom" else 200.0 + TABLE.index(label)


def render(model, use):
    lines = ["[Tabulation]", "target : LAMMPS", "nr : 5", "cutoff : 4.0", ""]
    forms = ["%s(r, a) = %d + 0*a + 0*r" % (l, ident("custom", l)) for l in model["custom"]]
    name, ctx = use["name"], use["ctx"]
    den = use["den"]
    kind = den[0]
    # how the name is applied depends on what it is meant to be: a formula of one parameter, a table form (none), as.buck (three)
    if name in model["custom"] or (kind == "custom"):
        args_def, args_call = " 1", "(r, 1)"
    elif name in model["table"] or kind == "table":
        args_def, args_call = "", "(r)"
    elif name == "as.buck":
        args_def, args_call = " 1000.0 0.5 32.0", "(r, 1000.0, 0.5, 32.0)"
    elif name == "pymath.floor":
        args_def, args_call = " 1", "(r + 0.5)"
    else:
        args_def, args_call = " 1", "(r, 1)"
    if ctx == "def":
        pair = "A-B : >=0 %s%s" % (name, args_def)
    elif ctx == "modarg":
        pair = "A-B : >=0 sum(>=0 %s%s, as.zero)" % (name, args_def)
    else:
        forms.append("u(r) = %s%s" % (name, args_call))
        pair = "A-B : >=0 u"
    if forms:
        lines += ["[Potential-Form]"] + forms + [""]
    for l in model["table"]:
        lines += ["[Table-Form:%s]" % l, "x : 0.0 1.0 2.0 3.0 4.0", "y : " + " ".join([repr(ident("table", l))] * 5), ""]
    lines += ["[Pair]", pair, ""]
    return "\n".join(lines)


def expected(den, r):
    kind, label = den
    if kind in ("custom", "table"):
        return ident(kind, label)
    if kind == "standard":
        return 1000.0 * math.exp(-r / 0.5) - 32.0 / r ** 6
    if kind == "library":
        return float(math.floor(r + 0.5))
    return None


_CASES = []


def _one(idx):
    from atsim.potentials.config import Configuration
    from atsim.potentials.config._common import ConfigurationException
    model = _CASES[idx]
    out = dict(idx=idx, bad=[], n=0)
    for use in model["uses"]:
        text = render(model, use)
        out["n"] += 1
        try:
            tab = Configuration().read(io.StringIO(text))
            got = ("ok", tab.potentials[0].energy(1.0))
        except ConfigurationException as e:
            got = ("config", str(e)[:140])
        except Exception as e:
            got = ("internal", "%s: %s" % (type(e).__name__, str(e)[:140]))
        want = expected(use["den"], 1.0)
        what = "custom %s, table %s; '%s' used as %s" % (model["custom"], model["table"], use["name"],
                                                        {"def": "the form of a definition", "modarg": "the form of a modifier's argument", "call": "a function called in a formula"}[use["ctx"]])
        if want is None:
            if got[0] == "ok":
                out["bad"].append(("name-bound-silently", "%s: tabulated %r; the specification gives the name no meaning there (%s) - a configuration error is expected" % (
                    what, got[1], "the model defines a thing twice / uses a reserved name" if not model["accept"] else "nothing defines it"), text))
            elif got[0] == "internal":
                out["bad"].append(("internal-exception", "%s: %s" % (what, got[1]), text))
        else:
            if got[0] != "ok":
                out["bad"].append(("well-formed-definition-refused", "%s: %s %s; the name denotes the %s definition '%s'" % (what, got[0], got[1], use["den"][0], use["den"][1]), text))
            elif abs(got[1] - want) > 1e-9 * max(1.0, abs(want)):
                out["bad"].append(("name-bound-to-another-definition", "%s: energy %r at r = 1; the name denotes the %s definition '%s', whose value is %r" % (
                    what, got[1], use["den"][0], use["den"][1], want), text))
    return out


def _init(cases):
    global _CASES
    _CASES = cases
    boot.boot()


def check(run, tier, seed, engine="algebra"):
    try:
        res = tlc.run("Names", "Names.cfg", env={"EMIT": "1"}, keep=True, timeout=600)
    except tlc.TLCError as e:
        run.machinery("names: %s" % e)
        return
    try:
        if res.violated:
            run.machinery("names: TLC reports %s" % res.violated)
            return
        run.add_tlc("Names", res)
        cases = tlc.read_ndjson(os.path.join(res.outdir, "names.ndjson"))
    finally:
        tlc.cleanup(res)
    with mp.Pool(min(16, os.cpu_count() or 4), initializer=_init, initargs=(cases,)) as pool:
        results = pool.map(_one, range(len(cases)), chunksize=4)
    for r in results:
        m = cases[r["idx"]]
        run.evaluations += r["n"]
        run.replayed += r["n"]
        if m["custom"] or m["table"]:
            run.distinct("names:" + json.dumps([m["custom"], m["table"]]))
        for clause, msg, text in r["bad"][:2]:
            run.violation(dict(engine=engine, clause=clause), "[%s] %s" % (clause, msg), dict(model=m, ini=text))
    run.notes["name_resolution"] = dict(models=len(cases), uses=sum(len(m["uses"]) for m in cases), accepted_models=sum(1 for m in cases if m["accept"]))
