"""Forms engine: C06 (built-in forms: documented formula and argument order through four routes), with the leaf-level
derivative relations that also serve C07; C10 (splines) and C18 (tabulated input) are in engines/splines.py / tables.py.

(M) spec/Builtin.tla: binding machine of the four access routes (RoutesAgree, PotableArityChecked) and the exact
    denotations / special points of the rational forms, computed by TLC;
(R) every emitted case evaluated through the four routes of the real code: bitwise agreement between routes, exact value
    (and exact first / second derivative) for the rational forms, exact special points, exact algebraic and differential
    relations for the exponential-type forms."""
import io, json, math, os, subprocess, sys
from fractions import Fraction as F

from lib import boot, tlc
from lib.harness import Run

P = boot.boot()
from atsim.potentials import potentialfunctions as PFn, potentialforms as PFo     # noqa: E402
from atsim.potentials.config import Configuration                                 # noqa: E402
from atsim.potentials.config._common import ConfigurationException                # noqa: E402


def fr(q):
    return F(q[0], q[1])


def dec(q):
    f = fr(q) if isinstance(q, (list, tuple)) else F(q)
    if f.denominator == 1:
        return str(f.numerator)
    s = ("%.12f" % float(f)).rstrip("0")
    assert F(s) == f, (s, f)
    return s


def params_of(case):
    """(implementation form name, float parameter list, parameter texts)"""
    nm = case["form"]
    if nm == "exponential":
        p = [fr(case["A"]), fr(case["n"])]
    elif nm == "coulnum":
        nm, p = "coul", [fr(x) for x in case["p"]]
    elif nm == "buckA0":
        nm, p = "buck", [fr(x) for x in case["p"]]
    else:
        p = [fr(x) for x in case["p"]]
    return nm, [float(x) for x in p], [dec(x) for x in p]


class Routes(object):
    """evaluate (name, params, x) through the four routes; R3/R4 are batched into one potable file"""

    def __init__(self):
        self.items = []

    def add(self, nm, ptext, x):
        self.items.append((nm, ptext, x))
        return len(self.items) - 1

    def build(self):
        forms, pairs = [], []
        for i, (nm, ptext, x) in enumerate(self.items):
            pairs.append("X%d-Y%d : >=-100 as.%s %s" % (i, i, nm, " ".join(ptext)))
            forms.append("w%d(r) = as.%s(%s)" % (i, nm, ", ".join(["r"] + ptext)))
            pairs.append("X%d-Z%d : >=-100 w%d" % (i, i, i))
            # a decimal may be written without its leading zero ('.3', '-.25')
            short = [("-" + t[2:] if t.startswith("-0.") else t[1:] if t.startswith("0.") else t) for t in ptext]
            if short != ptext:
                pairs.append("X%d-S%d : >=-100 as.%s %s" % (i, i, nm, " ".join(short)))
        text = "[Tabulation]\ntarget : LAMMPS\nnr : 5\ncutoff : 4.0\n\n[Potential-Form]\n" + "\n".join(forms) + "\n\n[Pair]\n" + "\n".join(pairs) + "\n"
        self.text = text
        tab = Configuration().read(io.StringIO(text))
        self.r3 = {p.speciesA: p for p in tab.potentials if p.speciesB.startswith("Y")}
        self.r4 = {p.speciesA: p for p in tab.potentials if p.speciesB.startswith("Z")}
        self.r3s = {p.speciesA: p for p in tab.potentials if p.speciesB.startswith("S")}

    def values(self, i):
        nm, ptext, x = self.items[i]
        p = [float(t) for t in ptext]
        out = {}
        # parameters written without a decimal point reach the potable routes as Python ints: the same typing on R1 / R2
        pi = [int(t) if t.lstrip("-").isdigit() else float(t) for t in ptext]
        for route, fn in (("R1", lambda: getattr(PFn, nm)(x, *p)), ("R2", lambda: getattr(PFo, nm)(*p)(x)),
                          ("R3", lambda: self.r3["X%d" % i].energy(x)), ("R4", lambda: self.r4["X%d" % i].energy(x)),
                          ("R1int", lambda: getattr(PFn, nm)(x, *pi)), ("R2int", lambda: getattr(PFo, nm)(*pi)(x)),
                          ("R3short", lambda: self.r3s["X%d" % i].energy(x) if "X%d" % i in self.r3s else None)):
            try:
                out[route] = fn()
            except Exception as e:
                out[route] = "%s: %s" % (type(e).__name__, str(e)[:120])
        return out


def close(a, b, scale=None, tol=1e-12):
    s = max(abs(b), scale or 0.0, 1e-300)
    return abs(a - b) <= tol * s + 1e-300


def worker_main(path):
    """runs in a FRESH process: evaluation order is part of the experiment (process-wide state must not matter)"""
    data = json.load(open(path))
    bad, n = [], 0

    def fail(clause, msg, case):
        if len(bad) < 40:
            bad.append((clause, msg, case))
    exact = data["exact"]
    # polynomial cases first, by ascending order, then everything, then the polynomials again in descending order
    polys = sorted([c for c in exact if c["form"] == "polynomial"], key=lambda c: len(c["p"]))
    sequence = polys + [c for c in exact if c["form"] != "polynomial"] + polys[::-1]
    routes = Routes()
    idx = []
    for c in sequence:
        nm, p, ptext = params_of(c)
        idx.append(routes.add(nm, ptext, float(fr(c["x"]))))
    for c in data["special"]:
        nm, p, ptext = params_of(c)
        idx.append(routes.add(nm, ptext, float(fr(c["x"]))))
    try:
        routes.build()
    except Exception as e:
        fail("well-formed-definition-refused", "potable file with 'as.NAME params' entries refused: %s: %s" % (type(e).__name__, str(e)[:300]), None)
        json.dump(dict(bad=bad, n=n), sys.stdout)
        return
    allcases = sequence + data["special"]
    for c, i in zip(allcases, idx):
        nm, p, ptext = params_of(c)
        x = float(fr(c["x"]))
        vals = routes.values(i)
        n += 4
        r1 = vals["R1"]
        what = "as.%s %s at r=%s" % (nm, " ".join(ptext), dec(c["x"]))
        if isinstance(r1, str):
            fail("evaluation-raises", "%s: %s" % (what, r1), c)
            continue
        for route in ("R2", "R3", "R4", "R1int", "R2int", "R3short"):
            v = vals[route]
            if v is None:
                continue
            # integer-typed parameters may round differently in the last place (int ** int is exact), nothing more
            same = (not isinstance(v, str)) and (v == r1 or (route.endswith("int") and close(v, r1, tol=1e-13)))
            if not same:
                fail("routes-disagree", "%s: f(r, params) gives %r but route %s gives %r" % (what, r1, route, v), c)
                break
        if "e" in c:
            want = fr(c["e"]["v"])
            got = r1 * (4.0 * math.pi * 0.0055264) if c["form"] == "coulnum" else r1
            if not close(got, float(want), tol=1e-11):
                fail("closed-form", "%s = %r, the documented formula gives %s (= %r)" % (what, got, want, float(want)), c)
                continue
            fn = getattr(PFn, nm)
            for name, key in (("deriv", "d1"), ("deriv2", "d2")):
                if not hasattr(fn, name):
                    fail("offers", "as.%s has no .%s" % (nm, name), c)
                    continue
                try:
                    dv = getattr(fn, name)(x, *p)
                except Exception as e:
                    fail("derivative-raises", "%s: .%s raised %s: %s" % (what, name, type(e).__name__, e), c)
                    continue
                n += 1
                w = float(fr(c["e"][key]))
                if c["form"] == "coulnum":
                    dv = dv * (4.0 * math.pi * 0.0055264)
                if not close(dv, w, scale=abs(float(want)) + abs(w), tol=1e-9):
                    fail(name, "%s: .%s = %r, the derivative of the documented formula is %r" % (what, name, dv, w), c)
        elif "v" in c:
            want = float(fr(c["v"]))
            if not close(r1, want, scale=1.0, tol=1e-12):
                fail("special-point", "%s = %r, the documented formula gives exactly %r there" % (what, r1, want), c)
    # ---- exact relations between forms and between a form and its derivatives (floating point, 1e-10)
    for r in data["lattice_r"]:
        for (A, rho, C) in data["buck_params"]:
            n += 1
            bk, bm = PFn.buck(r, A, rho, C), PFn.bornmayer(r, A, rho)
            if not close(bk - bm, -C / r ** 6, scale=abs(bk) + abs(bm), tol=1e-12):
                fail("relation", "buck(r=%s, %s, %s, %s) - bornmayer(r, A, rho) = %r, the documented forms differ by -C/r^6 = %r" % (r, A, rho, C, bk - bm, -C / r ** 6), None)
            if not close(PFn.bornmayer.deriv(r, A, rho), -bm / rho, tol=1e-12) or not close(PFn.bornmayer.deriv2(r, A, rho), bm / rho ** 2, tol=1e-12):
                fail("deriv", "bornmayer(r=%s, %s, %s): V' = %r, V'' = %r; for A exp(-r/rho): V' = -V/rho = %r, V'' = V/rho^2 = %r" % (
                    r, A, rho, PFn.bornmayer.deriv(r, A, rho), PFn.bornmayer.deriv2(r, A, rho), -bm / rho, bm / rho ** 2), None)
            if not close(PFn.buck.deriv(r, A, rho, C), -bm / rho + 6 * C / r ** 7, scale=abs(bm / rho) + abs(6 * C / r ** 7), tol=1e-12) or \
               not close(PFn.buck.deriv2(r, A, rho, C), bm / rho ** 2 - 42 * C / r ** 8, scale=abs(bm / rho ** 2) + abs(42 * C / r ** 8), tol=1e-12):
                fail("deriv", "buck(r=%s, %s, %s, %s): derivatives are not those of A exp(-r/rho) - C/r^6" % (r, A, rho, C), None)
            for r2 in data["lattice_r"]:
                if not close(PFn.bornmayer(r + r2, 1.0, rho), PFn.bornmayer(r, 1.0, rho) * PFn.bornmayer(r2, 1.0, rho), tol=1e-12):
                    fail("relation", "bornmayer(%s + %s, 1, %s) is not bornmayer(%s)*bornmayer(%s): not an exponential in r/rho" % (r, r2, rho, r, r2), None)
        for (g, rs, D) in data["morse_params"]:
            n += 1
            b = math.exp(-g * (r - rs))
            m = PFn.morse(r, g, rs, D)
            if not close(m, D * (b * b - 2 * b), scale=abs(D) * (b * b + 2 * b), tol=1e-12):
                fail("relation", "morse(r=%s, gamma=%s, r*=%s, D=%s) = %r, D(b^2 - 2b) with b = exp(-gamma(r-r*)) gives %r" % (r, g, rs, D, m, D * (b * b - 2 * b)), None)
            if not close(PFn.morse.deriv(r, g, rs, D), D * (-2 * g * b * b + 2 * g * b), scale=abs(D) * g * (2 * b * b + 2 * b), tol=1e-12) or \
               not close(PFn.morse.deriv2(r, g, rs, D), D * g * g * (4 * b * b - 2 * b), scale=abs(D) * g * g * (4 * b * b + 2 * b), tol=1e-12):
                fail("deriv", "morse(r=%s, %s, %s, %s): derivatives are not those of D(b^2 - 2b)" % (r, g, rs, D), None)
        for G in (3.0, -2.5):
            v = PFn.sqrt(r, G)
            if not close(PFn.sqrt.deriv(r, G), v / (2 * r), tol=1e-12) or not close(PFn.sqrt.deriv2(r, G), -v / (4 * r * r), tol=1e-12):
                fail("deriv", "sqrt(r=%s, G=%s): V' = %r, V'' = %r; for G sqrt(r): V' = V/2r = %r, V'' = -V/4r^2 = %r" % (
                    r, G, PFn.sqrt.deriv(r, G), PFn.sqrt.deriv2(r, G), v / (2 * r), -v / (4 * r * r)), None)
        for B in data["expspline_params"]:
            n += 1
            C = B[6]
            q1 = B[1] + 2 * B[2] * r + 3 * B[3] * r ** 2 + 4 * B[4] * r ** 3 + 5 * B[5] * r ** 4
            q2 = 2 * B[2] + 6 * B[3] * r + 12 * B[4] * r ** 2 + 20 * B[5] * r ** 3
            v = PFn.exp_spline(r, *B)
            q = B[0] + B[1] * r + B[2] * r ** 2 + B[3] * r ** 3 + B[4] * r ** 4 + B[5] * r ** 5
            if not close(v - C, math.exp(q), tol=1e-12):
                fail("closed-form", "exp_spline(r=%s, %s) - C = %r, exp(B0 + ... + B5 r^5) = %r" % (r, B, v - C, math.exp(q)), None)
            if not close(PFn.exp_spline.deriv(r, *B), q1 * (v - C), scale=abs(q1 * (v - C)) + 1e-12, tol=1e-11) or \
               not close(PFn.exp_spline.deriv2(r, *B), (q2 + q1 * q1) * (v - C), scale=abs((abs(q2) + q1 * q1) * (v - C)) + 1e-12, tol=1e-11):
                fail("deriv", "exp_spline(r=%s, %s): V' = %r, V'' = %r; for exp(q(r)) + C: V' = q'(V - C) = %r, V'' = (q'' + q'^2)(V - C) = %r" % (
                    r, B, PFn.exp_spline.deriv(r, *B), PFn.exp_spline.deriv2(r, *B), q1 * (v - C), (q2 + q1 * q1) * (v - C)), None)
    # ---- the forms without an exact oracle: route agreement and internal consistency of the offered derivatives
    rt = Routes()
    items = []
    for nm, plist in (("zbl", [[1.0, 1.0], [92.0, 8.0], [8.0, 92.0], [14.0, 6.0]]), ("tang_toennies", [[41.0, 1.23, 1.5, 14.1, 183.5], [0.5, 2.0, 3.0, 4.0, 5.0]]),
                      ("bornmayer", [[1000.0, 0.3], [0.3, 1000.0]]), ("morse", [[1.5, 2.0, 0.5], [2.0, 1.5, 0.5], [0.5, 2.0, 1.5]])):
        for p in plist:
            for r in (0.5, 1.0, 2.5) + ((8.0, 15.0, 30.0) if nm == "zbl" else ()):      # the statement: out to 30 Angstrom
                items.append((nm, p, r, rt.add(nm, [repr(x) for x in p], r)))
    rt.build()
    for nm, p, r, i in items:
        vals = rt.values(i)
        vals = {k: v for k, v in vals.items() if v is not None}
        n += 4
        if nm == "zbl" and not isinstance(vals["R1"], str):
            # the manual's universal screening function; its constants and the implementation's agree to three digits, so
            # this pins the form (and the like-species case) to 1 %, not the last digits
            z1, z2 = p
            a = 0.46850 / (z1 ** 0.23 + z2 ** 0.23)
            xx = r / a
            phi = 0.18175 * math.exp(-3.19980 * xx) + 0.50986 * math.exp(-0.94229 * xx) + 0.28022 * math.exp(-0.40290 * xx) + 0.02817 * math.exp(-0.20162 * xx)
            doc = 14.39942 * z1 * z2 / r * phi
            if abs(vals["R1"] - doc) > 0.01 * abs(doc):
                fail("closed-form", "as.zbl %s %s at r=%s = %r, the manual's screened Coulomb form gives %r (1 %% is allowed for the rounded constants)" % (z1, z2, r, vals["R1"], doc), None)
        if any(isinstance(v, str) for v in vals.values()) or len(set(vals.values())) != 1:
            fail("routes-disagree", "as.%s %s at r=%s: %s" % (nm, p, r, vals), None)
        fn = getattr(PFn, nm)
        h = 1e-5
        try:
            num1 = (fn(r + h, *p) - fn(r - h, *p)) / (2 * h)
            num2 = (fn.deriv(r + h, *p) - fn.deriv(r - h, *p)) / (2 * h)
            d1v, d2v = fn.deriv(r, *p), fn.deriv2(r, *p)
        except Exception as e:
            fail("derivative-raises", "as.%s %s at r=%s: %s: %s" % (nm, p, r, type(e).__name__, e), None)
            continue
        if not (math.isfinite(d1v) and math.isfinite(d2v)):
            fail("deriv", "as.%s %s at r=%s: .deriv = %r, .deriv2 = %r (the energy is %r)" % (nm, p, r, d1v, d2v, fn(r, *p)), None)
            continue
        if not close(fn.deriv(r, *p), num1, scale=abs(fn(r, *p)) / r, tol=1e-6) or not close(fn.deriv2(r, *p), num2, scale=abs(fn.deriv(r, *p)) / r, tol=1e-6):
            fail("deriv", "as.%s %s at r=%s: .deriv = %r (slope of the energy %r), .deriv2 = %r (slope of .deriv %r)" % (nm, p, r, fn.deriv(r, *p), num1, fn.deriv2(r, *p), num2), None)
    n += buck4_cases(data.get("buck4", []), fail)
    n += tang_toennies_cases(data.get("tt", []), fail)
    json.dump(dict(bad=bad, n=n), sys.stdout)


def solve_exact(rows, rhs):
    """Gaussian elimination over the rationals"""
    k = len(rows)
    m = [list(r) + [b] for r, b in zip(rows, rhs)]
    for c in range(k):
        piv = next(i for i in range(c, k) if m[i][c] != 0)
        m[c], m[piv] = m[piv], m[c]
        m[c] = [v / m[c][c] for v in m[c]]
        for i in range(k):
            if i != c and m[i][c] != 0:
                f = m[i][c]
                m[i] = [a - f * b for a, b in zip(m[i], m[c])]
    return [m[i][k] for i in range(k)]


def tang_toennies_cases(cases, fail):
    """Builtin.tla TTCases: the damping polynomial identity (exact rational right-hand side), the repulsive term alone, and
    linearity in (A, C_6, C_8, C_10)"""
    from fractions import Fraction as F
    from atsim.potentials import potentialfunctions as PFn
    BOHR, EH = 0.5292, 27.211
    n = 0
    for c in cases:
        k, x, R = c["n"], F(*c["x"]), F(*c["R"])
        b = float(F(*c["b"]))
        P = sum(F(*co) * x ** i for i, co in enumerate(c["poly"]))
        r = BOHR * float(R)
        for coef in (1.5, 129.6, -40.0):
            Cs = [coef if j == k else 0.0 for j in (3, 4, 5)]
            n += 1
            v = PFn.tang_toennies(r, 0.0, b, *Cs)
            lhs = (1.0 + v * float(R) ** (2 * k) / (EH * coef)) * math.exp(float(x))
            if abs(lhs - float(P)) > 1e-9 * float(P):
                fail("closed-form", "as.tang_toennies 0 %s with C_%d = %s alone at r = %s Bohr: (1 + V R^%d / (Eh C)) exp(bR) = %r, the damping polynomial sum_{k<=%d} (bR)^k/k! is %r" % (
                    b, 2 * k, coef, float(R), 2 * k, lhs, 2 * k, float(P)), None)
        # the repulsive term alone, and linearity in the coefficients
        A = 832.4
        n += 2
        va = PFn.tang_toennies(r, A, b, 0.0, 0.0, 0.0)
        if abs(va - EH * A * math.exp(-b * float(R))) > 1e-12 * abs(va):
            fail("closed-form", "as.tang_toennies %s %s 0 0 0 at r = %s Bohr = %r, Eh A exp(-bR) = %r" % (A, b, float(R), va, EH * A * math.exp(-b * float(R))), None)
        parts = [va, PFn.tang_toennies(r, 0.0, b, 129.6, 0.0, 0.0), PFn.tang_toennies(r, 0.0, b, 0.0, 4187.0, 0.0), PFn.tang_toennies(r, 0.0, b, 0.0, 0.0, 155500.0)]
        whole = PFn.tang_toennies(r, A, b, 129.6, 4187.0, 155500.0)
        if abs(whole - sum(parts)) > 1e-12 * sum(abs(p) for p in parts):
            fail("closed-form", "as.tang_toennies %s %s 129.6 4187 155500 at r = %s Bohr = %r, the sum of its four terms taken alone is %r" % (A, b, float(R), whole, sum(parts)), None)
    return n


def buck4_cases(cases, fail):
    """four-range Buckingham: the rows emitted by TLC solved exactly with the documented end pieces; the factory (float and
    int typed) and 'as.buck4 ...' in a potable section (both spellings of the numbers) against the exact piecewise function"""
    n = 0
    if not cases:
        return 0
    texts = []
    for i, c in enumerate(cases):
        p = [fr(x) for x in c["p"]]
        texts.append(" ".join(dec(x) for x in p))
    pairs = []
    for i, t in enumerate(texts):
        pairs.append("X%d-Y%d : >=-100 as.buck4 %s" % (i, i, t))
        pairs.append("X%d-Z%d : >=-100 as.buck4 %s" % (i, i, " ".join(repr(float(x)) for x in t.split())))
    text = "[Tabulation]\ntarget : LAMMPS\nnr : 5\ncutoff : 4.0\n\n[Pair]\n" + "\n".join(pairs) + "\n"
    try:
        tab = Configuration().read(io.StringIO(text))
        r3 = {(p.speciesA, p.speciesB[0]): p for p in tab.potentials}
    except Exception as e:
        fail("well-formed-definition-refused", "potable file with 'as.buck4 params' entries refused: %s: %s" % (type(e).__name__, str(e)[:300]), None)
        return 1
    for i, c in enumerate(cases):
        A, rho, C, rd, rm, ra = [fr(x) for x in c["p"]]
        bm = F(float(A) * math.exp(-float(rd) / float(rho)))
        named = {"zero": F(0), "start.v": bm, "start.d1": -bm / rho, "start.d2": bm / rho ** 2,
                 "end.v": -C / ra ** 6, "end.d1": 6 * C / ra ** 7, "end.d2": -42 * C / ra ** 8}
        coef = solve_exact([[fr(v) for v in row["row"]] for row in c["rows"]], [named[row["rhs"]] for row in c["rows"]])
        a, b = coef[:6], coef[6:]
        pf = [float(x) for x in (A, rho, C, rd, rm, ra)]
        pint = [int(t) if t.lstrip("-").isdigit() else float(t) for t in texts[i].split()]
        impls = {}
        for route, mk in (("R2", lambda: PFo.buck4(*pf)), ("R2int", lambda: PFo.buck4(*pint)), ("R3", lambda: r3[("X%d" % i, "Y")].energy), ("R3float", lambda: r3[("X%d" % i, "Z")].energy)):
            try:
                impls[route] = mk()
            except Exception as e:
                fail("evaluation-raises", "as.buck4 %s through %s: %s: %s" % (texts[i], route, type(e).__name__, str(e)[:160]), dict(form="buck4", p=c["p"], x=[0, 1]))
        for q in c["xs"]:
            x = fr(q["x"])
            if q["piece"] == "bornmayer":
                want, scale = float(A) * math.exp(-float(x) / float(rho)), 0.0
            elif q["piece"] == "dispersion":
                want, scale = float(-C / x ** 6), 0.0
            else:
                cs = a if q["piece"] == "quintic" else b
                terms = [cs[k] * x ** k for k in range(len(cs))]
                # size of the problem the polynomial solves: its own terms and the end-point data it was fitted to
                want, scale = float(sum(terms)), float(sum(abs(t) for t in terms)) + float(max(abs(v) for v in named.values()))
            # the derivatives the factory's object offers (C07): those of the piece that gives the value
            fx = float(x)
            if q["piece"] == "bornmayer":
                e = float(A) * math.exp(-fx / float(rho))
                wd = (-e / float(rho), e / float(rho) ** 2, abs(e) / float(rho) ** 2)
            elif q["piece"] == "dispersion":
                wd = (float(6 * C / x ** 7), float(-42 * C / x ** 8), abs(float(42 * C / x ** 8)))
            else:
                cs = a if q["piece"] == "quintic" else b
                t1 = [k * cs[k] * x ** (k - 1) for k in range(1, len(cs))]
                t2 = [k * (k - 1) * cs[k] * x ** (k - 2) for k in range(2, len(cs))]
                wd = (float(sum(t1)), float(sum(t2)), float(sum(abs(t) for t in t2)) + float(sum(abs(t) for t in t1)) + float(max(abs(v) for v in named.values())))
            on_knot = x in (rd, rm, ra)
            for route in ("R2", "R2int"):
                obj = impls.get(route)
                if obj is None or on_knot:
                    continue
                for name, w in (("deriv", wd[0]), ("deriv2", wd[1])):
                    if not hasattr(obj, name):
                        fail("offers", "potentialforms.buck4(%s) has no .%s" % (texts[i], name), dict(form="buck4", p=c["p"], x=q["x"]))
                        continue
                    try:
                        dv = getattr(obj, name)(fx)
                    except Exception as e:
                        fail("derivative-raises", "buck4 %s at r=%s: .%s raised %s: %s" % (texts[i], dec(q["x"]), name, type(e).__name__, e), dict(form="buck4", p=c["p"], x=q["x"]))
                        continue
                    n += 1
                    if not close(dv, w, scale=wd[2], tol=1e-8):
                        fail(name, "buck4 %s at r=%s (%s piece): .%s = %r, the derivative of the documented four-range form is %r" % (texts[i], dec(q["x"]), q["piece"], name, dv, w),
                             dict(form="buck4", p=c["p"], x=q["x"]))
            for route, f in impls.items():
                n += 1
                try:
                    got = f(float(x))
                except Exception as e:
                    fail("evaluation-raises", "as.buck4 %s at r=%s through %s: %s: %s" % (texts[i], dec(q["x"]), route, type(e).__name__, str(e)[:160]), dict(form="buck4", p=c["p"], x=q["x"]))
                    continue
                # the implementation solves the ten equations in double precision: 1e-9 of the size of the polynomial's terms
                if not close(got, want, scale=scale, tol=1e-9 if scale else 1e-12):
                    fail("closed-form", "as.buck4 %s at r=%s (%s piece) through %s = %r, the documented four-range form gives %r" % (texts[i], dec(q["x"]), q["piece"], route, got, want),
                         dict(form="buck4", p=c["p"], x=q["x"]))
    return n


DERIV_CLAUSES = ("deriv", "deriv2", "derivative-raises", "offers")


def main(prop, tier, seed):
    run = Run("C06", tier, seed)
    run_forms(run, "values")
    return run.finish()


def run_forms(run, want):
    """want = 'values' (C06: signatures, routes, closed forms, special points, relations) or 'derivs' (C07: the offered
    derivatives of the built-in forms)"""
    run.assumptions += ["zbl and tang_toennies: only agreement of the four routes and consistency of the offered derivatives with the energy (finite differences, 1e-6) are decided (DESIGN 2.3)",
                       "bornmayer / buck / morse / exp_spline / sqrt: exact special points and exact algebraic / differential relations, not an independent evaluation of exp()",
                       "documented signatures are transcribed from docs/reference/potential_forms.rst into spec/Builtin.tla"]
    try:
        cfg = "Builtin_thorough.cfg" if run.tier == "thorough" else "Builtin.cfg"
        res = tlc.run("Builtin", cfg, env={"EMIT": "1"}, coverage=True, keep=True, timeout=900)
        try:
            if res.violated:
                run.machinery("TLC: %s violated\n%s" % (res.violated, res.stdout[-1500:]))
            else:
                run.add_tlc(cfg[:-4], res)
                exact = tlc.read_ndjson(os.path.join(res.outdir, "exact.ndjson"))
                special = tlc.read_ndjson(os.path.join(res.outdir, "special.ndjson"))
                sig = tlc.read_ndjson(os.path.join(res.outdir, "sig.ndjson"))[0]
                buck4 = tlc.read_ndjson(os.path.join(res.outdir, "buck4.ndjson"))
                tt = tlc.read_ndjson(os.path.join(res.outdir, "tt.ndjson"))
                factory_only = set(tlc.read_ndjson(os.path.join(res.outdir, "factoryonly.ndjson")))
        finally:
            tlc.cleanup(res)
        if not run.machinery_errors:
            # documented signatures against the callables (argument names and order)
            import inspect
            for nm, params in sorted(sig.items()):
                fn = getattr(PFn, nm, None)
                run.evaluations += 1
                if nm in factory_only:
                    fac = getattr(PFo, nm, None)
                    got = list(inspect.signature(fac).parameters) if fac else None
                    if got != list(params):
                        run.violation(dict(engine="forms", clause="signature"), "the factory %s takes %s, the manual documents (%s)" % (nm, got, ", ".join(params)), dict(form=nm))
                    continue
                if fn is None:
                    run.violation(dict(engine="forms", clause="signature"), "documented form as.%s does not exist" % nm, dict(form=nm))
                    continue
                got = list(inspect.signature(fn.__call__).parameters)
                if got != ["r"] + list(params):
                    run.violation(dict(engine="forms", clause="signature"), "as.%s takes %s, the manual documents (r, %s)" % (nm, got, ", ".join(params)), dict(form=nm))
            data = dict(exact=exact, special=special, buck4=buck4, tt=tt, lattice_r=[0.5, 1.0, 1.5, 2.0, 3.0],
                        buck_params=[[1000.0, 0.3, 32.0], [32.0, 1000.0, 0.3], [0.3, 32.0, 1000.0], [-5.0, 0.5, 0.0]],
                        morse_params=[[1.5, 2.0, 0.5], [2.0, 0.5, 1.5], [0.5, 1.5, 2.0]],
                        expspline_params=[[0.1, -0.2, 0.05, 0.01, -0.002, 0.0003, 0.0], [0.1, -0.2, 0.05, 0.01, -0.002, 0.0003, 2.5],
                                          [1.0, 0.5, -0.25, 0.0, 0.0, 0.0, -3.0], [0.0003, -0.002, 0.01, 0.05, -0.2, 0.1, 1.0]])
            d = tlc.scratch("forms-")
            try:
                path = os.path.join(d, "cases.json")
                json.dump(data, open(path, "w"))
                env = dict(os.environ)
                p = subprocess.run([sys.executable, "-W", "ignore", "-m", "engines.forms", path], cwd=boot.VERIF, env=env, stdout=subprocess.PIPE, stderr=subprocess.PIPE,
                                   universal_newlines=True, timeout=1200)
                if p.returncode != 0:
                    run.machinery("forms worker failed: %s" % p.stderr[-1500:])
                else:
                    out = json.loads(p.stdout)
                    run.evaluations += out["n"]
                    run.replayed += len(exact) + len(special) + len(buck4)
                    for c in exact + special:
                        run.distinct(json.dumps(c, sort_keys=True))
                    for c in (exact[:: max(1, len(exact) // 3)][:3] + special[:1]):
                        run.sample(c)
                    for clause, msg, case in out["bad"]:
                        if (clause in DERIV_CLAUSES) != (want == "derivs"):
                            continue
                        form = case["form"] if case else None
                        run.violation(dict(engine="forms", clause=clause, form=form, at_zero=bool(case and fr(case["x"]) == 0)), "[%s] %s" % (clause, msg), dict(case=case))
            finally:
                import shutil
                shutil.rmtree(d, ignore_errors=True)
            run.rule = (run.rule + " | " if run.rule else "") + "built-in forms: exact denotations (TLC) of the rational forms over parameter vectors with pairwise distinct entries x rational points, exact special points, relations on a parameter lattice; each through 4 routes; non-trivial = every case; distinct by (form, parameters, r)"
    except tlc.TLCError as e:
        run.machinery(str(e))


if __name__ == "__main__":
    worker_main(sys.argv[1])
