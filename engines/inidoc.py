"""Document engine: C14 (edits = hand edits, listing) and C20 (duplicates) on spec/IniDoc.tla;
C15 on spec/Vars.tla; C13 on spec/Views.tla.

(R) every case TLC emits (base file x option sequence, with the hand-edited document computed by the specification) is
rendered to a potable command line / ConfigParser(overrides=, additional=) call and to the hand-edited file; the
outputs (bytes, or outcome class) and the --list-items / --item-value answers are compared."""
import io, json, os, random, shutil, sys, tempfile

from lib import boot, tlc
from lib.harness import Run

P = boot.boot()
from atsim.potentials.config import Configuration, ConfigParser, ConfigParserOverrideTuple      # noqa: E402
from atsim.potentials.config._common import ConfigurationException                                # noqa: E402
from engines.layout import run_cli                                                                # noqa: E402

# ---- concretisation of the abstract documents of IniDoc.tla: two THEMES render the same abstract cases.
# theme "pair": a pair model, every section of the file is abstract;  theme "eam": an EAM model whose abstract sections
# share their key texts (the species), behind a fixed preamble.  Value 4 is the empty string.
class Theme(object):
    def __init__(self, name, sections, keys, vals, preamble="", preamble_items=()):
        self.name, self.sections, self.keys, self.vals = name, sections, keys, vals
        self.preamble, self.preamble_items = preamble, list(preamble_items)

    def key_text(self, s, k, ws):
        return self.keys[s][k][ws]

    def val_text(self, s, k, v):
        return self.vals[(s, k)][v - 1]

    def render_file(self, f):
        """a FILE of the spec (raw items, with their spelling) as .ini text"""
        out = [self.preamble] if self.preamble else []
        for sec in f:
            out.append("[%s]" % self.sections[sec["s"]])
            for it in sec["items"]:
                out.append("%s : %s" % (self.key_text(sec["s"], it["k"], it["ws"]), self.val_text(sec["s"], it["k"], it["v"])))
            out.append("")
        return "\n".join(out) + "\n"

    def render_doc(self, d, keep_empty=()):
        """a DOCUMENT of the spec (normalised keys) as the hand-edited file"""
        out = [self.preamble] if self.preamble else []
        for sec in d:
            out.append("[%s]" % self.sections[sec["s"]])
            for it in sec["items"]:
                out.append("%s : %s" % (self.key_text(sec["s"], it["k"], 0), self.val_text(sec["s"], it["k"], it["v"])))
            out.append("")
        for s in keep_empty:
            out.append("[%s]\n" % self.sections[s])
        return "\n".join(out) + "\n"


_SP = {1: ("Al", "A l"), 2: ("Cu", "C u"), 3: ("Fe", "F e")}
THEMES = [
    Theme("pair", {1: "Pair", 2: "Tabulation", 3: "Potential-Form"},
          {1: {1: ("A-B", "A - B"), 2: ("A-A", "A -A"), 3: ("B-B", "B- B")},
           2: {1: ("nr", "n r"), 2: ("cutoff", "cut off"), 3: ("target", "tar get")},
           3: {1: ("f(r,a)", "f(r, a)"), 2: ("g(r)", "g( r)"), 3: ("h(r,a,b)", "h(r,a, b)")}},
          {(1, 1): ["as.polynomial 1 2", "as.polynomial 3 -1 2", "f 2.0", ""],
           (1, 2): ["as.polynomial 2 1", "as.polynomial 5 1 -1", "g", ""],
           (1, 3): ["as.polynomial 4 3", "as.polynomial 6 0 1", "h 1.0 2.0", ""],
           (2, 1): ["6", "5", "9", ""],
           (2, 2): ["2.0", "4.0", "3.5", ""],
           (2, 3): ["LAMMPS", "GULP", "DL_POLY", ""],
           (3, 1): ["a*r", "a+r", "a-r", ""],
           (3, 2): ["r", "2*r", "r^2", ""],
           (3, 3): ["a+b*r", "a*b", "a-b", ""]}),
    Theme("eam", {1: "EAM-Embed", 2: "EAM-Density", 3: "Notes"},
          {1: _SP, 2: _SP, 3: _SP},
          dict([((s, k), ["as.polynomial %d 1" % (10 * s + k), "as.polynomial %d 2 1" % (10 * s + k), "as.polynomial %d 0 3" % (10 * s + k), ""])
                for s in (1, 2) for k in (1, 2, 3)] + [((3, k), ["note", "another note", "third", ""]) for k in (1, 2, 3)]),
          preamble="[Tabulation]\ntarget : setfl\nnr : 5\ncutoff : 2.0\nnrho : 4\ncutoff_rho : 3.0\n\n[Pair]\nAl-Al : as.polynomial 1 1\n",
          preamble_items=["Tabulation:target=setfl", "Tabulation:nr=5", "Tabulation:cutoff=2.0", "Tabulation:nrho=4", "Tabulation:cutoff_rho=3.0",
                          "Pair:Al-Al=as.polynomial 1 1"]),
]
TH = THEMES[0]
SECTION = None


def key_text(s, k, ws):
    return TH.key_text(s, k, ws)


def val_text(s, k, v):
    return TH.val_text(s, k, v)


def render_file(f):
    return TH.render_file(f)


def render_doc(d, keep_empty=()):
    return TH.render_doc(d, keep_empty)


class _Sec(object):
    def __getitem__(self, s):
        return TH.sections[s]


SECTION = _Sec()


def cli_args(ops):
    args = []
    for o in ops:
        sk = "%s:%s" % (SECTION[o["s"]], key_text(o["s"], o["k"], o["ws"]))
        if o["kind"] == "ovr":
            args += ["-e", "%s=%s" % (sk, val_text(o["s"], o["k"], o["v"]))]
        elif o["kind"] == "rem":
            args += ["-r", sk]
        else:
            args += ["-a", "%s=%s" % (sk, val_text(o["s"], o["k"], o["v"]))]
    return args


def tabulate_text(text):
    """outcome of tabulating a file through the Python API: ('ok', bytes) | ('config', msg) | ('internal', msg)"""
    try:
        tab = Configuration().read(io.StringIO(text))
        out = io.StringIO()
        tab.write(out)
        return ("ok", out.getvalue())
    except ConfigurationException as e:
        return ("config", str(e)[:160])
    except Exception as e:
        return ("internal", "%s: %s" % (type(e).__name__, str(e)[:160]))


def tabulate_api(text, ops):
    ov = [ConfigParserOverrideTuple(SECTION[o["s"]], key_text(o["s"], o["k"], o["ws"]), val_text(o["s"], o["k"], o["v"]))
          for o in ops if o["kind"] == "ovr"]
    ov += [ConfigParserOverrideTuple(SECTION[o["s"]], key_text(o["s"], o["k"], o["ws"]), None) for o in ops if o["kind"] == "rem"]
    ad = [ConfigParserOverrideTuple(SECTION[o["s"]], key_text(o["s"], o["k"], o["ws"]), val_text(o["s"], o["k"], o["v"]))
          for o in ops if o["kind"] == "add"]
    try:
        cp = ConfigParser(io.StringIO(text), overrides=ov, additional=ad)
        tab = Configuration().read_from_parser(cp)
        out = io.StringIO()
        tab.write(out)
        return ("ok", out.getvalue())
    except ConfigurationException as e:
        return ("config", str(e)[:160])
    except Exception as e:
        return ("internal", "%s: %s" % (type(e).__name__, str(e)[:160]))


def tabulate_cli(text, args, workdir):
    inp, outp = os.path.join(workdir, "in.ini"), os.path.join(workdir, "out.dat")
    with open(inp, "w") as f:
        f.write(text)
    if os.path.exists(outp):
        os.remove(outp)
    try:
        status, so, se = run_cli([inp, outp] + args)
    except Exception as e:
        return ("internal", "%s: %s" % (type(e).__name__, str(e)[:160]))
    if status == 0:
        return ("ok", open(outp).read())
    if status == 2 and "configuration error" in se:
        return ("config", se.strip().splitlines()[-1][:160])
    return ("internal", "exit status %s: %s" % (status, se.strip().splitlines()[-1][:160] if se.strip() else ""))


def query_cli(text, args, workdir, query):
    inp = os.path.join(workdir, "in.ini")
    with open(inp, "w") as f:
        f.write(text)
    try:
        status, so, se = run_cli([inp] + args + query)
    except Exception as e:
        return ("internal", "%s: %s" % (type(e).__name__, str(e)[:160]))
    if status == 0:
        return ("ok", so)
    if status == 2 and "configuration error" in se:
        return ("config", se.strip().splitlines()[-1][:160])
    return ("internal", "exit status %s: %s" % (status, se.strip().splitlines()[-1][:160] if se.strip() else ""))


_CASES = []


def same(a, b):
    """same outcome: both ok with equal bytes, or both configuration errors"""
    if a[0] == "ok" and b[0] == "ok":
        return a[1] == b[1]
    return a[0] == b[0] == "config"


def _edit_one(job):
    global TH
    idx, theme = job
    TH = THEMES[theme]
    case = _CASES[idx]
    f, ops, hand = case["file"], case["ops"], case["hand"]
    out = dict(idx=idx, bad=[], n=0, theme=theme)
    d = tempfile.mkdtemp(prefix="verif-ini-")
    try:
        base = render_file(f)
        ws_used = any(o["ws"] == 1 for o in ops)
        empt = [s["s"] for s in f if not any(h["s"] == s["s"] for h in hand["d"])] if not hand["rej"] else []
        # what the user gets by editing the file by hand (an emptied section: with or without its header)
        if hand["rej"]:
            wants = [("config", hand["e"])]
        else:
            wants = [tabulate_text(render_doc(hand["d"]))]
            if empt:
                wants.append(tabulate_text(render_doc(hand["d"], keep_empty=empt)))
        for route in ("cli", "api"):
            got = tabulate_cli(base, cli_args(ops), d) if route == "cli" else tabulate_api(base, ops)
            out["n"] += 1
            if got[0] == "internal":
                out["bad"].append(("internal-exception", route, "edits %s -> %s" % (cli_args(ops), got[1]), ws_used))
            elif not any(same(got, w) for w in wants):
                if hand["rej"]:
                    msg = "edits %s must be rejected (%s) but gave %s" % (cli_args(ops), hand["e"], got[0])
                    clause = "invalid-edit-accepted"
                elif got[0] == "config" and wants[0][0] == "ok":
                    msg = "edits %s are valid but rejected: %s" % (cli_args(ops), got[1])
                    clause = "valid-edit-rejected"
                else:
                    msg = "edits %s: output differs from the hand-edited file (%s vs %s)" % (cli_args(ops), got[0], wants[0][0])
                    clause = "differs-from-hand-edit"
                out["bad"].append((clause, route, msg, ws_used))
        # --list-items / --item-value on the edited document
        if not hand["rej"]:
            exp = sorted(["%s:%s=%s" % (SECTION[s["s"]], key_text(s["s"], it["k"], 0), val_text(s["s"], it["k"], it["v"])) for s in hand["d"] for it in s["items"]] + TH.preamble_items)
            got = query_cli(base, cli_args(ops), d, ["--list-items"])
            out["n"] += 1
            if got[0] != "ok":
                out["bad"].append(("list-items", "cli", "--list-items with edits %s: %s %s" % (cli_args(ops), got[0], got[1]), ws_used))
            elif sorted(l for l in got[1].splitlines() if l.strip()) != exp:
                out["bad"].append(("list-items", "cli", "--list-items with edits %s reports %s, the edited file holds %s" % (
                    cli_args(ops), sorted(got[1].splitlines()), exp), ws_used))
            for s in hand["d"]:
                for it in s["items"][:1]:
                    q = "%s:%s" % (SECTION[s["s"]], key_text(s["s"], it["k"], 0))
                    got = query_cli(base, cli_args(ops), d, ["--item-value", q])
                    out["n"] += 1
                    if got[0] != "ok" or got[1].strip() != val_text(s["s"], it["k"], it["v"]):
                        out["bad"].append(("item-value", "cli", "--item-value %s with edits %s gives %r, expected %r" % (
                            q, cli_args(ops), got[1][:80], val_text(s["s"], it["k"], it["v"])), ws_used))
    except Exception:
        import traceback
        out["machinery"] = traceback.format_exc()[-1500:]
    finally:
        shutil.rmtree(d, ignore_errors=True)
    return out


def main_c14(tier, seed):
    global _CASES
    import multiprocessing as mp
    run = Run("C14", tier, seed)
    run.assumptions = ["options of different kinds are not ordered by the command line: hand edits apply overrides, then removals, then additions",
                       "an emptied section may keep or lose its header in the hand-edited file: either outcome is accepted",
                       "two identical --remove-item options count as one"]
    try:
        cfg = "IniDoc_quick" if tier == "quick" else "IniDoc_thorough"
        res = tlc.run("IniDoc", cfg + ".cfg", env={"EMIT": "1"}, coverage=True, keep=True, timeout=2400)
        try:
            if res.violated:
                run.machinery("TLC: %s violated on %s\n%s" % (res.violated, cfg, res.stdout[-1500:]))
            else:
                run.add_tlc(cfg, res)
                cases = [c for c in tlc.read_ndjson(os.path.join(res.outdir, "cases.ndjson")) if not c["readRejects"]]
        finally:
            tlc.cleanup(res)
        for c2, inv in (("IniDoc_code_edits", "EditsAreHandEdits"),):
            r2 = tlc.run("IniDoc", c2 + ".cfg", timeout=600)
            run.notes["unrepaired_model_violates"] = r2.violated
            if r2.violated != inv:
                run.machinery("anti-vacuity: raw-key lookup model should violate %s, TLC says %r" % (inv, r2.violated))
        if not run.machinery_errors:
            rnd = random.Random(seed)
            jobs = list(range(len(cases)))
            cap = 3000 if tier == "quick" else 40000
            if len(jobs) > cap:
                # all sequences of <= 1 option, a seeded sample of the longer ones
                short = [i for i in jobs if len(cases[i]["ops"]) <= 1]
                longer = [i for i in jobs if len(cases[i]["ops"]) > 1]
                jobs = short + rnd.sample(longer, cap - len(short))
                run.exhaustive = False
                run.notes["replay_sampled"] = "%d of %d emitted cases replayed (all with <= 1 option, seeded sample of the rest)" % (len(jobs), len(cases))
            _CASES = cases
            with mp.Pool(min(16, os.cpu_count() or 1)) as pool:
                results = pool.map(_edit_one, [(i, i % len(THEMES)) for i in jobs], chunksize=8)
            global TH
            for r in results:
                case = cases[r["idx"]]
                TH = THEMES[r.get("theme", 0)]
                if r.get("machinery"):
                    run.machinery("case %d: %s" % (r["idx"], r["machinery"]))
                    continue
                run.evaluations += r["n"]
                run.replayed += 1
                if len(case["ops"]) >= 1:
                    run.distinct(json.dumps([case["file"], case["ops"], r["theme"]]))
                if len(run.samples) < 4 and len(case["ops"]) == 2 and r["idx"] % 211 == 1:
                    run.sample(dict(base=render_file(case["file"]), options=cli_args(case["ops"]), hand_edited=None if case["hand"]["rej"] else render_doc(case["hand"]["d"]),
                                    hand_outcome=case["hand"]["e"] if case["hand"]["rej"] else "ok"))
                for clause, route, msg, ws_used in r["bad"][:1]:
                    run.violation(dict(engine="inidoc", clause=clause, route=route, whitespace_key=ws_used, theme=TH.name), "[%s] %s/%s: %s" % (clause, TH.name, route, msg),
                                  dict(case=case, base=render_file(case["file"]), args=cli_args(case["ops"])))
            run.rule = "cases = base file x option sequence (TLC) x {CLI, ConfigParser API} + listing queries; non-trivial = at least one option; distinct by (file, options)"
    except tlc.TLCError as e:
        run.machinery(str(e))
    return run.finish()


def main(prop, tier, seed):
    if prop == "C14":
        return main_c14(tier, seed)
    raise SystemExit(2)
