"""Document engine: C14 (edits = hand edits, listing) and C20 (duplicates) on spec/IniDoc.tla;
C15 on spec/Vars.tla; C13 on spec/Views.tla.

(R) every case TLC emits (base file x option sequence, with the hand-edited document computed by the specification) is
rendered to a potable command line / ConfigParser(overrides=, additional=) call and to the hand-edited file; the
outputs (bytes, or outcome class) and the --list-items / --item-value answers are compared."""
import io, json, os, random, shutil, sys, tempfile

from lib import boot, tlc
from lib.harness import Run

P = boot.boot()
from atsim.potentials.config import Configuration, ConfigParser, ConfigParserOverrideTuple      # noqa: E402
from atsim.potentials.config._common import ConfigurationException                                # noqa: E402
from engines.layout import run_cli                                                                # noqa: E402

# ---- concretisation of the abstract documents of IniDoc.tla: two THEMES render the same abstract cases.
# theme "pair": a pair model, every section of the file is abstract;  theme "eam": an EAM model whose abstract sections
# share their key texts (the species), behind a fixed preamble.  Value 4 is the empty string.
class Theme(object):
    def __init__(self, name, sections, keys, vals, preamble="", preamble_items=()):
        self.name, self.sections, self.keys, self.vals = name, sections, keys, vals
        self.preamble, self.preamble_items = preamble, list(preamble_items)

    def key_text(self, s, k, ws):
        return self.keys[s][k][ws]

    def val_text(self, s, k, v):
        return self.vals[(s, k)][v - 1]

    def render_file(self, f):
        """a FILE of the spec (raw items, with their spelling) as .ini text"""
        out = [self.preamble] if self.preamble else []
        for sec in f:
            out.append("[%s]" % self.sections[sec["s"]])
            for it in sec["items"]:
                out.append("%s : %s" % (self.key_text(sec["s"], it["k"], it["ws"]), self.val_text(sec["s"], it["k"], it["v"])))
            out.append("")
        return "\n".join(out) + "\n"

    def render_doc(self, d, keep_empty=()):
        """a DOCUMENT of the spec (normalised keys) as the hand-edited file"""
        out = [self.preamble] if self.preamble else []
        for sec in d:
            out.append("[%s]" % self.sections[sec["s"]])
            for it in sec["items"]:
                out.append("%s : %s" % (self.key_text(sec["s"], it["k"], 0), self.val_text(sec["s"], it["k"], it["v"])))
            out.append("")
        for s in keep_empty:
            out.append("[%s]\n" % self.sections[s])
        return "\n".join(out) + "\n"


_SP = {1: ("Al", "A l"), 2: ("Cu", "C u"), 3: ("Fe", "F e")}
THEMES = [
    Theme("pair", {1: "Pair", 2: "Tabulation", 3: "Potential-Form"},
          {1: {1: ("A-B", "A - B"), 2: ("A-A", "A -A"), 3: ("B-B", "B- B")},
           2: {1: ("nr", "n r"), 2: ("cutoff", "cut off"), 3: ("target", "tar get")},
           3: {1: ("f(r,a)", "f(r, a)"), 2: ("g(r)", "g( r)"), 3: ("h(r,a,b)", "h(r,a, b)")}},
          # values may themselves contain '=' (range markers, comparisons in a formula): an option is split at its FIRST '=' only
          {(1, 1): ["as.polynomial 1 2", ">=0 as.polynomial 3 -1 2 >=1.5 as.zero", "f 2.0", ""],
           (1, 2): ["as.polynomial 2 1", ">=0.5 as.polynomial 5 1 -1", "g", ""],
           (1, 3): ["as.polynomial 4 3", "as.polynomial 6 0 1", "h 1.0 2.0", ""],
           (2, 1): ["6", "5", "9", ""],
           (2, 2): ["2.0", "4.0", "3.5", ""],
           (2, 3): ["LAMMPS", "GULP", "DL_POLY", ""],
           (3, 1): ["a*r", "if(r <= 1, a, a+r)", "a-r", ""],
           (3, 2): ["r", "2*r", "r^2", ""],
           (3, 3): ["a+b*r", "a*b", "a-b", ""]}),
    Theme("eam", {1: "EAM-Embed", 2: "EAM-Density", 3: "Table-Form"},      # 3: a section the model does not use, headed by the bare prefix of the table-form sections
          {1: _SP, 2: _SP, 3: _SP},
          # values may contain ':' as well (a ${SECTION:KEY} place-holder): SECTION:KEY=VALUE is split at the first ':' and the first '='
          dict([((s, k), ["as.polynomial %d 1" % (10 * s + k), (">=0 as.polynomial %d 2 1" if s == 1 else ">=0 as.polynomial %d ${Tabulation:nr} 1") % (10 * s + k),
                          "as.polynomial %d 0 3" % (10 * s + k), ""])
                for s in (1, 2) for k in (1, 2, 3)] + [((3, k), ["note", "5$ per mole", "third", ""]) for k in (1, 2, 3)]),
          preamble="[Tabulation]\ntarget : setfl\nnr : 5\ncutoff : 2.0\nnrho : 4\ncutoff_rho : 3.0\n\n[Pair]\nAl-Al : as.polynomial 1 1\n",
          preamble_items=["Tabulation:target=setfl", "Tabulation:nr=5", "Tabulation:cutoff=2.0", "Tabulation:nrho=4", "Tabulation:cutoff_rho=3.0",
                          "Pair:Al-Al=as.polynomial 1 1"]),
]
_TK = {1: ("x", "x"), 2: ("y", "y"), 3: ("interpolation", "inter polation")}
_TV = {1: ["0 1 2 3 4", "0 1 2 3 5", "0 2 4 6 8", ""], 2: ["0 1 4 9 16", "1 1 2 3 5", "5 4 3 2 1", ""], 3: ["cubic_spline", "cubic_spline", "linear", ""]}
THEMES.append(
    # the header of the second table form is spelled with a blank before its colon
    Theme("table", {1: "Table-Form:tf", 2: "Tabulation", 3: "Table-Form :tg"},
          {1: _TK, 2: {1: ("nr", "n r"), 2: ("cutoff", "cut off"), 3: ("target", "tar get")}, 3: _TK},
          dict([((s, k), _TV[k]) for s in (1, 3) for k in (1, 2, 3)] + [((2, 1), ["6", "5", "9", ""]), ((2, 2), ["2.0", "4.0", "3.5", ""]), ((2, 3), ["LAMMPS", "GULP", "DL_POLY", ""])]),
          preamble="[Variables]\nshift : 1.5\n\n[Pair]\nA-B : sum(tf, as.constant ${shift})\n",
          preamble_items=["Variables:shift=1.5", "Pair:A-B=sum(tf, as.constant 1.5)"]))
TH = THEMES[0]
SECTION = None


def key_text(s, k, ws):
    return TH.key_text(s, k, ws)


def val_text(s, k, v):
    return TH.val_text(s, k, v)


def op_val_text(o):
    """the value of an override / addition as typed: with the spelled-out key variant the whole item is typed the way a line of
    the file is ('KEY = VALUE '), so the value arrives with blanks around it - which a file's line would not keep"""
    v = TH.val_text(o["s"], o["k"], o["v"])
    return " %s " % v if o.get("ws") == 1 else v


def render_file(f):
    return TH.render_file(f)


def render_doc(d, keep_empty=()):
    return TH.render_doc(d, keep_empty)


class _Sec(object):
    def __getitem__(self, s):
        return TH.sections[s]


SECTION = _Sec()


def op_section(o):
    """the section of an edit as typed: with the spelled-out variant a blank follows the section name ('Pair :A - B = ...'), as a
    header '[Pair ]' may be written in the file"""
    return (" " if o.get("ws") == 1 and o.get("k", 0) % 2 else "") + SECTION[o["s"]] + (" " if o.get("ws") == 1 else "")      # also a blank in front of it


def cli_args(ops):
    args = []
    for o in ops:
        sk = "%s:%s" % (op_section(o), key_text(o["s"], o["k"], o["ws"]))
        if o["kind"] == "ovr":
            args += ["-e", "%s=%s" % (sk, op_val_text(o))]
        elif o["kind"] == "rem":
            args += ["-r", sk]
        else:
            args += ["-a", "%s=%s" % (sk, op_val_text(o))]
    return args


def tabulate_text(text):
    """outcome of tabulating a file through the Python API: ('ok', bytes) | ('config', msg) | ('internal', msg)"""
    try:
        tab = Configuration().read(io.StringIO(text))
        out = io.StringIO()
        tab.write(out)
        return ("ok", out.getvalue())
    except ConfigurationException as e:
        return ("config", str(e)[:160])
    except Exception as e:
        return ("internal", "%s: %s" % (type(e).__name__, str(e)[:160]))


def tabulate_api(text, ops):
    ov = [ConfigParserOverrideTuple(op_section(o), key_text(o["s"], o["k"], o["ws"]), op_val_text(o))
          for o in ops if o["kind"] == "ovr"]
    ov += [ConfigParserOverrideTuple(op_section(o), key_text(o["s"], o["k"], o["ws"]), None) for o in ops if o["kind"] == "rem"]
    ad = [ConfigParserOverrideTuple(op_section(o), key_text(o["s"], o["k"], o["ws"]), op_val_text(o))
          for o in ops if o["kind"] == "add"]
    try:
        cp = ConfigParser(io.StringIO(text), overrides=ov, additional=ad)
        tab = Configuration().read_from_parser(cp)
        out = io.StringIO()
        tab.write(out)
        return ("ok", out.getvalue())
    except ConfigurationException as e:
        return ("config", str(e)[:160])
    except Exception as e:
        return ("internal", "%s: %s" % (type(e).__name__, str(e)[:160]))


def tabulate_api_raw(text, additional):
    try:
        cp = ConfigParser(io.StringIO(text), additional=additional)
        tab = Configuration().read_from_parser(cp)
        out = io.StringIO()
        tab.write(out)
        return ("ok", out.getvalue())
    except ConfigurationException as e:
        return ("config", str(e)[:160])
    except Exception as e:
        return ("internal", "%s: %s" % (type(e).__name__, str(e)[:160]))


def tabulate_cli(text, args, workdir):
    inp, outp = os.path.join(workdir, "in.ini"), os.path.join(workdir, "out.dat")
    with open(inp, "w") as f:
        f.write(text)
    if os.path.exists(outp):
        os.remove(outp)
    try:
        status, so, se = run_cli([inp, outp] + args)
    except Exception as e:
        return ("internal", "%s: %s" % (type(e).__name__, str(e)[:160]))
    if status == 0:
        return ("ok", open(outp).read())
    if status == 2 and "configuration error" in se:
        return ("config", se.strip().splitlines()[-1][:160])
    return ("internal", "exit status %s: %s" % (status, se.strip().splitlines()[-1][:160] if se.strip() else ""))


def query_cli(text, args, workdir, query):
    inp = os.path.join(workdir, "in.ini")
    with open(inp, "w") as f:
        f.write(text)
    try:
        status, so, se = run_cli([inp] + args + query)
    except Exception as e:
        return ("internal", "%s: %s" % (type(e).__name__, str(e)[:160]))
    if status == 0:
        return ("ok", so)
    if status == 2 and "configuration error" in se:
        return ("config", se.strip().splitlines()[-1][:160])
    return ("internal", "exit status %s: %s" % (status, se.strip().splitlines()[-1][:160] if se.strip() else ""))


_CASES = []


def same(a, b):
    """same outcome: both ok with equal bytes, or both configuration errors"""
    if a[0] == "ok" and b[0] == "ok":
        return a[1] == b[1]
    return a[0] == b[0] == "config"


def _edit_one(job):
    global TH
    idx, theme = job
    TH = THEMES[theme]
    case = _CASES[idx]
    f, ops, hand = case["file"], case["ops"], case["hand"]
    out = dict(idx=idx, bad=[], n=0, theme=theme)
    d = tempfile.mkdtemp(prefix="verif-ini-")
    try:
        base = render_file(f)
        ws_used = any(o["ws"] == 1 for o in ops)
        empt = [s["s"] for s in f if not any(h["s"] == s["s"] for h in hand["d"])] if not hand["rej"] else []
        # what the user gets by editing the file by hand (an emptied section: with or without its header)
        if hand["rej"]:
            wants = [("config", hand["e"])]
        else:
            wants = [tabulate_text(render_doc(hand["d"]))]
            if empt:
                wants.append(tabulate_text(render_doc(hand["d"], keep_empty=empt)))
        for route in ("cli", "api"):
            got = tabulate_cli(base, cli_args(ops), d) if route == "cli" else tabulate_api(base, ops)
            out["n"] += 1
            if got[0] == "internal":
                out["bad"].append(("internal-exception", route, "edits %s -> %s" % (cli_args(ops), got[1]), ws_used))
            elif not any(same(got, w) for w in wants):
                if hand["rej"]:
                    msg = "edits %s must be rejected (%s) but gave %s" % (cli_args(ops), hand["e"], got[0])
                    clause = "invalid-edit-accepted"
                elif got[0] == "config" and wants[0][0] == "ok":
                    msg = "edits %s are valid but rejected: %s" % (cli_args(ops), got[1])
                    clause = "valid-edit-rejected"
                else:
                    msg = "edits %s: output differs from the hand-edited file (%s vs %s)" % (cli_args(ops), got[0], wants[0][0])
                    clause = "differs-from-hand-edit"
                out["bad"].append((clause, route, msg, ws_used))
        # --list-items / --item-value on the edited document (a document holding a value whose place-holder syntax is wrong - the
        # note '5$ per mole' of an item nothing reads - tabulates, but has no listing: its values cannot be shown resolved)
        listable = not any("$ " in val_text(s_["s"], it_["k"], it_["v"]) for s_ in hand["d"] for it_ in s_["items"]) if not hand["rej"] else False
        if not hand["rej"] and listable:
            # the listing shows values with their place-holders resolved (the eam theme's preamble fixes Tabulation:nr = 5)
            resolved = lambda v: v.replace("${Tabulation:nr}", "5")
            exp = sorted(["%s:%s=%s" % (SECTION[s["s"]], key_text(s["s"], it["k"], 0), resolved(val_text(s["s"], it["k"], it["v"]))) for s in hand["d"] for it in s["items"]] + TH.preamble_items)
            got = query_cli(base, cli_args(ops), d, ["--list-items"])
            out["n"] += 1
            if got[0] != "ok":
                out["bad"].append(("list-items", "cli", "--list-items with edits %s: %s %s" % (cli_args(ops), got[0], got[1]), ws_used))
            elif sorted(l for l in got[1].splitlines() if l.strip()) != exp:
                out["bad"].append(("list-items", "cli", "--list-items with edits %s reports %s, the edited file holds %s" % (
                    cli_args(ops), sorted(got[1].splitlines()), exp), ws_used))
            got = query_cli(base, cli_args(ops), d, ["--list-item-labels"])
            out["n"] += 1
            explab = sorted(e.split("=", 1)[0] if not e.startswith("Potential-Form:") else e[:e.index(")") + 1] for e in exp)
            if got[0] != "ok" or sorted(l for l in got[1].splitlines() if l.strip()) != explab:
                out["bad"].append(("list-items", "cli", "--list-item-labels with edits %s reports %s, the edited file holds %s" % (
                    cli_args(ops), sorted(got[1].splitlines()) if got[0] == "ok" else got, explab), ws_used))
            for s in hand["d"]:
                for it in s["items"][:1]:
                    # the item as the listing names it, and typed with blanks inside the key and after the section name (as the
                    # edit options accept it, and as a header '[Pair ]' / a key 'A - B' may be written in the file)
                    for q in ("%s:%s" % (SECTION[s["s"]], key_text(s["s"], it["k"], 0)), "%s :%s" % (SECTION[s["s"]], key_text(s["s"], it["k"], 1)), " %s:%s" % (SECTION[s["s"]], key_text(s["s"], it["k"], 0))):
                        got = query_cli(base, cli_args(ops), d, ["--item-value", q])
                        out["n"] += 1
                        if got[0] != "ok" or got[1].strip() != resolved(val_text(s["s"], it["k"], it["v"])):
                            out["bad"].append(("item-value", "cli", "--item-value '%s' with edits %s gives %r, expected %r" % (
                                q, cli_args(ops), got[1][:80], resolved(val_text(s["s"], it["k"], it["v"]))), ws_used or " :" in q))
    except Exception:
        import traceback
        out["machinery"] = traceback.format_exc()[-1500:]
    finally:
        shutil.rmtree(d, ignore_errors=True)
    return out


NOTES = Theme("notes", {k: "Notes%d" % k for k in range(1, 6)},
              {sx: {k: ("key%d" % k, "key %d" % k) for k in range(1, 6)} for sx in range(1, 6)},
              {(sx, k): ["value one", "2.5", "third value", ""] for sx in range(1, 6) for k in range(1, 6)},
              preamble="[Tabulation]\ntarget : LAMMPS\nnr : 5\n\n[Pair]\nA-B : as.zero\n",
              preamble_items=["Tabulation:target=LAMMPS", "Tabulation:nr=5", "Pair:A-B=as.zero"])


def c14_traces(run, tier, seed):
    """(T) larger documents and longer option sequences than TLC enumerates; TLC (IniDocTrace) is the judge"""
    global TH
    from atsim.potentials.config._config_parser import ConfigOverrideException, ConfigOverrideDuplicateException
    from atsim.potentials.config._common import ConfigParserDuplicateEntryException
    rnd = random.Random(seed * 13 + 5)
    TH = NOTES
    traces = []
    d = tempfile.mkdtemp(prefix="verif-ini-")
    try:
        for t in range(60 if tier == "quick" else 500):
            secs = rnd.sample(range(1, 5), rnd.randint(2, 4))
            f = [dict(s=sx, items=[dict(k=k, ws=rnd.choice([0, 0, 1]), v=rnd.randint(1, 3)) for k in rnd.sample(range(1, 6), rnd.randint(1, 4))]) for sx in secs]
            ops = []
            for _ in range(rnd.randint(3, 6)):
                kind = rnd.choice(["ovr", "ovr", "rem", "add", "add"])
                ops.append(dict(kind=kind, s=rnd.randint(1, 5), k=rnd.randint(1, 5), ws=rnd.choice([0, 1]), v=0 if kind == "rem" else rnd.randint(1, 4)))
            # two identical --remove-item options count as one (spec: excluded)
            seen, ops2 = set(), []
            for o in ops:
                key = (o["kind"], o["s"], o["k"])
                if o["kind"] == "rem" and key in seen:
                    continue
                seen.add(key)
                ops2.append(o)
            ops = ops2
            text = render_file(f)
            ov = [ConfigParserOverrideTuple(op_section(o), key_text(o["s"], o["k"], o["ws"]), op_val_text(o)) for o in ops if o["kind"] == "ovr"]
            ov += [ConfigParserOverrideTuple(op_section(o), key_text(o["s"], o["k"], o["ws"]), None) for o in ops if o["kind"] == "rem"]
            ad = [ConfigParserOverrideTuple(op_section(o), key_text(o["s"], o["k"], o["ws"]), op_val_text(o)) for o in ops if o["kind"] == "add"]
            # the API route applies the list as given; the spec's merge rule is the CLI's: observe through the CLI listing
            got = query_cli(text, cli_args(ops), d, ["--list-items"])
            run.evaluations += 1
            if got[0] == "ok":
                docobs = {}
                order = []
                ok = True
                for line in got[1].splitlines():
                    if not line.strip() or line in TH.preamble_items:
                        continue
                    lab, val = line.split("=", 1)
                    sname, key = lab.split(":", 1)
                    sx = [k for k, v in TH.sections.items() if v == sname]
                    kx = [k for k in range(1, 6) if TH.keys[1][k][0] == key]
                    vx = [i + 1 for i, v in enumerate(["value one", "2.5", "third value", ""]) if v == val]
                    if not sx or not kx or not vx:
                        ok = False
                        break
                    if sx[0] not in docobs:
                        docobs[sx[0]] = []
                        order.append(sx[0])
                    docobs[sx[0]].append(dict(k=kx[0], v=vx[0]))
                obs = dict(err="" if ok else "unparsable", doc=[dict(s=sx, items=docobs[sx]) for sx in order])
            elif got[0] == "config":
                msg = got[1]
                obs = dict(err="override-missing" if "not found in configuration file" in msg else "add-duplicate" if "already exists" in msg else "other:" + msg[:60], doc=[])
            else:
                obs = dict(err="internal:" + got[1][:60], doc=[])
            traces.append(dict(file=f, ops=ops, obs=obs, canary=False))
    finally:
        shutil.rmtree(d, ignore_errors=True)
    can = json.loads(json.dumps(traces[0]))
    can["canary"] = True
    can["obs"] = dict(err="", doc=[dict(s=5, items=[dict(k=5, v=4)])])
    traces.append(can)
    res, rep = tlc.batch_validate("IniDocTrace", "IniDocTrace.cfg", traces)
    run.add_tlc("IniDocTrace(%d traces)" % len(traces), res, exhaustive=False)
    for t, (reached, total, complete) in zip(traces, rep):
        if t["canary"]:
            if complete == 1:
                run.machinery("trace validation is vacuous: the corrupted canary trace was accepted")
            continue
        run.traces += 1
        run.distinct("trace:" + json.dumps([t["file"], t["ops"]]))
        if complete != 1:
            run.violation(dict(engine="inidoc", clause="trace-rejected", route="cli", whitespace_key=any(o["ws"] for o in t["ops"]), theme="notes"),
                          "[trace-rejected] options %s on\n%s observed %s: not the outcome of the specification" % (cli_args(t["ops"]), render_file(t["file"]), t["obs"]), dict(trace=t))
    run.sample(dict(trace_options=cli_args(traces[0]["ops"]), observed=traces[0]["obs"], validated_by="TLC IniDocTrace"))


def potable_cli(run):
    """spec/Potable.tla: every argument combination of the command line on the real main()"""
    res = tlc.run("Potable", "Potable_current.cfg", env={"EMIT": "1"}, coverage=True, keep=True, timeout=600)
    try:
        if res.violated:
            run.machinery("TLC: %s violated on Potable_current" % res.violated)
            return
        run.add_tlc("Potable_current", res)
        cases = tlc.read_ndjson(os.path.join(res.outdir, "cli.ndjson"))
    finally:
        tlc.cleanup(res)
    valid = "[Tabulation]\ntarget : LAMMPS\nnr : 5\ncutoff : 2.0\n\n[Pair]\nAl-Cu : as.buck 1000.0 0.3 32.0\nCu-Cu : as.zero\n"
    malformed = valid.replace("as.zero", "as.nosuchform 1 2")
    d = tempfile.mkdtemp(prefix="verif-cli-")
    try:
        for c in cases:
            a, want = c["args"], c["final"]
            inp, outp = os.path.join(d, "in.ini"), os.path.join(d, "out.dat")
            with open(inp, "w") as f:
                f.write(valid if a["file"] == "valid" else malformed)
            if os.path.exists(outp):
                os.remove(outp)
            args = [inp] + ([outp] if a["out"] == "given" else [])
            args += {"none": [], "list": ["--list-items"], "labels": ["--list-item-labels"], "value": ["--item-value", "Pair:Al-Cu"],
                     "value-missing": ["--item-value", "Pair:Fe-Fe"], "list+value": ["--list-items", "--item-value", "Pair:Al-Cu"]}[a["query"]]
            args += {"none": [], "include": ["--include-species", "Al", "Cu"], "exclude": ["--exclude-species", "Fe"],
                     "both": ["--include-species", "Al", "--exclude-species", "Cu"]}[a["filter"]]
            args += {"none": [], "valid": ["-e", "Tabulation:nr=6"], "missing": ["-e", "Tabulation:dr=0.1"]}[a["edit"]]
            try:
                status, so, se = run_cli(args)
            except Exception as e:          # an exception leaving main() is what a user sees as a traceback: exit status 1
                status, so, se = 1, "", "%s: %s" % (type(e).__name__, e)
            run.evaluations += 1
            run.replayed += 1
            run.distinct("cli:" + json.dumps(a, sort_keys=True))
            kind = "" if not so.strip() else ("list" if "Pair:Al-Cu=" in so else "labels" if "Pair:Al-Cu" in so else "value" if "as.buck" in so else "other")
            exists = os.path.exists(outp) and os.path.getsize(outp) > 0
            got = dict(status=status, stdout=kind, outfile="table" if exists else "untouched")
            if got != want:
                run.violation(dict(engine="inidoc", clause="cli-dispatch", route="cli", whitespace_key=False, theme="cli"),
                              "[cli-dispatch] potable %s: exit status %s, stdout %r, output file %s; the specification says status %s, stdout %r, output %s (%s)" % (
                                  " ".join(args[1:]), got["status"], got["stdout"], got["outfile"], want["status"], want["stdout"], want["outfile"], se.strip().splitlines()[-1][:120] if se.strip() else ""),
                              dict(args=a))
    finally:
        shutil.rmtree(d, ignore_errors=True)


def shipped_listings(run):
    """--list-items / --list-item-labels / --item-value on the potable files the repository ships: every item of the file exactly
    once (counted by an independent strict INI reader), labels = the keys of the listing, --item-value = the listed value"""
    import glob, configparser
    from lib import boot as _boot
    for path in sorted(glob.glob(os.path.join(_boot.REPO, "**", "*.aspot"), recursive=True)):
        rel = os.path.relpath(path, _boot.REPO)
        sig = dict(engine="inidoc", clause="listing", route="cli", whitespace_key=False, theme="shipped")
        raw = configparser.RawConfigParser(strict=True, delimiters=("=", ":"), interpolation=None)
        raw.optionxform = lambda k: "".join(k.split())
        raw.read(path)
        want = set()
        for sname in raw.sections():
            for k in raw.options(sname):
                want.add("%s:%s" % (sname.strip(), k))
        try:
            st, so, se = run_cli([path, "--list-items"])
            st2, so2, se2 = run_cli([path, "--list-item-labels"])
        except Exception as e:
            run.violation(sig, "[listing] %s: --list-items raised %s: %s" % (rel, type(e).__name__, e), dict(file=rel))
            continue
        run.evaluations += 2
        run.replayed += 1
        run.distinct("listing:" + rel)
        if st != 0 or st2 != 0:
            run.violation(sig, "[listing] %s: --list-items / --list-item-labels exit with status %s / %s: %s" % (rel, st, st2, (se + se2).strip().splitlines()[-1][:200] if (se + se2).strip() else ""), dict(file=rel))
            continue
        # a value that spans several lines is printed on several lines: a line starts an item when what precedes its first '='
        # is a SECTION:KEY of the file (by the independent reader) - anything else continues the previous value
        wantn = {"".join(x.split()) for x in want}
        items = []
        for ln in so.splitlines():
            if "=" in ln and "".join(ln.split("=", 1)[0].split()) in wantn:
                items.append(ln)
            elif items:
                items[-1] += "\n" + ln
            elif ln.strip():
                items.append(ln)
        labels = [ln.split("=", 1)[0] for ln in items]
        norm = ["".join(x.split()) for x in labels]
        if len(set(norm)) != len(norm):
            dup = sorted(x for x in set(norm) if norm.count(x) > 1)
            run.violation(sig, "[listing] %s: --list-items reports %s more than once" % (rel, dup[:3]), dict(file=rel))
        if set(norm) != {"".join(x.split()) for x in want}:
            missing = sorted({"".join(x.split()) for x in want} - set(norm))
            extra = sorted(set(norm) - {"".join(x.split()) for x in want})
            run.violation(sig, "[listing] %s: --list-items does not report %s / reports %s which an independent reader does not find" % (rel, missing[:4], extra[:4]), dict(file=rel))
        if [ln for ln in so2.splitlines() if ln.strip()] != labels:
            run.violation(sig, "[listing] %s: --list-item-labels is not the key column of --list-items" % rel, dict(file=rel))
        for ln in items[:: max(1, len(items) // 6)]:
            if "=" not in ln:
                continue
            lab, val = ln.split("=", 1)
            try:
                st3, so3, se3 = run_cli([path, "--item-value", lab])
            except Exception as e:
                st3, so3, se3 = 1, "", "%s: %s" % (type(e).__name__, e)
            run.evaluations += 1
            if st3 != 0 or so3.rstrip("\n") != val:
                run.violation(sig, "[listing] %s: --item-value %s gives %r (status %s), --list-items shows %r" % (rel, lab, so3.rstrip("\n")[:80], st3, val[:80]), dict(file=rel, label=lab))


def main_c14(tier, seed):
    global _CASES
    import multiprocessing as mp
    run = Run("C14", tier, seed)
    run.assumptions = ["options of different kinds are not ordered by the command line: hand edits apply overrides, then removals, then additions",
                       "an emptied section may keep or lose its header in the hand-edited file: either outcome is accepted",
                       "two identical --remove-item options count as one"]
    try:
        cfg = "IniDoc_quick" if tier == "quick" else "IniDoc_thorough"
        res = tlc.run("IniDoc", cfg + ".cfg", env={"EMIT": "1"}, coverage=True, keep=True, timeout=2400)
        try:
            if res.violated:
                run.machinery("TLC: %s violated on %s\n%s" % (res.violated, cfg, res.stdout[-1500:]))
            else:
                run.add_tlc(cfg, res)
                cases = [c for c in tlc.read_ndjson(os.path.join(res.outdir, "cases.ndjson")) if not c["readRejects"]]
        finally:
            tlc.cleanup(res)
        for c2, inv in (("IniDoc_code_edits", "EditsAreHandEdits"),) + ((("IniDoc_rawmerge", "EditsAreHandEdits"),) if tier == "thorough" else ()):
            r2 = tlc.run("IniDoc", c2 + ".cfg", timeout=600)
            run.notes["unrepaired_model_violates"] = r2.violated
            if r2.violated != inv:
                run.machinery("anti-vacuity: raw-key lookup model should violate %s, TLC says %r" % (inv, r2.violated))
        if not run.machinery_errors:
            rnd = random.Random(seed)
            jobs = list(range(len(cases)))
            cap = 3000 if tier == "quick" else 40000
            if len(jobs) > cap:
                # all sequences of <= 1 option, a seeded sample of the longer ones
                short = [i for i in jobs if len(cases[i]["ops"]) <= 1]
                longer = [i for i in jobs if len(cases[i]["ops"]) > 1]
                jobs = short + rnd.sample(longer, cap - len(short))
                run.exhaustive = False
                run.notes["replay_sampled"] = "%d of %d emitted cases replayed (all with <= 1 option, seeded sample of the rest)" % (len(jobs), len(cases))
            _CASES = cases
            with mp.Pool(min(16, os.cpu_count() or 1)) as pool:
                results = pool.map(_edit_one, [(i, i % len(THEMES)) for i in jobs], chunksize=8)
            global TH
            for r in results:
                case = cases[r["idx"]]
                TH = THEMES[r.get("theme", 0)]
                if r.get("machinery"):
                    run.machinery("case %d: %s" % (r["idx"], r["machinery"]))
                    continue
                run.evaluations += r["n"]
                run.replayed += 1
                if len(case["ops"]) >= 1:
                    run.distinct(json.dumps([case["file"], case["ops"], r["theme"]]))
                if len(run.samples) < 4 and len(case["ops"]) == 2 and r["idx"] % 211 == 1:
                    run.sample(dict(base=render_file(case["file"]), options=cli_args(case["ops"]), hand_edited=None if case["hand"]["rej"] else render_doc(case["hand"]["d"]),
                                    hand_outcome=case["hand"]["e"] if case["hand"]["rej"] else "ok"))
                for clause, route, msg, ws_used in r["bad"][:1]:
                    run.violation(dict(engine="inidoc", clause=clause, route=route, whitespace_key=ws_used, theme=TH.name), "[%s] %s/%s: %s" % (clause, TH.name, route, msg),
                                  dict(case=case, base=render_file(case["file"]), args=cli_args(case["ops"])))
            c14_traces(run, tier, seed)
            potable_cli(run)
            shipped_listings(run)
            run.rule = "cases = base file x option sequence (TLC) x {CLI, ConfigParser API} + listing queries; non-trivial = at least one option; distinct by (file, options)"
    except tlc.TLCError as e:
        run.machinery(str(e))
    return run.finish()


# ================================================================================================ C13
from atsim.potentials.config import FilteredConfigParser      # noqa: E402
from lib import formats                                        # noqa: E402

# one label is a prefix of another (H / He): labels are compared as wholes, never as substrings
SPL = {1: "H", 2: "He", 3: "Fe", 9: "Zz"}
V_TARGETS = {False: ["LAMMPS", "GULP", "DL_POLY", "setfl", "DL_POLY_EAM", "excel_eam", "excel", "eam_adp"], True: ["setfl_fs", "DL_POLY_EAM_fs", "excel_eam_fs"]}


def v_entry(e, lst, fs, rich=False):
    sp = [SPL[x] for x in e["sp"]]
    if lst == "pair":
        key = "%s-%s" % tuple(sp)
    elif lst == "dens" and fs:
        key = "%s->%s" % tuple(sp)
    else:
        key = sp[0]
    if rich:      # the same function through a custom formula that calls a table form (which no entry names directly)
        return "%s : >=0 viaform %d 1" % (key, e["id"])
    return "%s : >=0 as.polynomial %d 1" % (key, e["id"])


def v_render(doc, target, rich=False):
    out = ["[Tabulation]", "target : %s" % target, "nr : 8", "cutoff : 3.5", "nrho : 4", "cutoff_rho : 3.0", ""]
    if rich:
        out += ["[Potential-Form]", "viaform(r, a, b) = a + b*r + tzero(r)", "", "[Table-Form:tzero]", "xy : 0 0 1 0 2 0 3 0 4 0 5 0", ""]
    # element data of the user's own for one- and multi-letter species: the filter deletes pair, embedding and density entries,
    # the [Species] section stays what it is (the filtered view and the hand-deleted file read the same data)
    out += ["[Species]", "He.lattice_constant : 3.57", "He.lattice_type : hcp", "Fe.atomic_mass : 55.9", "H.lattice_constant : 1.1", "H.lattice_type : sc", ""]
    out += ["[Pair]"] + [v_entry(e, "pair", doc["fs"], rich) for e in doc["pair"]] + [""]
    out += ["[EAM-Embed]"] + [v_entry(e, "embed", doc["fs"], rich) for e in doc["embed"]] + [""]
    out += ["[EAM-Density]"] + [v_entry(e, "dens", doc["fs"], rich) for e in doc["dens"]] + [""]
    if target == "eam_adp":
        # the statement names pair, embedding and density entries: the dipole / quadrupole sections are in the hand-deleted file as
        # they are in the original (a function for a pair that has lost an element is simply not tabulated)
        out += ["[EAM-ADP-Dipole]", "%s-%s : as.polynomial 41 1" % (SPL[1], SPL[2]), "%s-%s : as.polynomial 42 1" % (SPL[3], SPL[3]), "",
                "[EAM-ADP-Quadrupole]", "%s-%s : as.polynomial 43 1" % (SPL[2], SPL[3]), "%s-%s : as.polynomial 44 1" % (SPL[1], SPL[1]), ""]
    return "\n".join(out) + "\n"


def v_outcome(fn, binary):
    try:
        data = fn()
        if binary:
            wb = formats.parse_xlsx(data)
            data = json.dumps({k: v["cols"] for k, v in wb.items()}, sort_keys=True, default=str)
        return ("ok", data)
    except ConfigurationException as e:
        return ("config", str(e)[:160])
    except Exception as e:
        return ("internal", "%s: %s" % (type(e).__name__, str(e)[:160]))


def v_tabulate(text, binary, view=None):
    def run():
        cp = ConfigParser(io.StringIO(text))
        if view is not None:
            labels = [SPL[x] for x in view["S"]]
            cp = FilteredConfigParser(cp, include=labels) if view["mode"] == "include" else FilteredConfigParser(cp, exclude=labels)
        tab = Configuration().read_from_parser(cp)
        out = io.BytesIO() if binary else io.StringIO()
        tab.write(out)
        return out.getvalue()
    return v_outcome(run, binary)


def v_cli(text, binary, view, workdir):
    inp, outp = os.path.join(workdir, "in.ini"), os.path.join(workdir, "out.dat")
    with open(inp, "w") as f:
        f.write(text)
    if os.path.exists(outp):
        os.remove(outp)
    args = [inp, outp]
    if view is not None:
        args += ["--include-species" if view["mode"] == "include" else "--exclude-species"] + [SPL[x] for x in view["S"]]
    try:
        status, so, se = run_cli(args)
    except Exception as e:
        return ("internal", "%s: %s" % (type(e).__name__, str(e)[:160]))
    if status == 0:
        return v_outcome(lambda: open(outp, "rb" if binary else "r").read(), binary)
    if status == 2 and "configuration error" in se:
        return ("config", se.strip().splitlines()[-1][:160])
    return ("internal", "exit status %s: %s" % (status, se.strip().splitlines()[-1][:160] if se.strip() else ""))


_VDOCS, _VCASES = [], []


def _view_one(idx):
    case = _VCASES[idx]
    doc = _VDOCS[case["doc"] - 1]
    view = case["view"]
    if idx % 4 == 1 and view["S"]:
        # a species set is a set: naming a label twice (in any position) changes nothing
        view = dict(view, S=list(view["S"]) + [view["S"][0]])
    out = dict(idx=idx, bad=[], n=0)
    d = tempfile.mkdtemp(prefix="verif-view-")
    try:
        for target in V_TARGETS[doc["fs"]]:
            binary = target.startswith("excel")
            rich = idx % 3 == 2
            base = v_render(doc, target, rich)
            hand = v_render(case["filtered"], target, rich)
            want = v_tabulate(hand, binary)
            for route in ("cli", "api"):
                got = v_cli(base, binary, view, d) if route == "cli" else v_tabulate(base, binary, view)
                out["n"] += 1
                empty = len(view["S"]) == 0
                if got[0] == "internal" and want[0] != "internal":
                    out["bad"].append(("internal-exception", route, target, "%s %s: %s" % (view["mode"], [SPL[x] for x in view["S"]], got[1]), empty))
                elif got[0] != want[0] or (got[0] == "ok" and got[1] != want[1]):
                    out["bad"].append(("differs-from-hand-deleted", route, target, "%s %s on target %s: %s, the hand-deleted file gives %s" % (
                        view["mode"], [SPL[x] for x in view["S"]], target, got[0] if got[0] != "ok" else "a different table", want[0]), empty))
    except Exception:
        import traceback
        out["machinery"] = traceback.format_exc()[-1500:]
    finally:
        shutil.rmtree(d, ignore_errors=True)
    return out


def _sp_tuple(p, fs, lst):
    """identity (the first parameter of the rendered definition) and species of a parsed entry"""
    s = p.species
    ident = p.potential_form_instance.parameters[0]
    if lst == "pair":
        return [ident, s.species_a, s.species_b]
    if lst == "dens" and fs:
        return [ident, s.from_species, s.to_species]
    return [ident, s]


def _want_tuple(e):
    return [e["id"]] + [SPL[x] for x in e["sp"]]


def _history_job(job):
    """histories on ONE parsed file: creates of views (from a pool of 4 filters), reads of their lists and tabulations of
    them; all sequences of <= 3 events, and the 4-event ones that create two views and then read / tabulate twice"""
    di, pool, seed = job
    doc = _VDOCS[di]
    by = {json.dumps(c["view"], sort_keys=True): c for c in _VCASES if c["doc"] == di + 1}
    import itertools
    target = "setfl_fs" if doc["fs"] else "setfl"
    text = v_render(doc, target)
    creates = [("create", vid, pv) for vid in (1, 2) for pv in range(len(pool))]
    uses = [("read", vid, l) for vid in (1, 2) for l in ("pair", "embed", "dens")] + [("tab", vid, None) for vid in (1, 2)]
    events = creates + uses
    hists = [h for L in (2, 3) for h in itertools.product(events, repeat=L)]
    hists += [(a, b, c, d) for a in creates if a[1] == 1 for b in creates if b[1] == 2 for c in uses for d in uses if "tab" in (c[0], d[0])]
    want_table = {}
    bad, n = [], 0
    for hist in hists:
        if hist[0][0] != "create" or not any(e[0] != "create" for e in hist):
            continue
        cp = ConfigParser(io.StringIO(text))
        views, filt = {}, {}
        for ev in hist:
            if ev[0] == "create":
                v = pool[ev[2]]
                labels = [SPL[x] for x in v["S"]]
                views[ev[1]] = FilteredConfigParser(cp, include=labels) if v["mode"] == "include" else FilteredConfigParser(cp, exclude=labels)
                filt[ev[1]] = v
                continue
            if ev[1] not in views:
                break
            fkey = json.dumps(filt[ev[1]], sort_keys=True)
            describe = lambda: [(e[0], e[1], (pool[e[2]]["mode"], [SPL[x] for x in pool[e[2]]["S"]]) if e[0] == "create" else e[2]) for e in hist]
            if ev[0] == "read":
                lst = ev[2]
                attr = {"pair": "pair", "embed": "eam_embed", "dens": "eam_density_fs" if doc["fs"] else "eam_density"}[lst]
                got = [_sp_tuple(p, doc["fs"], lst) for p in getattr(views[ev[1]], attr)]
                want = [_want_tuple(e) for e in by[fkey]["filtered"][lst]]
                n += 1
                if got != want and len(bad) < 5:
                    bad.append(("view-not-independent", "history %s: reading %s of view %d (%s %s) gives %s, expected %s" % (
                        describe(), lst, ev[1], filt[ev[1]]["mode"], [SPL[x] for x in filt[ev[1]]["S"]], got, want)))
            else:
                if fkey not in want_table:
                    want_table[fkey] = v_tabulate(v_render(by[fkey]["filtered"], target), False)
                view = views[ev[1]]

                def run():
                    out = io.StringIO()
                    Configuration().read_from_parser(view).write(out)
                    return out.getvalue()
                got = v_outcome(run, False)
                n += 1
                if got != want_table[fkey] and len(bad) < 5:
                    bad.append(("view-not-independent", "history %s: tabulating view %d (%s %s) gives %s, the hand-deleted file gives %s" % (
                        describe(), ev[1], filt[ev[1]]["mode"], [SPL[x] for x in filt[ev[1]]["S"]], got[0] if got[0] != "ok" else "a different table", want_table[fkey][0])))
    # ---- the caller's collection object (Views.tla: arg, GrowArg, one-shot iterators): a view keeps the species it was created
    # with, whatever the caller does to the object it passed and however often the view is read
    extra_labels = [SPL[x] for x in sorted(SPL)]
    for pv, v in enumerate(pool):
        fkey = json.dumps(v, sort_keys=True)
        for kind in ("list-grown", "iterator", "generator", "set-cleared"):
            labels = [SPL[x] for x in v["S"]]
            coll = {"list-grown": list(labels), "iterator": iter(list(labels)), "generator": (x for x in list(labels)), "set-cleared": set(labels)}[kind]
            cp = ConfigParser(io.StringIO(text))
            view = FilteredConfigParser(cp, include=coll) if v["mode"] == "include" else FilteredConfigParser(cp, exclude=coll)
            if kind == "list-grown":          # the views of a loop built from one growing list
                for lab in extra_labels:
                    if lab not in coll:
                        coll.append(lab)
                FilteredConfigParser(cp, include=coll) if v["mode"] == "include" else FilteredConfigParser(cp, exclude=coll)
            elif kind == "set-cleared":
                coll.clear()
            for rep in (1, 2):
                for lst in ("pair", "embed", "dens"):
                    attr = {"pair": "pair", "embed": "eam_embed", "dens": "eam_density_fs" if doc["fs"] else "eam_density"}[lst]
                    got = [_sp_tuple(p, doc["fs"], lst) for p in getattr(view, attr)]
                    want = [_want_tuple(e) for e in by[fkey]["filtered"][lst]]
                    n += 1
                    if got != want and len(bad) < 5:
                        bad.append(("view-keeps-callers-object", "view created with %s=%s passed as %s: read %d of %s gives %s, the file with the entries deleted has %s" % (
                            v["mode"], labels, kind, rep, lst, got, want)))
    # ---- a view created from a view (Views.tla: chain): deleting for the inner filter, then for the outer one
    def keeps(v, e):
        return set(e["sp"]) <= set(v["S"]) if v["mode"] == "include" else not (set(e["sp"]) & set(v["S"]))

    def mk(parent, v):
        labels = [SPL[x] for x in v["S"]]
        return FilteredConfigParser(parent, include=labels) if v["mode"] == "include" else FilteredConfigParser(parent, exclude=labels)
    for v1 in pool:
        for v2 in pool:
            cp = ConfigParser(io.StringIO(text))
            inner = mk(cp, v1)
            outer = mk(inner, v2)
            f1 = by[json.dumps(v1, sort_keys=True)]["filtered"]
            for lst in ("pair", "embed", "dens"):
                attr = {"pair": "pair", "embed": "eam_embed", "dens": "eam_density_fs" if doc["fs"] else "eam_density"}[lst]
                want = [_want_tuple(e) for e in f1[lst] if keeps(v2, e)]
                got = [_sp_tuple(p, doc["fs"], lst) for p in getattr(outer, attr)]
                n += 1
                if got != want and len(bad) < 5:
                    bad.append(("view-of-a-view", "view (%s %s) created from a view (%s %s): reading %s gives %s, deleting for the inner and then for the outer filter leaves %s" % (
                        v2["mode"], [SPL[x] for x in v2["S"]], v1["mode"], [SPL[x] for x in v1["S"]], lst, got, want)))
                # the inner view is what it was
                got1 = [_sp_tuple(p, doc["fs"], lst) for p in getattr(inner, attr)]
                if got1 != [_want_tuple(e) for e in f1[lst]] and len(bad) < 5:
                    bad.append(("view-not-independent", "view (%s %s) after a view was created from it: reading %s gives %s" % (v1["mode"], [SPL[x] for x in v1["S"]], lst, got1)))
    return dict(bad=bad, n=n)


_VFILTERS = []


def _session_job(hists):
    """histories of a process that parses several files (ViewSession.tla): parse / create view / read / release, replayed on
    ConfigParser and FilteredConfigParser; every read is compared with the hand-deleted lists of the view's own file"""
    import gc
    gc.collect()
    gc.freeze()          # what exists now is not scanned again: the collections at the release events only look at the session's objects
    want_of = {(c["doc"], c["view"]["mode"], tuple(sorted(c["view"]["S"]))): c["filtered"] for c in _VCASES}
    texts = [v_render(d, "setfl_fs" if d["fs"] else "setfl") for d in _VDOCS]
    bad, n = [], 0
    for h in hists:
        parsers, pdoc, views, vinfo = {}, {}, {}, {}
        try:
            for ev in h["hist"]:
                if ev["e"] == "parse":
                    parsers[ev["p"]] = ConfigParser(io.StringIO(texts[ev["d"] - 1]))
                    pdoc[ev["p"]] = ev["d"]
                elif ev["e"] == "release":
                    for v in [v for v in views if vinfo[v][0] == ev["p"]]:
                        del views[v]
                        del vinfo[v]
                    del parsers[ev["p"]]
                    gc.collect()
                elif ev["e"] == "create":
                    f = _VFILTERS[ev["f"] - 1]
                    labels = [SPL[x] for x in f["S"]]
                    views[ev["v"]] = FilteredConfigParser(parsers[ev["p"]], include=labels) if f["mode"] == "include" else FilteredConfigParser(parsers[ev["p"]], exclude=labels)
                    vinfo[ev["v"]] = (ev["p"], ev["f"])
                else:
                    pp, fi = vinfo[ev["v"]]
                    f = _VFILTERS[fi - 1]
                    d = pdoc[pp]
                    doc = _VDOCS[d - 1]
                    want_doc = want_of[(d, f["mode"], tuple(sorted(f["S"])))]
                    for lst in ("pair", "embed", "dens"):
                        attr = {"pair": "pair", "embed": "eam_embed", "dens": "eam_density_fs" if doc["fs"] else "eam_density"}[lst]
                        got = [_sp_tuple(q, doc["fs"], lst) for q in getattr(views[ev["v"]], attr)]
                        want = [_want_tuple(e) for e in want_doc[lst]]
                        n += 1
                        if got != want and len(bad) < 3:
                            bad.append(("view-of-another-file", "history %s: reading %s of view %d (%s %s of file %d) gives %s, the hand-deleted file has %s" % (
                                [(e["e"], e["p"], e["d"] or e["f"]) for e in h["hist"]], lst, ev["v"], f["mode"], labels if False else [SPL[x] for x in f["S"]], d, got, want), h))
        except Exception:
            import traceback
            return dict(bad=bad, n=n, machinery=traceback.format_exc()[-1500:])
        finally:
            parsers.clear()
            views.clear()
            gc.collect()
    return dict(bad=bad, n=n)


def c13_traces(run, tier, seed):
    """code -> specification: long random sessions on the real classes, recorded with the real identity of every parser and
    the entries every read returned; ViewSessionTrace.tla is the judge"""
    import gc
    gc.collect()
    gc.freeze()
    rnd = random.Random(seed + 77)
    inv = {v: k for k, v in SPL.items()}
    texts = [v_render(d, "setfl_fs" if d["fs"] else "setfl") for d in _VDOCS]
    n_traces = 40 if tier == "quick" else 400
    traces, reuse = [], 0
    for t in range(n_traces):
        pool = [dict(mode=rnd.choice(["include", "exclude"]), S=sorted(rnd.sample([1, 2, 3, 9], rnd.randint(0, 4)))) for _ in range(rnd.randint(1, 3))]
        parsers, pdoc, views, vinfo, addr_of, evs = {}, {}, {}, {}, {}, []
        n_parse = 0
        for step in range(rnd.randint(12, 40)):
            choices = []
            if len(parsers) < 4 and n_parse < 16:
                choices += ["parse"] * 2
            if parsers:
                choices += ["release", "create", "create"]
            if views:
                choices += ["read"] * 4
            e = rnd.choice(choices)
            if e == "parse":
                p = rnd.choice([x for x in (1, 2, 3, 4) if x not in parsers])
                d = rnd.randint(1, len(_VDOCS))
                parsers[p] = ConfigParser(io.StringIO(texts[d - 1]))
                pdoc[p] = d
                n_parse += 1
                a = addr_of.setdefault(id(parsers[p]), len(addr_of) + 1)
                if a < len(addr_of) or sum(1 for x in evs if x["e"] == "parse" and x["a"] == a):
                    reuse += 1
                evs.append(dict(e="parse", p=p, d=d, a=a))
            elif e == "release":
                p = rnd.choice(sorted(parsers))
                for v in [v for v in views if vinfo[v][0] == p]:
                    del views[v]
                    del vinfo[v]
                del parsers[p]
                gc.collect()
                evs.append(dict(e="release", p=p))
            elif e == "create":
                p = rnd.choice(sorted(parsers))
                v = rnd.randint(1, 4)
                f = rnd.choice(pool)
                labels = [SPL[x] for x in f["S"]]
                views[v] = FilteredConfigParser(parsers[p], include=labels) if f["mode"] == "include" else FilteredConfigParser(parsers[p], exclude=labels)
                vinfo[v] = (p, f)
                evs.append(dict(e="create", v=v, p=p, filter=f))
            else:
                v = rnd.choice(sorted(views))
                p, f = vinfo[v]
                fs = _VDOCS[pdoc[p] - 1]["fs"]
                obs = {}
                for lst in ("pair", "embed", "dens"):
                    attr = {"pair": "pair", "embed": "eam_embed", "dens": "eam_density_fs" if fs else "eam_density"}[lst]
                    got = [_sp_tuple(q, fs, lst) for q in getattr(views[v], attr)]
                    obs[lst] = [dict(id=int(g[0]), sp=[inv[x] for x in g[1:]]) for g in got]
                evs.append(dict(e="read", v=v, filter=f, obs=obs))
        traces.append(dict(ev=evs))
        parsers.clear()
        views.clear()
        gc.collect()
    # canary: one recorded entry replaced by an entry of another file - the trace must be rejected
    canary = None
    for t in traces:
        for k, ev in enumerate(t["ev"]):
            if ev["e"] == "read" and ev["obs"]["pair"]:
                c = json.loads(json.dumps(t))
                c["ev"][k]["obs"]["pair"][0]["id"] += 100
                canary = c
                break
        if canary:
            break
    batch = traces + ([canary] if canary else [])
    res, rep = tlc.batch_validate("ViewSessionTrace", "ViewSessionTrace.cfg", batch, timeout=1800)
    run.add_tlc("ViewSessionTrace", res, exhaustive=False)
    for k, (reached, total, complete) in enumerate(rep[:len(traces)]):
        run.traces += 1
        if not complete:
            ev = traces[k]["ev"][reached - 1] if 0 < reached <= len(traces[k]["ev"]) else None
            run.violation(dict(engine="inidoc", clause="trace-rejected", route="api"),
                          "[trace-rejected] session %d: the specification accepts %d of %d recorded events; the next one is %s" % (k, reached - 1, total, json.dumps(ev)[:400]),
                          dict(trace=traces[k], reached=reached))
    if canary and rep[-1][2]:
        run.machinery("trace validation: the corrupted canary session was accepted")
    run.notes["session_traces"] = dict(n=len(traces), events=sum(len(t["ev"]) for t in traces), parses_on_a_reused_address=reuse, canary_rejected=bool(canary and not rep[-1][2]))


def load_session_histories(run, tier, seed):
    """ViewSession.tla: model-check the life cycle of several parsed files; TLC prints the witness history of every distinct
    state that ends in a read"""
    from engines.algebra import parse_printed
    cfg = "ViewSession_fixed.cfg" if tier == "quick" else "ViewSession_thorough.cfg"
    res = tlc.run("ViewSession", cfg, env={"EMIT": "1"}, workers=1, keep=True, timeout=1800)
    try:
        if res.violated:
            run.machinery("TLC: %s violated\n%s" % (res.violated, res.stdout[-1500:]))
            return []
        run.add_tlc(cfg[:-4], res)
        _VFILTERS[:] = tlc.read_ndjson(os.path.join(res.outdir, "filters.ndjson"))
        hists, seen = [], set()
        for h in parse_printed(res.stdout):
            k = json.dumps(h["hist"], sort_keys=True)
            if k not in seen:
                seen.add(k)
                hists.append(h)
    finally:
        tlc.cleanup(res)
    r2 = tlc.run("ViewSession", "ViewSession_memo.cfg", timeout=600)
    run.notes["identity_memo_model_violates"] = r2.violated
    if r2.violated != "ReadIsFilterOfOwnFile":
        run.machinery("anti-vacuity: the model with a memo keyed on the parser's identity should violate ReadIsFilterOfOwnFile, TLC says %r" % r2.violated)
    if tier == "quick":
        rnd = random.Random(seed + 5)
        rest = [h for h in hists if not h["stale"]]
        hists = [h for h in hists if h["stale"]] + rnd.sample(rest, min(len(rest), 1500))
    run.notes["session_histories"] = len(hists)
    return hists


def main_c13(tier, seed):
    global _VDOCS, _VCASES
    import multiprocessing as mp
    run = Run("C13", tier, seed)
    run.assumptions = ["the hand-deleted file keeps its (possibly empty) section headers", "ADP dipole/quadrupole sections are not named by the statement and not filtered: not asserted",
                       "Excel outputs compared at cell level (container timestamps differ between writes)"]
    try:
        res = tlc.run("Views", "Views_fixed.cfg", env={"EMIT": "1"}, coverage=True, keep=True, timeout=1200)
        try:
            if res.violated:
                run.machinery("TLC: %s violated\n%s" % (res.violated, res.stdout[-1500:]))
            else:
                run.add_tlc("Views_fixed", res)
                _VDOCS = tlc.read_ndjson(os.path.join(res.outdir, "docs.ndjson"))
                _VCASES = tlc.read_ndjson(os.path.join(res.outdir, "cases.ndjson"))
        finally:
            tlc.cleanup(res)
        if tier == "thorough":       # histories of four events (model checking only; the replay enumerates its own 4-event histories)
            r4 = tlc.run("Views", "Views_thorough.cfg", timeout=5400)
            if r4.violated:
                run.machinery("TLC: %s violated on Views_thorough\n%s" % (r4.violated, r4.stdout[-1200:]))
            else:
                run.add_tlc("Views_thorough", r4)
        r6 = tlc.run("Views", "Views_flatten.cfg", timeout=600)
        if r6.violated != "ReadIsFilter":
            run.machinery("anti-vacuity: Views_flatten.cfg (a view of a view joins the label lists) should violate ReadIsFilter, TLC says %r" % (r6.violated,))
        r5 = tlc.run("Views", "Views_aliased.cfg", timeout=600)
        if r5.violated != "ReadIsFilter":
            run.machinery("anti-vacuity: Views_aliased.cfg (the view keeps the caller's collection object) should violate ReadIsFilter, TLC says %r" % (r5.violated,))
        r2 = tlc.run("Views", "Views_shared.cfg", timeout=600)
        run.notes["unrepaired_model_violates"] = r2.violated
        if r2.violated != "ReadIsFilter":
            run.machinery("anti-vacuity: the shared-slot model should violate ReadIsFilter, TLC says %r" % r2.violated)
        shists = load_session_histories(run, tier, seed) if not run.machinery_errors else []
        if not run.machinery_errors:
            rnd = random.Random(seed)
            pools = []
            for di in range(len(_VDOCS)):
                vs = [c["view"] for c in _VCASES if c["doc"] == di + 1]
                for rep in range(2 if tier == "quick" else 8):
                    pools.append((di, rnd.sample(vs, 4), seed))
            with mp.Pool(min(16, os.cpu_count() or 1)) as pool:
                results = pool.map(_view_one, range(len(_VCASES)), chunksize=1)
                hres = pool.map(_history_job, pools, chunksize=1)
                rnd.shuffle(shists)
                sres = pool.map(_session_job, [shists[k:k + 40] for k in range(0, len(shists), 40)], chunksize=1)
            for r in results:
                case = _VCASES[r["idx"]]
                if r.get("machinery"):
                    run.machinery("case %d: %s" % (r["idx"], r["machinery"]))
                    continue
                run.evaluations += r["n"]
                run.replayed += 1
                if 0 < len(case["view"]["S"]) < 4:
                    run.distinct(json.dumps([case["doc"], case["view"]], sort_keys=True))
                if len(run.samples) < 3 and r["idx"] % 17 == 3:
                    run.sample(dict(file=v_render(_VDOCS[case["doc"] - 1], "setfl"), view=dict(mode=case["view"]["mode"], species=[SPL[x] for x in case["view"]["S"]]),
                                    hand_deleted=v_render(case["filtered"], "setfl")))
                seen = set()
                for clause, route, target, msg, empty in r["bad"]:
                    sig = dict(engine="inidoc", clause=clause, route=route, empty_set=empty, mode=case["view"]["mode"])
                    k = json.dumps(sig, sort_keys=True)
                    if k in seen:
                        continue
                    seen.add(k)
                    run.violation(sig, "[%s] %s: %s" % (clause, route, msg), dict(case=case, target=target))
            for r in hres:
                run.evaluations += r["n"]
                run.replayed += r["n"]
                for clause, msg in r["bad"][:1]:
                    run.violation(dict(engine="inidoc", clause=clause, route="api"), "[%s] %s" % (clause, msg), dict(msg=msg))
            for r in sres:
                if r.get("machinery"):
                    run.machinery("session history: %s" % r["machinery"])
                run.evaluations += r["n"]
                for clause, msg, h in r["bad"][:1]:
                    run.violation(dict(engine="inidoc", clause=clause, route="api"), "[%s] %s" % (clause, msg), dict(history=h))
            run.replayed += len(shists)
            if not run.machinery_errors:
                c13_traces(run, tier, seed)
            run.rule = "cases = 3 files (EAM, Finnis-Sinclair, a second EAM) x 32 views (include/exclude x subsets of 3 species + an unknown label) x 7 / 3 targets x {CLI, API}; histories = all sequences of <= 3 create/read/tabulate events over 2 views from seeded pools of 4 filters, and the 4-event ones create, create, use, use with a tabulation; session histories = the witness history of every distinct state of ViewSession.tla (parse / create / read / release over 2 parser handles, 3 files, 2 views, 2 filters) that ends in a read; non-trivial = proper non-empty species set"
    except tlc.TLCError as e:
        run.machinery(str(e))
    return run.finish()


# ================================================================================================ C15
LIT = {"L9": "9", "L3": "3.0", "L03": "0.3", "Ly": "0.0 1.0 4.0 9.0 16.0 144.0", "Lextra": "77"}
# position -> (section, key, value template)
VPOS = {1: ("Tabulation", "nr", "{}"), 2: ("Tabulation", "cutoff_rho", "{}"),
        3: ("Pair", "Al-Cu", "as.buck 1000.0 {} 32.0"), 4: ("Pair", "Cu-Cu", "sum(as.polynomial 1 {0}, f {0}, tf)"),
        5: ("Potential-Form", "f(r,a)", "a*r + {}"), 6: ("Species", "Al.lattice_constant", "{}"),
        7: ("Table-Form:tf", "y", "{}"), 8: ("EAM-Embed", "Al", "as.polynomial {} 1"), 9: ("EAM-Density", "Al", "as.polynomial {} 1"),
        10: ("Tabulation", "target", "{}")}
VPOS_LIT = {1: "L9", 2: "L3", 3: "L03", 4: "L03", 5: "L03", 6: "L3", 7: "Ly", 8: "L9", 9: "L03", 10: "Ltarget"}
VKEYLIKE = {1: "A-B", 2: "x", 3: "nr", 4: "cutoff", 5: "target", 6: "y", 7: "dr", 8: "drho", 9: "interpolation", 10: "lattice_type"}
VCONTEXT = [("Tabulation", ["nrho : 5"]), ("Table-Form:tf", ["x : 0.0 1.0 2.0 3.0 4.0 12.0"]),
            ("Potential-Form", []), ("Pair", []), ("Species", []), ("EAM-Embed", ["Cu : as.polynomial 2 1"]), ("EAM-Density", ["Cu : as.polynomial 1 1"])]


def vars_partner(p, P):
    c = [q for q in sorted(VPOS) if q != p and VPOS_LIT[q] == VPOS_LIT[p] and VPOS[q][0] != VPOS[p][0] and VPOS[q][2] == "{}"]
    return c[0] if c else 0


def vars_render(case, target):
    """(templated text, substituted text)"""
    P, scheme, extra = set(case["P"]), case["scheme"], case["extra"]
    LIT["Ltarget"] = target
    variables = {}
    hole = {}
    helpers = {}        # section -> extra option lines of the templated file (scheme ownkey)
    for p in sorted(VPOS):
        lit = LIT[VPOS_LIT[p]]
        if p not in P:
            hole[p] = lit
            continue
        q = vars_partner(p, P)
        if scheme == "secref" and q and q not in P:
            hole[p] = "${%s:%s}" % (VPOS[q][0], VPOS[q][1])
            continue
        if scheme == "ownkey":
            if VPOS[p][0] == "Tabulation":
                # the option refers to a helper option of its own section; [Variables] holds a decoy of that name
                helpers.setdefault("Tabulation", []).append("h%d : %s" % (p, lit))
                variables["h%d" % p] = LIT["Lextra"]
                hole[p] = "${h%d}" % p
                continue
            if q and q in P and VPOS[q][0] == "Tabulation":
                hole[p] = "${%s:%s}" % (VPOS[q][0], VPOS[q][1])
                continue
        name = {"plain": "v%d" % p, "secref": "v%d" % p, "chained": "v%d" % p, "ownkey": "v%d" % p, "keylike": VKEYLIKE[p], "shared": VPOS_LIT[p]}[scheme]
        if scheme == "chained":       # a variable defined through another variable
            variables[name] = "${w%d}" % p
            variables["w%d" % p] = lit
        else:
            variables[name] = lit
        hole[p] = "${%s}" % name
    for e in extra:
        variables.setdefault(e, LIT["Lextra"])

    def body(holes, extra_lines=None):
        out = []
        for sec, ctx in VCONTEXT:
            out.append("[%s]" % sec)
            out += [c.format(target=target) for c in ctx]
            out += (extra_lines or {}).get(sec, [])
            for p in sorted(VPOS):
                if VPOS[p][0] == sec:
                    out.append("%s : %s" % (VPOS[p][1], VPOS[p][2].format(holes[p])))
            out.append("")
        return "\n".join(out) + "\n"
    templ = body(hole, helpers)
    case["_variables"] = dict(variables)
    case["_templ_without_variables"] = templ
    if variables:
        templ = "[Variables]\n" + "\n".join("%s : %s" % kv for kv in variables.items()) + "\n\n" + templ
    subst = body({p: LIT[VPOS_LIT[p]] for p in VPOS})
    return templ, subst


_XCASES = []


def _vars_one(idx):
    case = _XCASES[idx]
    out = dict(idx=idx, bad=[], n=0)
    d = tempfile.mkdtemp(prefix="verif-vars-")
    try:
        # the documented synonym spellings of a target are literals like any other
        tgts = [("LAMMPS", "lammps_eam_alloy", "GULP", "DL_POLY_EAM"), ("LAMMPS", "setfl", "GULP", "LAMMPS_eam_alloy")][idx % 2] if 10 in case["P"] else ("LAMMPS", "setfl", "GULP", "DL_POLY_EAM")
        for target in tgts[: 4 if idx % 3 == 0 else 2]:
            templ, subst = vars_render(case, target)
            want = tabulate_text(subst)
            routes = ["api", "cli"]
            if idx % 4 == 0 and case.get("_variables"):
                routes += ["api-added", "cli-added"]      # the file has no [Variables] section: every variable is given as an added item
            for route in routes:
                if route == "api":
                    got = tabulate_text(templ)
                elif route == "cli":
                    got = tabulate_cli(templ, [], d)
                elif route == "api-added":
                    got = tabulate_api_raw(case["_templ_without_variables"], [ConfigParserOverrideTuple("Variables", k, v) for k, v in case["_variables"].items()])
                else:
                    got = tabulate_cli(case["_templ_without_variables"], [x for k, v in case["_variables"].items() for x in ("-a", "Variables:%s=%s" % (k, v))], d)
                out["n"] += 1
                if got[0] != want[0] or (got[0] == "ok" and got[1] != want[1]):
                    clause = "internal-exception" if got[0] == "internal" else "differs-from-substituted"
                    out["bad"].append((clause, route, target, "lifted %s (%s), extra variables %s, target %s: %s; the substituted file gives %s" % (
                        case["P"], case["scheme"], case["extra"], target, got[0] if got[0] == "ok" else "%s %s" % got, want[0]), templ))
    except Exception:
        import traceback
        out["machinery"] = traceback.format_exc()[-1500:]
    finally:
        shutil.rmtree(d, ignore_errors=True)
    return out


def main_c15(tier, seed):
    global _XCASES
    import multiprocessing as mp
    run = Run("C15", tier, seed)
    run.assumptions = ["a variable is never given the name of an option of the section that refers to it (configparser resolves ${name} in the referring section first)"]
    try:
        cfg = "Vars_quick" if tier == "quick" else "Vars_thorough"
        res = tlc.run("Vars", cfg + ".cfg", env={"EMIT": "1"}, coverage=True, keep=True, timeout=2400)
        try:
            if res.violated:
                run.machinery("TLC: %s violated\n%s" % (res.violated, res.stdout[-1500:]))
            else:
                run.add_tlc(cfg, res)
                cases = tlc.read_ndjson(os.path.join(res.outdir, "cases.ndjson"))
        finally:
            tlc.cleanup(res)
        r2 = tlc.run("Vars", "Vars_leak.cfg", timeout=600)
        run.notes["unrepaired_model_violates"] = r2.violated
        if r2.violated != "VariablesInert":
            run.machinery("anti-vacuity: the default-section model should violate VariablesInert, TLC says %r" % r2.violated)
        if not run.machinery_errors:
            rnd = random.Random(seed)
            jobs = list(range(len(cases)))
            cap = 2500 if tier == "quick" else 60000
            if len(jobs) > cap:
                small = [i for i in jobs if len(cases[i]["P"]) + len(cases[i]["extra"]) <= 1]
                rest = [i for i in jobs if i not in set(small)]
                jobs = small + rnd.sample(rest, cap - len(small))
                run.exhaustive = False
                run.notes["replay_sampled"] = "%d of %d emitted cases replayed (all with <= 1 variable, seeded sample of the rest)" % (len(jobs), len(cases))
            _XCASES = cases
            with mp.Pool(min(16, os.cpu_count() or 1)) as pool:
                results = pool.map(_vars_one, jobs, chunksize=8)
            for r in results:
                case = cases[r["idx"]]
                if r.get("machinery"):
                    run.machinery("case %d: %s" % (r["idx"], r["machinery"]))
                    continue
                run.evaluations += r["n"]
                run.replayed += 1
                if case["P"] or case["extra"]:
                    run.distinct(json.dumps(case, sort_keys=True))
                if len(run.samples) < 3 and len(case["P"]) >= 2 and r["idx"] % 101 == 7:
                    run.sample(dict(lifted_positions=case["P"], scheme=case["scheme"], unreferenced=case["extra"], templated_file=vars_render(case, "setfl")[0]))
                for clause, route, target, msg, templ in r["bad"][:1]:
                    run.violation(dict(engine="inidoc", clause=clause, route=route, has_variables=bool(case["P"] or case["extra"])),
                                  "[%s] %s: %s" % (clause, route, msg), dict(case=case, templated=templ))
            run.rule = "cases = subsets of 9 literal positions lifted into [Variables] x 4 naming schemes (incl. names of options of other sections, shared variables, ${SECTION:KEY}) x <= 2 unreferenced variables x targets x {API, CLI}; non-trivial = at least one variable"
    except tlc.TLCError as e:
        run.machinery(str(e))
    return run.finish()


# ================================================================================================ C20
D_TAB = {"pair": "LAMMPS", "eam": "setfl", "fs": "setfl_fs", "adp": "eam_adp"}


def dup_base(fam):
    """base model as an ordered list of (section, [(key, value)])"""
    secs = [("Tabulation", [("target", D_TAB[fam]), ("nr", "6"), ("cutoff", "2.5"), ("nrho", "4"), ("cutoff_rho", "3.0")]),
            ("Potential-Form", [("f(r,a)", "a*r + 1"), ("g(r)", "2*r")]),
            ("Table-Form:tf", [("x", "0.0 1.0 2.0 3.0 4.0"), ("y", "0.0 1.0 4.0 9.0 16.0")]),
            ("Table-Form:ta", [("x", "0.0 1.0 2.0 3.0 4.0"), ("y", "1.0 1.0 1.0 1.0 1.0")]),     # sorts between 'Table-Form: tf' and 'Table-Form:tf'
            ("Table-Form:tz", [("xy", "0.0 2.0 1.0 2.0 2.0 2.0 3.0 2.0 4.0 2.0")]),
            ("Pair", [("Al-Al", "as.polynomial 1 2"), ("Fe-Al", "as.polynomial 2 2"), ("Al-Cu", "sum(f 2.0, tf)"), ("Cu-Cu", "as.polynomial 3 1"),
                      ("Cu-Fe", "as.polynomial 4 2"), ("Fe-Fe", "as.polynomial 5 2")])]
    if fam != "pair":
        secs.append(("EAM-Embed", [("Al", "as.polynomial 5 1"), ("Cu", "as.polynomial 6 1"), ("Fe", "as.polynomial 4 1")]))
        if fam == "fs":
            secs.append(("EAM-Density", [("%s->%s" % (a, b), "as.polynomial %d 1" % (7 + 3 * i + j)) for i, a in enumerate(("Al", "Cu", "Fe")) for j, b in enumerate(("Al", "Cu", "Fe"))]))
        else:
            secs.append(("EAM-Density", [("Al", "as.polynomial 7 1"), ("Cu", "as.polynomial 8 1"), ("Fe", "as.polynomial 9 1")]))
    if fam == "adp":
        secs.append(("EAM-ADP-Dipole", [("Al-Al", "as.polynomial 11 1"), ("Al-Cu", "as.polynomial 12 1"), ("Fe-Al", "as.polynomial 17 1"), ("Cu-Cu", "as.polynomial 13 1")]))
        secs.append(("EAM-ADP-Quadrupole", [("Al-Al", "as.polynomial 14 1"), ("Al-Cu", "as.polynomial 15 1"), ("Fe-Al", "as.polynomial 18 1"), ("Cu-Cu", "as.polynomial 16 1")]))
    return secs


def dup_variants(opname, fam):
    """(original key, spelling of the second definition) for every entry of the section the operator can duplicate"""
    fams, sec, orig, spellings, val2 = D_OPS[opname]
    if orig is None:
        return [(None, sp) for sp in spellings]
    keys = [k for n, items in dup_base(fam) if n == sec for k, _ in items]
    out = []
    for k in keys:
        if "->" in k:
            a, b = k.split("->")
            # blanks and tabs, and the other characters str.strip() treats as whitespace (no-break space, form feed, vertical tab)
            forms = {"same": [k], "ws": ["%s -> %s" % (a, b), "%s-> %s" % (a, b), "%s ->%s" % (a, b), "%s\u00a0->%s" % (a, b), "%s->\x0c%s" % (a, b), "%s\x0b->\u2009%s" % (a, b)]}
        elif "-" in k and sec != "Potential-Form":
            a, b = k.split("-")
            forms = {"same": [k], "ws": ["%s - %s" % (a, b), "%s -%s" % (a, b), "%s\t-%s" % (a, b), "%s\u00a0-%s" % (a, b), "%s-\x0c%s" % (a, b)], "rev": ["%s-%s" % (b, a)] if a != b else [],
                     "revws": ["%s - %s" % (b, a), "%s- %s" % (b, a)] if a != b else []}
        elif sec == "Potential-Form":
            return [(orig, sp) for sp in spellings]
        else:
            forms = {"same": [k], "ws": [k[0] + " " + k[1:]]}
        kind = {"pair-same": "same", "pair-reversed": "rev", "pair-ws": "ws", "pair-reversed-ws": "revws", "dipole-reversed": "rev", "dipole-ws": "ws",
                "embed-same": "same", "embed-ws": "ws", "dens-same": "same", "dens-ws": "ws", "fsdens-same": "same", "fsdens-ws": "ws"}[opname]
        out += [(k, sp) for sp in forms.get(kind, [])]
    return out


# the documented built-in forms; as.buck4 is registered by the implementation after the user's forms ("late")
BUILTIN_EARLY = ["bornmayer", "buck", "constant", "coul", "exponential", "exp_spline", "hbnd", "lj", "morse", "polynomial", "sqrt", "tang_toennies", "zbl", "zero"]

# operator -> (families, section, original key, the second spelling(s), second value)
D_OPS = {
    "pair-same": (["pair", "eam"], "Pair", "Al-Cu", ["Al-Cu"], "as.polynomial 99 1"),
    "pair-reversed": (["pair", "fs"], "Pair", "Al-Cu", ["Cu-Al"], "as.polynomial 99 1"),
    "pair-ws": (["pair", "eam"], "Pair", "Al-Cu", ["Al - Cu", "Al -Cu", "Al\t-Cu"], "as.polynomial 99 1"),
    "pair-reversed-ws": (["pair"], "Pair", "Al-Cu", ["Cu - Al", "Cu- Al"], "as.polynomial 99 1"),
    "dipole-reversed": (["adp"], "EAM-ADP-Dipole", "Al-Cu", ["Cu-Al"], "as.polynomial 99 1"),
    "dipole-ws": (["adp"], "EAM-ADP-Quadrupole", "Al-Cu", ["Al - Cu"], "as.polynomial 99 1"),
    "embed-same": (["eam", "fs"], "EAM-Embed", "Cu", ["Cu"], "as.polynomial 99 1"),
    "embed-ws": (["eam", "fs"], "EAM-Embed", "Cu", ["C u"], "as.polynomial 99 1"),
    "dens-same": (["eam", "adp"], "EAM-Density", "Al", ["Al"], "as.polynomial 99 1"),
    "dens-ws": (["eam"], "EAM-Density", "Al", ["A l"], "as.polynomial 99 1"),
    "fsdens-same": (["fs"], "EAM-Density", "Al->Cu", ["Al->Cu"], "as.polynomial 99 1"),
    "fsdens-ws": (["fs"], "EAM-Density", "Al->Cu", ["Al -> Cu", "Al-> Cu", "Al ->Cu"], "as.polynomial 99 1"),
    "form-same": (["pair"], "Potential-Form", "f(r,a)", ["f(r,a)"], "a*r + 99"),
    "form-ws": (["pair", "eam"], "Potential-Form", "f(r,a)", ["f(r, a)", "f (r,a)", "f( r,a )"], "a*r + 99"),
    "form-other-arity": (["pair"], "Potential-Form", "f(r,a)", ["f(r,a,b)", "f(r,b)", "f(r)"], "r + 99"),
    "table-same": (["pair"], "Table-Form:tf", None, ["Table-Form:tf"], None),
    "table-ws": (["pair", "eam"], "Table-Form:tf", None, ["Table-Form: tf", "Table-Form:tf ", "Table-Form:  tf  "], None),
    "table-vs-formula": (["pair", "eam"], "Table-Form:tf", None, ["Table-Form:f", "Table-Form:g"], None),
    "table-vs-builtin": (["pair"], "Table-Form:tf", None, ["Table-Form:as.%s" % n for n in BUILTIN_EARLY], None),
    "table-vs-late-builtin": (["pair", "eam"], "Table-Form:tf", None, ["Table-Form:as.buck4"], None),
    "form-vs-builtin": (["pair"], "Potential-Form", "f(r,a)", ["as.%s(r,a)" % n for n in BUILTIN_EARLY] + ["as.zero(r)", "as.polynomial(r,a,b)"], "r + 99"),
    "form-vs-late-builtin": (["pair", "eam"], "Potential-Form", "f(r,a)", ["as.buck4(r,a)", "as.buck4(r)", "as.buck4(r,A,rho,C,r_detach,r_min,r_attach)"], "r + 99"),
    "section-twice": (["pair", "eam"], "Pair", None, ["Pair"], None),
    "section-header-ws": (["pair", "eam"], "Pair", None, ["Pair ", " Pair", "Pair\t"], None),
    "table-header-ws": (["pair", "eam"], "Table-Form:tf", None, ["Table-Form :tf", "Table-Form : tf", " Table-Form:tf", "Table-Form\t:tf"], None),
}


def dup_render(fam, opname, spelling, position, orig=None):
    fams, sec, orig0, _, val2 = D_OPS[opname]
    orig = orig if orig is not None else orig0
    secs = [(n, list(items)) for n, items in dup_base(fam)]
    if orig is not None:
        for n, items in secs:
            if n == sec:
                i = [k for k, _ in items].index(orig)
                at = i + 1 if position == "adjacent" else (0 if position == "before" else len(items))
                items.insert(at, (spelling, val2))
    else:
        if opname in ("section-twice", "section-header-ws"):
            # the second [Pair] section: one interaction of the first again, and one of its own
            new = (spelling, [("Fe-Fe", "as.polynomial 99 1"), ("O-O", "as.polynomial 98 1")])
        else:
            new = (spelling, [("x", "0.0 1.0 2.0 3.0 4.0"), ("y", "0.0 2.0 8.0 18.0 32.0")])
        idx = [n for n, _ in secs].index(sec)
        at = idx + 1 if position == "adjacent" else (0 if position == "before" else len(secs))
        secs.insert(at, new)
    out = []
    for n, items in secs:
        out.append("[%s]" % n)
        out += ["%s : %s" % kv if n != "Potential-Form" else "%s = %s" % kv for kv in items]
        out.append("")
    return "\n".join(out) + "\n"


def main_c20(tier, seed):
    run = Run("C20", tier, seed)
    run.assumptions = ["whitespace variants are spellings with blanks or tabs inside the key / section name (leading whitespace starts a continuation line in the INI syntax and is not a key spelling)"]
    try:
        res = tlc.run("Dups", "Dups_fixed.cfg", env={"EMIT": "1"}, coverage=True, keep=True, timeout=600)
        try:
            if res.violated:
                run.machinery("TLC: %s violated\n%s" % (res.violated, res.stdout[-1500:]))
            else:
                run.add_tlc("Dups_fixed", res)
                ops = tlc.read_ndjson(os.path.join(res.outdir, "cases.ndjson"))
        finally:
            tlc.cleanup(res)
        for cfg in ("Dups_code.cfg", "Dups_late.cfg", "Dups_addraw.cfg", "Dups_addmerged.cfg", "Dups_headerblanks.cfg"):
            r2 = tlc.run("Dups", cfg, timeout=600)
            run.notes["unrepaired_model_violates_" + cfg[:-4]] = r2.violated
            if r2.violated != "NoDuplicateSurvives":
                run.machinery("anti-vacuity: the unrepaired reader model %s should violate NoDuplicateSurvives, TLC says %r" % (cfg, r2.violated))
        # IniDoc's reader (abstract files with duplicated raw / normalised keys and sections)
        res3 = tlc.run("IniDoc", "IniDoc_dups.cfg", env={"EMIT": "1"}, coverage=True, keep=True, timeout=900)
        try:
            if res3.violated:
                run.machinery("TLC: %s violated on IniDoc_dups\n%s" % (res3.violated, res3.stdout[-1500:]))
            else:
                run.add_tlc("IniDoc_dups", res3)
                dupfiles = [c for c in tlc.read_ndjson(os.path.join(res3.outdir, "cases.ndjson")) if c["readRejects"]]
        finally:
            tlc.cleanup(res3)
        if not run.machinery_errors:
            d = tempfile.mkdtemp(prefix="verif-dups-")
            try:
                # the well-formed base models must be accepted (so that a rejection is due to the duplicate)
                for fam in D_TAB:
                    text = dup_render(fam, "pair-same", "Al-Cu", "adjacent").replace("Al-Cu : as.polynomial 99 1\n", "")
                    got = tabulate_text(text)
                    run.evaluations += 1
                    if got[0] != "ok":
                        run.machinery("base model %s is not accepted: %s" % (fam, got))
                for o in ops:
                    fams, sec, orig, spellings, val2 = D_OPS[o["op"]]
                    for fam in fams:
                        base_text = dup_render(fam, "pair-same", "Al-Cu", "adjacent").replace("Al-Cu : as.polynomial 99 1\n", "")
                        for orig_k, spelling in dup_variants(o["op"], fam):
                            for position in (("adjacent", "end", "before") if o["route"] == "file" else ("added",)):
                                text = dup_render(fam, o["op"], spelling, position, orig_k) if o["route"] == "file" else base_text
                                first = None
                                if o["route"] == "add2":
                                    # neither definition is in the file: take the original entry out and give it as an addition too
                                    k0 = orig_k if orig_k is not None else orig
                                    v0 = [v for n_, items in dup_base(fam) if n_ == sec for k_, v in items if k_ == k0][0]
                                    line = "%s %s %s\n" % (k0, "=" if sec == "Potential-Form" else ":", v0)
                                    if line not in text:
                                        run.machinery("add2 rendering: %r not found in the base file" % line)
                                        continue
                                    text = text.replace(line, "", 1)
                                    first = (sec, k0, v0)
                                for route in ("api", "cli"):
                                    if o["route"] == "file":
                                        got = tabulate_text(text) if route == "api" else tabulate_cli(text, [], d)
                                    elif sec.startswith("Table-Form"):
                                        # the addition creates the section: one 'xy' item makes a whole table form
                                        xy = "0.0 0.0 1.0 2.0 2.0 8.0 3.0 18.0 4.0 32.0"
                                        got = tabulate_api_raw(text, [ConfigParserOverrideTuple(spelling, "xy", xy)]) if route == "api" else \
                                            tabulate_cli(text, ["-a", "%s:xy=%s" % (spelling, xy)], d)
                                    elif route == "api":
                                        got = tabulate_api_raw(text, ([ConfigParserOverrideTuple(*first)] if first else []) + [ConfigParserOverrideTuple(sec, spelling, val2)])
                                    else:
                                        got = tabulate_cli(text, (["-a", "%s:%s=%s" % first] if first else []) + ["-a", "%s:%s=%s" % (sec, spelling, val2)], d)
                                    run.evaluations += 1
                                    run.replayed += 1
                                    run.distinct(json.dumps([o["op"], o["route"], fam, orig_k, spelling, position]))
                                    if len(run.samples) < 3 and position == "end" and route == "api" and o["op"] in ("pair-reversed-ws", "table-vs-formula", "fsdens-ws"):
                                        run.sample(dict(operator=o["op"], family=fam, second_spelling=spelling, position=position, file=text, outcome=got[0]))
                                    if got[0] != "config":
                                        clause = "duplicate-accepted" if got[0] == "ok" else "internal-exception"
                                        run.violation(dict(engine="inidoc", clause=clause, op=o["op"], route=route, given=o["route"]),
                                                      "[%s] %s via %s: second definition %r (%s, %s model): %s" % (clause, o["op"], route, spelling, position, fam,
                                                                                                        "silently accepted" if got[0] == "ok" else got[1]),
                                                      dict(op=o, family=fam, spelling=spelling, position=position, file=text))
                global TH
                for c in dupfiles:
                    for th in THEMES:
                        TH = th
                        text = render_file(c["file"])
                        got = tabulate_text(text)
                        run.evaluations += 1
                        run.replayed += 1
                        if got[0] != "config":
                            run.violation(dict(engine="inidoc", clause="duplicate-accepted" if got[0] == "ok" else "internal-exception", op="abstract-" + th.name, route="api"),
                                          "[duplicate] file with a key / section defined twice is not refused (%s): %s" % (got[0], text[:300]), dict(case=c, file=text))
            finally:
                shutil.rmtree(d, ignore_errors=True)
            # every function is bound to the one definition the user can see for it: name resolution over custom and table labels
            # (bare names of standard forms, labels that differ in case, reserved labels) in three contexts of use (spec/Names.tla)
            from engines import names
            names.check(run, tier, seed, engine="inidoc")
            run.rule = "cases = 23 duplication operators x {written in the file, given by --add-item / additional=, both definitions given by --add-item} (TLC) x families x spellings of the second definition x 3 positions x {API, CLI}; non-trivial = every case (each holds a genuine second definition with a different value); distinct by (operator, family, spelling, position)"
    except tlc.TLCError as e:
        run.machinery(str(e))
    return run.finish()


def main(prop, tier, seed):
    if prop == "C20":
        return main_c20(tier, seed)
    if prop == "C15":
        return main_c15(tier, seed)
    if prop == "C14":
        return main_c14(tier, seed)
    if prop == "C13":
        return main_c13(tier, seed)
    raise SystemExit(2)
