"""C08: multi-range selection.  (M) TLC on spec/MultiRange.tla (transcription of the sorted setter and _range_search
against the declarative Allowed); (R) every listing of the bound replayed on Multi_Range_Potential_Form* through the
Python API and through potable text, every query lattice point, several evaluation orders on the same object."""
import io, os, random, json
from fractions import Fraction as F

from lib import boot, tlc
from lib.harness import Run

P = boot.boot()
from atsim.potentials import Multi_Range_Defn, create_Multi_Range_Potential_Form, Potential    # noqa: E402
from atsim.potentials.config import Configuration                                   # noqa: E402

SHIFT = 1000


class Sub(object):
    """range-identifying sub-potential p_id(x) = 100 id + (id+1) x + (id+2) x^2 ; analytic derivatives optional"""

    def __init__(self, rid, analytic):
        self.rid = rid
        self.c = (100.0 * rid, float(rid + 1), float(rid + 2))
        if analytic:
            self.deriv = lambda x: self.c[1] + 2 * self.c[2] * x
            self.deriv2 = lambda x: 2 * self.c[2]

    def __call__(self, x):
        return self.c[0] + self.c[1] * x + self.c[2] * x * x


def val(rid, x):
    return 100.0 * rid + (rid + 1) * x + (rid + 2) * x * x


def d1(rid, x):
    return (rid + 1) + 2 * (rid + 2) * x


def d2(rid, x):
    return 2.0 * (rid + 2)


def identify(n, x, v):
    if v == 0.0:
        return 0
    for rid in range(1, n + 1):
        if abs(val(rid, x) - v) < 1e-9:
            return rid
    return None


def xs_of(case):
    return [(e["r"] - SHIFT) / 2.0 for e in case["exp"]]


def points_of(case):
    """concrete separations for the abstract query lattice: an even abstract point IS a (possible) start; an odd one stands for
    every separation strictly between two neighbouring lattice starts - the midpoint, the floating point numbers next to
    either end, and ends moved by 1e-12 and by a relative 1e-10 (no start lies between those and the end they are next to)"""
    import math
    pts = []
    for e in case["exp"]:
        q = e["r"] - SHIFT
        x = q / 2.0
        if q % 2 == 0:
            pts.append((x, e, "at"))
            continue
        lo, hi = x - 0.5, x + 0.5
        reps = [(x, "between")]
        reps += [(math.nextafter(lo, math.inf), "next-above"), (lo + 1e-12, "next-above"), (lo + abs(lo) * 1e-10 if lo else 1e-300, "next-above")]
        reps += [(math.nextafter(hi, -math.inf), "next-below"), (hi - 1e-12, "next-below"), (hi - abs(hi) * 1e-10 if hi else -1e-300, "next-below")]
        for v, kind in reps:
            pts.append((v, e, kind))
    return pts


def build_api(case, flavour):
    defs = []
    for j, (ty, s) in enumerate(case["listing"]):
        rid = j + 1
        analytic = flavour == "analytic" or (flavour == "mixed" and rid % 2 == 1)
        defs.append(Multi_Range_Defn(ty, s / 2.0, Sub(rid, analytic)))
    f = create_Multi_Range_Potential_Form(*defs)
    # range definitions are values: other potentials are built from the same definition objects afterwards (every second one with
    # a definition of their own in between, and all of them in reverse); the first potential is what it was
    create_Multi_Range_Potential_Form(*(defs[::2] + [Multi_Range_Defn(">", 1.25, Sub(9, True))]))
    create_Multi_Range_Potential_Form(*defs[::-1])
    return f


def render_ini(case, custom=False, twin=0):
    """custom: every range is a [Potential-Form] formula - none of the ranges offers an analytic derivative.
    twin: the file also defines A-A (1: before, 2: after A-B) with the same forms, parameters and starts but every range marker
    flipped ('>' <-> '>='): what a range selects belongs to ITS definition, not to another one that looks alike"""
    def listing(flip):
        parts = []
        for j, (ty, s) in enumerate(case["listing"]):
            rid = j + 1
            if flip:
                ty = ">=" if ty == ">" else ">"
            marker = "%s%s " % (ty, repr(s / 2.0))
            if j == 0 and ty == ">" and s == 0:
                marker = ""      # a potential written without a leading range marker acts for r > 0 only
            parts.append("%s%s %d %d %d" % (marker, "quad" if custom else "as.polynomial", 100 * rid, rid + 1, rid + 2))
        return " ".join(parts)
    lines = ["A-B : %s" % listing(False)]
    if twin == 1:
        lines.insert(0, "A-A : %s" % listing(True))
    elif twin == 2:
        lines.append("A-A : %s" % listing(True))
    return "[Tabulation]\ntarget : LAMMPS\nnr : 5\ncutoff : 4.0\n\n[Pair]\n%s\n" % "\n".join(lines) + (
        "\n[Potential-Form]\nquad(r, a, b, c) = a + b*r + c*r^2\n" if custom else "")


def check_object(case, f, route, flavour, bad, rnd):
    """query the same object in several orders; returns {x: selected id}"""
    n = len(case["listing"])
    pts = points_of(case)
    xs = [p[0] for p in pts]
    exp = {p[0]: p[1] for p in pts}
    orders = [list(xs), list(reversed(xs)), rnd.sample(xs, len(xs)), rnd.sample(xs, len(xs))]
    chosen = {}
    nq = 0
    for oi, order in enumerate(orders):
        for x in order:
            nq += 1
            v = f(x)
            rid = identify(n, x, v)
            if rid is None:
                bad.append(("value-from-no-range", "r=%s: value %r is not the value of any listed range" % (x, v), route))
                return chosen, nq
            allowed = exp[x]["allowed"]
            if rid not in allowed:
                bad.append(("selects-allowed", "r=%s: range #%d %s selected, the statement allows %s (listing %s, %s order)" % (
                    x, rid, case["listing"][rid - 1] if rid else "default", allowed, case["listing"], ["ascending", "descending", "shuffled", "shuffled"][oi]), route))
                return chosen, nq
            if x in chosen and chosen[x] != rid:
                bad.append(("history-dependent", "r=%s: range #%d selected, but #%d when the same object was queried in another order" % (x, rid, chosen[x]), route))
                return chosen, nq
            chosen[x] = rid
            # derivatives from the same range (away from being exactly on a boundary of a numeric-derivative range)
            for name, fn, tol in (("deriv", d1, 1e-4), ("deriv2", d2, 1e-2)):
                if route == "potable" and x == 0.0:
                    continue     # as.polynomial's derivative at exactly r = 0 is C07's subject (finding F18), not range selection
                if hasattr(f, name):
                    dv = getattr(f, name)(x)
                    want = 0.0 if rid == 0 else fn(rid, x)
                    analytic = rid == 0 or flavour == "analytic" or (flavour == "mixed" and rid % 2 == 1) or route == "potable"
                    if not analytic and name == "deriv2":
                        continue    # second finite differences of a numerically differentiated range: C07's tolerance question
                    # a range without an analytic derivative is differentiated numerically ON ITS OWN (it is defined on both
                    # sides of its start), so the slope of the selected range is expected on and next to the boundaries too
                    if abs(dv - want) > (1e-9 if analytic else tol) * max(1.0, abs(want)):
                        bad.append(("derivative-from-other-range", "r=%s: value from range #%d but %s=%r (that range gives %r)" % (x, rid, name, dv, want), route))
                        return chosen, nq
    return chosen, nq


def check_force(case, pot, sel, route, bad, tol, known):
    """Potential.force = -derivative of the range selected at r, whether or not the composite offers .deriv: on a start, and
    next to one, the slope is that of the range that gives the value (a range is defined on both sides of its start)"""
    for x, e, kind in points_of(case):
        rid = sel.get(x)
        if rid is None or (x == 0.0 and route == "potable"):
            continue
        want = 0.0 if rid == 0 else -d1(rid, x)
        got = pot.force(x)
        if abs(got - want) > tol * max(1.0, abs(want)):
            offers = hasattr(pot.potentialFunction, "deriv")
            near = any(abs(x - s / 2.0) <= 0.5e-6 for ty, s in case["listing"])     # within half a finite-difference step of a start
            item = ("derivative-from-other-range", "r=%s: energy from range #%d %s but force=%r (minus the slope of that range is %r)%s" % (
                x, rid, case["listing"][rid - 1] if rid else "default", got, want,
                "" if offers else "; the composite offers no .deriv, Potential.force differentiates it as a whole"), route,
                dict(composite_offers_deriv=offers, within_half_step_of_a_start=near, consumer="Potential.force"))
            if offers or not near:
                bad.append(item)
                return
            if not known:          # the class of finding F30: reported once per case, the other separations are still examined
                known.append(item)


_CASES = []
_SEED = 0


def _one(idx):
    case = _CASES[idx]
    rnd = random.Random(_SEED * 7919 + idx)
    bad = []
    known = []
    out = dict(idx=idx, bad=bad, known=known, queries=0, sel={})
    try:
        flav = ["analytic", "mixed", "numeric"][idx % 3]
        f = build_api(case, flav)
        sel, nq = check_object(case, f, "api", flav, bad, rnd)
        out["queries"] += nq
        out["sel"] = {repr(x): sel[x] for x in sel}
        if not bad:
            check_force(case, Potential("A", "B", f), sel, "api", bad, 1e-9 if flav == "analytic" else 1e-4, known)
        if len(case["listing"]) <= 3 or idx % 5 == 0:
            text = render_ini(case, twin=idx % 3)
            tab = Configuration().read(io.StringIO(text))
            pot = [p for p in tab.potentials if (p.speciesA, p.speciesB) == ("A", "B")][0]
            g = pot.potentialFunction
            sel2, nq = check_object(case, g, "potable", "analytic", bad, rnd)
            out["queries"] += nq
            for x in sel2:
                if x in sel and sel[x] != sel2[x] and case["exp"][0]["nodup"]:
                    bad.append(("api-vs-potable", "r=%s: Python API selects #%d, potable text selects #%d" % (x, sel[x], sel2[x]), "potable"))
                    break
            # Potential.force = -deriv of the selected range
            for x in xs_of(case):
                rid = sel2.get(x)
                if rid is None or x == 0.0:
                    continue
                want = 0.0 if rid == 0 else -d1(rid, x)
                if abs(pot.force(x) - want) > 1e-9 * max(1.0, abs(want)):
                    bad.append(("derivative-from-other-range", "r=%s: energy from range #%d but force=%r (that range gives %r)" % (x, rid, pot.force(x), want), "potable"))
                    break
            if not bad:
                # the listing as the only argument of a modifier written WITHOUT a leading marker: the modifier acts for r > 0 only,
                # there it is the listing's own function
                lst = text.split("A-B : ", 1)[1].split("\n", 1)[0]
                inner = lst if lst.lstrip().startswith(">") else ">0 " + lst
                wtext = "[Tabulation]\ntarget : LAMMPS\nnr : 5\ncutoff : 4.0\n\n[Pair]\nA-B : %s\nA-C : %s(%s, as.zero)\n" % (lst, ("sum", "sum", "pow")[idx % 3] if False else "sum", inner)
                wtab = Configuration().read(io.StringIO(wtext))
                wp = {(p.speciesA, p.speciesB): p.potentialFunction for p in wtab.potentials}
                for x in xs_of(case):
                    out["queries"] += 1
                    want = wp[("A", "B")](x) if x > 0 else 0.0
                    got = wp[("A", "C")](x)
                    if abs(got - want) > 1e-9 * max(1.0, abs(want)):
                        bad.append(("default-range", "r=%s: 'sum(%s, as.zero)' written without a leading range marker gives %r; it acts for r > 0 only, where it is the function of its argument (%r)" % (
                            x, inner, got, want), "potable"))
                        text = wtext
                        break
            if not bad and idx % 2 == 0:
                # the same listing as embedding and as density function of an EAM model: what a range marker means (and that a
                # definition without a leading marker acts above 0 only) does not depend on the section
                lst = text.split("A-B : ", 1)[1].split("\n", 1)[0]
                etext = ("[Tabulation]\ntarget : setfl\nnr : 5\ncutoff : 4.0\nnrho : 5\ncutoff_rho : 4.0\n\n[Pair]\nAl-Al : as.zero\n\n"
                         "[EAM-Embed]\nAl : %s\nCu : as.zero\n\n[EAM-Density]\nCu : %s\nAl : as.zero\n" % (lst, lst))
                etab = Configuration().read(io.StringIO(etext))
                byel = {e.species: e for e in etab.eam_potentials}
                for what, fn in (("[EAM-Embed]", byel["Al"].embeddingFunction), ("[EAM-Density]", byel["Cu"].electronDensityFunction)):
                    sel4, nq = check_object(case, fn, "potable", "analytic", bad, rnd)
                    out["queries"] += nq
                    if bad:
                        bad[-1] = (bad[-1][0], "in %s: %s" % (what, bad[-1][1]), bad[-1][2])
                        text = etext
                        break
            if not bad:       # the same listing with custom formulas: no range offers a derivative
                text = render_ini(case, custom=True, twin=(idx + 1) % 3)
                pot = [p for p in Configuration().read(io.StringIO(text)).potentials if (p.speciesA, p.speciesB) == ("A", "B")][0]
                sel3, nq = check_object(case, pot.potentialFunction, "potable-formula", "numeric", bad, rnd)
                out["queries"] += nq
                if not bad:
                    check_force(case, pot, sel3, "potable-formula", bad, 1e-4, known)
            if bad:
                out["ini"] = text
    except Exception:
        import traceback
        out["machinery"] = traceback.format_exc()[-1500:]
    return out


def trace_validate(run, tier, seed):
    """(T) larger listings than TLC enumerates: record (query, answering range) on real objects, TLC validates against MultiRange"""
    rnd = random.Random(seed * 17 + 3)
    traces = []
    for t in range(60 if tier == "quick" else 600):
        n = rnd.randint(4, 9)
        listing = [[rnd.choice([">", ">="]), 2 * rnd.randint(0, 8)] for _ in range(n)]
        f = build_api(dict(listing=listing), ["analytic", "mixed", "numeric"][t % 3])
        ev = []
        for q in range(rnd.randint(5, 14)):
            x2 = rnd.randint(-1, 18)
            v = f(x2 / 2.0)
            # every listed range whose sub-potential gives this value (identical duplicates give the same value only if same id)
            ids = [0] if v == 0.0 else [rid for rid in range(1, n + 1) if abs(val(rid, x2 / 2.0) - v) < 1e-9]
            ev.append(dict(r=x2 + 1000, ids=ids or [-1]))
        traces.append(dict(listing=listing, ev=ev, canary=False))
    can = json.loads(json.dumps(traces[0]))
    can["canary"] = True
    can["ev"][-1]["ids"] = [len(can["listing"]) + 5]
    traces.append(can)
    res, rep = tlc.batch_validate("MultiRangeTrace", "MultiRangeTrace.cfg", traces)
    run.add_tlc("MultiRangeTrace(%d traces)" % len(traces), res, exhaustive=False)
    for t, (reached, total, complete) in zip(traces, rep):
        if t["canary"]:
            if complete == 1:
                run.machinery("trace validation is vacuous: the corrupted canary trace was accepted")
            continue
        run.traces += 1
        run.distinct("trace:" + json.dumps(t["listing"]))
        if complete != 1:
            run.violation(dict(engine="multirange", clause="trace-rejected", route="api"),
                          "[trace-rejected] listing %s: matched %d of %d recorded queries; next: %s" % (t["listing"], reached - 1, total, t["ev"][reached - 1] if reached - 1 < total else None), dict(trace=t))
    run.sample(dict(trace_listing=traces[0]["listing"], events=traces[0]["ev"][:4], validated_by="TLC MultiRangeTrace"))


def main(prop, tier, seed):
    global _CASES, _SEED
    import multiprocessing as mp
    run = Run("C08", tier, seed)
    run.assumptions = ["where an inclusive and an exclusive range share a start, either may be selected strictly above it (DESIGN C08); listings with two identical (marker, start) ranges are excluded from order-independence",
                       "sub-potentials are range-identifying quadratics; starts and queries lie on a half-integer lattice (exact in binary floating point)"]
    try:
        cfgs = ["MultiRange_quick", "MultiRange_history"] if tier == "quick" else ["MultiRange_thorough", "MultiRange_history"]
        cases = []
        for cfg in cfgs:
            res = tlc.run("MultiRange", cfg + ".cfg", env={"EMIT": "1"}, coverage=True, keep=True, timeout=1500)
            try:
                if res.violated:
                    run.machinery("TLC: %s violated on %s\n%s" % (res.violated, cfg, res.stdout[-1500:]))
                    continue
                run.add_tlc(cfg, res)
                if "history" not in cfg:
                    cases = tlc.read_ndjson(os.path.join(res.outdir, "cases.ndjson"))
            finally:
                tlc.cleanup(res)
        # the statement's clause on derivatives: violated by the model of the tree as it is (finding F30), held by the design
        r2 = tlc.run("MultiRange", "MultiRange_numacross.cfg", timeout=600)
        if r2.violated != "DerivFromSelected":
            run.machinery("MultiRange_numacross.cfg (the tree as it is, F30) should violate DerivFromSelected, TLC says %r" % (r2.violated,))
        r3 = tlc.run("MultiRange", "MultiRange_design.cfg", timeout=600)
        if r3.violated:
            run.machinery("MultiRange_design.cfg: %s violated" % r3.violated)
        if not run.machinery_errors:
            _CASES, _SEED = cases, seed
            with mp.Pool(min(16, os.cpu_count() or 1)) as pool:
                results = pool.map(_one, range(len(cases)), chunksize=max(1, len(cases) // 64))
            groups = {}
            for r in results:
                case = cases[r["idx"]]
                if r.get("machinery"):
                    run.machinery("case %d: %s" % (r["idx"], r["machinery"]))
                    continue
                run.evaluations += r["queries"]
                run.replayed += 1
                if len(case["listing"]) >= 2:
                    run.distinct(json.dumps(case["listing"]))
                if len(run.samples) < 4 and len(case["listing"]) >= 3 and r["idx"] % 97 == 5:
                    run.sample(dict(listing=case["listing"], queries=xs_of(case), selected=r["sel"]))
                for b in r["bad"][:1] + r["known"][:1]:
                    clause, msg, route = b[:3]
                    sig = dict(engine="multirange", clause=clause, route=route)
                    sig.update(b[3] if len(b) > 3 else {})
                    run.violation(sig, "[%s] %s" % (clause, msg), dict(case=case, ini=r.get("ini")))
                # listing-order independence: all listings of one multiset of ranges select the same (marker, start)
                if case["exp"][0]["nodup"] and not r["bad"]:
                    key = json.dumps(sorted(case["listing"]))
                    sel = {x: (case["listing"][rid - 1] if rid else None) for x, rid in r["sel"].items()}
                    if key in groups:
                        other, ocase = groups[key]
                        for x in sel:
                            if x in other and other[x] != sel[x]:
                                run.violation(dict(engine="multirange", clause="order-dependent", route="api"),
                                              "[order-dependent] r=%s: listing %s selects %s but listing %s selects %s" % (
                                                  x, case["listing"], sel[x], ocase["listing"], other[x]), dict(case=case, other=ocase))
                                break
                    else:
                        groups[key] = (sel, case)
            if not run.samples and cases:
                run.sample(dict(listing=cases[0]["listing"]))
            trace_validate(run, tier, seed)
            run.rule = "cases = every listing of 1..N ranges over {>,>=} x 4 starts (TLC) x 11 query points x 4 evaluation orders on one object; non-trivial = listing of >= 2 ranges; distinct by listing"
    except tlc.TLCError as e:
        run.machinery(str(e))
    return run.finish()
