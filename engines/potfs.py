"""spec/PotableFS.tla + PotableFSTrace.tla: sessions of the real potable command line in one directory.

(M) TLC explores every session of the bound on the model (with the unrepaired NoTruncate / Streaming models as vacuity guards);
(T) random sessions of the real main() - in-process and, for a sample, as real processes - are recorded as one event per run with the
    state of every file of the directory afterwards and validated by TLC against the specification.
Serves C17 (a failed tabulation leaves the named file empty; nothing else changes), C12 (the file written is a function of the
options, not of what ran or what was there before), C13 / C14 (file + edits + filter = the hand-edited file)."""
import itertools, json, os, random, shutil, subprocess, sys, tempfile

from lib import tlc, boot
from engines.layout import run_cli

PAIRS = {"AlAl": ("Al-Al", "as.buck 1000.0 0.3 32.0"), "AlCu": ("Al-Cu", "as.buck 1100.0 0.31 10.0"), "CuCu": ("Cu-Cu", "as.buck 1200.0 0.29 5.0")}
KIND_TEXT = {"zero": "as.zero", "unknown": "as.nosuchform 1 2", "late": "bad 1.2"}
FORM = "\n[Potential-Form]\nbad(r, c) = sqrt(c - r)\n"
INPUTS = {"v1": dict(target="LAMMPS", nr=5, pairs=dict(AlAl="good", AlCu="good", CuCu="good")),
          "v2": dict(target="GULP", nr=7, pairs=dict(AlAl="good", AlCu="none", CuCu="good")),
          "early": dict(target="LAMMPS", nr=5, pairs=dict(AlAl="good", AlCu="good", CuCu="unknown")),
          "late": dict(target="LAMMPS", nr=5, pairs=dict(AlAl="good", AlCu="good", CuCu="late")),
          "rows": dict(target="DL_POLY", nr=5, pairs=dict(AlAl="good", AlCu="good", CuCu="good"))}
EDITS = {"nr7": ["-e", "Tabulation:nr=7"], "nr8": ["-e", "Tabulation:nr=8"], "gulp": ["-e", "Tabulation:target=GULP"],
         "dlpoly": ["-e", "Tabulation:target = DL_POLY"], "lammps": ["-e", "Tabulation : target=LAMMPS"], "fixCu": ["-e", "Pair:Cu - Cu=as.zero"],
         "rmCu": ["-r", "Pair:Cu-Cu"], "addAlCu": ["-a", "Pair:Al-Cu=as.zero"], "missing": ["-e", "Pair:Fe-Fe=as.zero"]}
FILTERS = {"none": [], "incCu": ["--include-species", "Cu"], "excCu": ["--exclude-species", "Cu"]}
FOREIGN = ("# notes of the user, longer than any table of the session\n" + "x" * 79 + "\n") * 80
NULLDOC = dict(target="", nr=0, pairs=dict(AlAl="", AlCu="", CuCu=""))


def render(doc):
    """the file a user would write by hand for an abstract document"""
    lines = ["[Tabulation]", "target : %s" % doc["target"], "nr : %d" % doc["nr"], "cutoff : 2.0", "", "[Pair]"]
    # an item given by --add-item stands at the end of its section, as a line appended by hand (IniDoc.tla: Add); the only
    # added item of this alphabet is Al-Cu : as.zero
    order = ("AlAl", "CuCu", "AlCu") if doc["pairs"]["AlCu"] == "zero" else ("AlAl", "AlCu", "CuCu")
    for k in order:
        kind = doc["pairs"][k]
        if kind != "none":
            lines.append("%s : %s" % (PAIRS[k][0], PAIRS[k][1] if kind == "good" else KIND_TEXT[kind]))
    return "\n".join(lines) + "\n" + FORM


def valid_docs():
    for target, nr in itertools.product(("LAMMPS", "GULP", "DL_POLY"), (5, 7, 8)):
        if target == "DL_POLY" and nr % 4:
            continue
        for kinds in itertools.product(("good", "zero", "none"), repeat=3):
            if all(k == "none" for k in kinds):
                continue
            yield dict(target=target, nr=nr, pairs=dict(zip(("AlAl", "AlCu", "CuCu"), kinds)))


def reference_tables(run, clause_engine="layout"):
    """bytes of the table of every valid document, each tabulated from its hand-written file in a directory of its own"""
    ref = {}
    d = tempfile.mkdtemp(prefix="verif-potfs-ref-")
    try:
        for n, doc in enumerate(valid_docs()):
            sub = os.path.join(d, str(n))
            os.mkdir(sub)
            inp, outp = os.path.join(sub, "model.ini"), os.path.join(sub, "table")
            with open(inp, "w") as f:
                f.write(render(doc))
            status, so, se = run_cli([inp, outp])
            run.evaluations += 1
            if status != 0 or not os.path.exists(outp):
                run.machinery("potfs: the hand-written file of %s is not tabulated (status %s: %s)" % (json.dumps(doc), status, se.strip().splitlines()[-1:] or ""))
                return None
            data = open(outp, "rb").read()
            if not data or data in ref:
                # documents that differ in target, row count or in what an entry is have different tables: equal bytes mean that
                # one of the two tabulations (made one after the other in this process) did not tabulate its own document
                run.violation(dict(engine=clause_engine, clause="session-rejected", route="cli", target="session", family="session"),
                              "[reference-tables] the hand-written file of %s, tabulated in a directory of its own after %d other documents in this process, gives %s" % (
                                  json.dumps(doc, sort_keys=True), n, "an empty table" if not data else "the very bytes of the table of %s" % json.dumps(ref[data], sort_keys=True)),
                              dict(doc=doc, text=render(doc)))
                return None
            ref[data] = doc
    finally:
        shutil.rmtree(d, ignore_errors=True)
    return ref


def apply_edit(doc, e):
    d = json.loads(json.dumps(doc))
    if e in ("nr7", "nr8"):
        d["nr"] = int(e[2:])
    elif e in ("gulp", "dlpoly", "lammps"):
        d["target"] = {"gulp": "GULP", "dlpoly": "DL_POLY", "lammps": "LAMMPS"}[e]
    elif e in ("fixCu", "rmCu"):
        if d["pairs"]["CuCu"] == "none":
            return None
        d["pairs"]["CuCu"] = "zero" if e == "fixCu" else "none"
    elif e == "addAlCu":
        if d["pairs"]["AlCu"] != "none":
            return None
        d["pairs"]["AlCu"] = "zero"
    else:
        return None
    return d


def sensible(inv):
    """the assumptions of PotableFS!Sensible (driver side: only such invocations are generated)"""
    ed = inv["ed"]
    if len(ed) == 2 and (ed[0] == ed[1] or set(ed) == {"fixCu", "rmCu"}):
        return False
    d = INPUTS[inv["i"]]
    for e in ed:
        d = apply_edit(d, e)
        if d is None:
            return True
    keep = {"none": lambda k: True, "incCu": lambda k: k == "CuCu", "excCu": lambda k: k == "AlAl"}[inv["f"]]
    return any(d["pairs"][k] != "none" and keep(k) for k in d["pairs"])


def classify(path, ref):
    if not os.path.exists(path):
        return dict(k="absent", doc=NULLDOC)
    data = open(path, "rb").read()
    if not data:
        return dict(k="empty", doc=NULLDOC)
    if data == FOREIGN.encode():
        return dict(k="foreign", doc=NULLDOC)
    if data in ref:
        return dict(k="table", doc=ref[data])
    return dict(k="unknown", doc=NULLDOC)


def snapshot(d, ref, inputs_text):
    names = set(os.listdir(d))
    fs = [classify(os.path.join(d, "out%d" % o), ref) for o in (1, 2, 3)]
    expected = set("%s.ini" % i for i in INPUTS) | {"out1", "out2", "out3"}
    intact = all(open(os.path.join(d, "%s.ini" % i)).read() == t for i, t in inputs_text.items())
    return fs, len(names - expected), intact


def stdout_class(so):
    s = so.strip()
    if not s:
        return ""
    return "list" if "Tabulation:target=" in s and "=" in s.splitlines()[0] else "other"


def run_process(args, cwd):
    """the command line in a process of its own (the working tree of VERIF_REPO)"""
    code = "import sys; sys.path.insert(0, %r); from lib import boot; boot.boot(quiet=False); from atsim.potentials.tools import potable; sys.argv = ['potable'] + sys.argv[1:]; potable.main()" % boot.VERIF
    p = subprocess.run([sys.executable, "-W", "ignore", "-c", code] + args, cwd=cwd, stdout=subprocess.PIPE, stderr=subprocess.PIPE, universal_newlines=True,
                       env=dict(os.environ, PYTHONHASHSEED=str(random.randint(0, 5))))
    return p.returncode, p.stdout, p.stderr


def record_sessions(run, ref, n_sessions, n_events, seed, processes=0):
    rnd = random.Random(seed * 7919 + 11)
    traces = []
    inputs_text = {i: render(doc) for i, doc in INPUTS.items()}
    for s in range(n_sessions):
        d = tempfile.mkdtemp(prefix="verif-potfs-")
        as_process = s < processes
        try:
            for i, t in inputs_text.items():
                with open(os.path.join(d, "%s.ini" % i), "w") as f:
                    f.write(t)
            evs = []
            for _ in range(n_events if not as_process else max(4, n_events // 3)):
                roll = rnd.random()
                if roll < 0.12:
                    o = rnd.randint(1, 3)
                    with open(os.path.join(d, "out%d" % o), "w") as f:
                        f.write(FOREIGN)
                    ev = dict(e="put", o=o)
                elif roll < 0.2 and any(os.path.exists(os.path.join(d, "out%d" % o)) for o in (1, 2, 3)):
                    o = rnd.choice([o for o in (1, 2, 3) if os.path.exists(os.path.join(d, "out%d" % o))])
                    os.remove(os.path.join(d, "out%d" % o))
                    ev = dict(e="delete", o=o)
                else:
                    while True:
                        ned = rnd.choice((0, 0, 1, 1, 1, 2))
                        inv = dict(i=rnd.choice(sorted(INPUTS)), o=rnd.choice((0, 1, 1, 2, 2, 3, 3)), q=rnd.choice(("none", "none", "none", "list")),
                                   ed=[rnd.choice(sorted(EDITS)) for _ in range(ned)], f=rnd.choice(("none", "none", "incCu", "excCu")))
                        if sensible(inv):
                            break
                    args = [os.path.join(d, "%s.ini" % inv["i"])] + ([os.path.join(d, "out%d" % inv["o"])] if inv["o"] else [])
                    args += ["--list-items"] if inv["q"] == "list" else []
                    for e in inv["ed"]:
                        args += EDITS[e]
                    args += FILTERS[inv["f"]]
                    try:
                        status, so, se = run_process(args, d) if as_process else run_cli(args)
                    except Exception as e:      # an exception leaving main(): what a user sees as a traceback, exit status 1
                        status, so, se = 1, "", "%s: %s" % (type(e).__name__, e)
                    run.evaluations += 1
                    ev = dict(e="invoke", status=status, stdout=stdout_class(so), stderr=(se.strip().splitlines() or [""])[-1][:160], **inv)
                fs, stray, intact = snapshot(d, ref, inputs_text)
                ev.update(fs=fs, stray=stray, inputs_intact=intact)
                evs.append(ev)
            traces.append(dict(ev=evs, process=as_process))
        finally:
            shutil.rmtree(d, ignore_errors=True)
    return traces


def describe(ev):
    if ev is None:
        return "(end of the session)"
    if ev["e"] != "invoke":
        return "%s out%d -> directory %s" % (ev["e"], ev["o"], [c["k"] for c in ev["fs"]])
    args = "%s.ini %s%s %s %s" % (ev["i"], "out%d" % ev["o"] if ev["o"] else "", " --list-items" if ev["q"] == "list" else "",
                                 " ".join(" ".join(EDITS[e]) for e in ev["ed"]), " ".join(FILTERS[ev["f"]]))
    return "potable %s: exit status %s, stdout %r, directory afterwards %s, %d stray entries, model files intact: %s (%s)" % (
        args.strip(), ev["status"], ev["stdout"], [c["k"] if c["k"] != "table" else "table of %s" % json.dumps(c["doc"], sort_keys=True) for c in ev["fs"]],
        ev["stray"], ev["inputs_intact"], ev.get("stderr", ""))


def check(run, tier, seed, clause_engine="layout"):
    """model checking + trace validation; violations are reported under the property of `run`"""
    # (M) the design, and the two unrepaired models as vacuity guards
    for cfg, expect in (("PotableFS_fixed", None), ("PotableFS_notrunc", "ContentWellFormed"), ("PotableFS_streaming", "ContentWellFormed")) + \
            ((("PotableFS_two", None),) if tier == "thorough" else ()):
        try:
            res = tlc.run("PotableFS", cfg + ".cfg", coverage=(expect is None), timeout=900)
        except tlc.TLCError as e:
            run.machinery("potfs: %s" % e)
            return
        if res.violated != expect:
            run.machinery("potfs: TLC reports %s on %s, expected %s" % (res.violated, cfg, expect))
            return
        if expect is None:
            run.add_tlc(cfg, res)
            for a in ("Put", "Delete", "Invoke"):
                if not res.coverage.get(a):
                    run.machinery("potfs: action %s never taken in %s" % (a, cfg))
    # (T) sessions of the real command line
    ref = reference_tables(run, clause_engine)
    if ref is None:
        return
    n_sessions, n_events, processes = (24, 14, 2) if tier == "quick" else (160, 24, 10)
    traces = record_sessions(run, ref, n_sessions, n_events, seed, processes)
    canary = None
    for t in traces:      # canary: a successful tabulation whose file is reported as left empty - must be rejected
        for k, ev in enumerate(t["ev"]):
            if ev["e"] == "invoke" and ev["status"] == 0 and ev["q"] == "none" and ev["o"]:
                c = json.loads(json.dumps(t))
                c["ev"][k]["fs"][ev["o"] - 1] = dict(k="empty", doc=NULLDOC)
                canary = c
                break
        if canary:
            break
    batch = [dict(ev=[{k: v for k, v in ev.items() if k != "stderr"} for ev in t["ev"]]) for t in traces + ([canary] if canary else [])]
    try:
        res, rep = tlc.batch_validate("PotableFSTrace", "PotableFSTrace.cfg", batch, timeout=1200)
    except tlc.TLCError as e:
        run.machinery("potfs trace validation: %s" % e)
        return
    run.add_tlc("PotableFSTrace", res, exhaustive=False)
    fates = {}
    for k, (reached, total, complete) in enumerate(rep[:len(traces)]):
        run.traces += 1
        for ev in traces[k]["ev"]:
            if ev["e"] == "invoke":
                key = "%s/%s" % (ev["status"], "query" if ev["q"] == "list" else "tab")
                fates[key] = fates.get(key, 0) + 1
                run.distinct("potfs:" + json.dumps([ev["i"], ev["q"], ev["ed"], ev["f"], [c["k"] for c in ev["fs"]]]))
        if not complete:
            ev = traces[k]["ev"][reached - 1] if 0 < reached <= len(traces[k]["ev"]) else None
            before = traces[k]["ev"][reached - 2]["fs"] if reached >= 2 else None
            run.violation(dict(engine=clause_engine, clause="session-rejected", route="cli-process" if traces[k]["process"] else "cli", target="session", family="session"),
                          "[session-rejected] session %d of potable runs in one directory: the specification (PotableFS) accepts %d of %d recorded runs; not a step of it: %s; "
                          "directory before: %s" % (k, reached - 1, total, describe(ev), [c["k"] for c in before] if before else "empty"),
                          dict(trace=traces[k], reached=reached))
    if canary and rep[-1][2]:
        run.machinery("potfs trace validation: the corrupted canary session was accepted")
    run.notes["potable_sessions"] = dict(sessions=len(traces), runs=sum(len(t["ev"]) for t in traces), in_processes_of_their_own=processes,
                                         outcomes=fates, reference_tables=len(ref), canary_rejected=bool(canary and not rep[-1][2]))
    if traces:
        run.sample(dict(potable_session=[describe(ev)[:200] for ev in traces[0]["ev"][:3]], validated_by="TLC PotableFSTrace"))
