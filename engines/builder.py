"""From a potable file to the objects the EAM writers receive (spec/Builder.tla): every file of the bound (embedding entries
in every order, every subset of density entries, three pair sets) is rendered as potable text and read by the real
Configuration; the EAMPotential objects it builds - which species, in which order, which of their functions are the declared
ones and which are zero - and the pair potentials handed on are compared with the objects the specification prescribes.
Called from the C03 (plain EAM) and C04 (Finnis-Sinclair) checks."""
import io, json, os

from lib import boot, tlc

P = boot.boot()
from atsim.potentials.config import Configuration          # noqa: E402

LAB = {1: "Al", 2: "Cu", 3: "Fe"}
X = 1.25


def code(kind, a, b):
    """a distinct constant term per declared function: the function is recognised by its value"""
    return {"embed": 100, "dens": 200, "pair": 300}[kind] + 10 * a + b


def render(c, fs, variant):
    emb = ["%s : as.polynomial %d 1" % (LAB[s], code("embed", s, 0)) for s in c["embed"]]
    dens = [("%s->%s" % (LAB[k[0]], LAB[k[1]]) if fs else LAB[k[0]]) + " : as.polynomial %d 1" % code("dens", k[0], k[1]) for k in c["dens"]]
    pairs = ["%s-%s : as.polynomial %d 1" % (LAB[min(p)], LAB[max(p)], code("pair", min(p), max(p))) for p in c["pairs"]]
    if variant == 1:            # the order of the density and pair entries carries no meaning
        dens.reverse()
        pairs.reverse()
    secs = [["[EAM-Embed]"] + emb, ["[EAM-Density]"] + dens, ["[Pair]"] + pairs]
    if variant == 1:
        secs = [secs[2], secs[1], secs[0]]
    return "[Tabulation]\ntarget : %s\nnr : 5\ncutoff : 2.0\nnrho : 4\ncutoff_rho : 3.0\n\n" % ("setfl_fs" if fs else "setfl") + \
        "\n\n".join("\n".join(s) for s in secs) + "\n"


def ident(f):
    """(kind, a, b) of a built function, by its value at one point"""
    v = f(X)
    if v == 0.0:
        return ["zero", 0, 0]
    c = int(round(v - X))
    kind = {1: "embed", 2: "dens", 3: "pair"}.get(c // 100)
    return [kind, (c % 100) // 10, c % 10]


def validate(run, fs, tier):
    cfg = ("Builder_fs3.cfg" if tier == "thorough" else "Builder_fs.cfg") if fs else "Builder_eam.cfg"
    res = tlc.run("Builder", cfg, env={"EMIT": "1"}, coverage=True, keep=True, timeout=1200)
    try:
        if res.violated:
            run.machinery("TLC: %s violated on %s\n%s" % (res.violated, cfg, res.stdout[-1200:]))
            return
        run.add_tlc(cfg[:-4], res)
        cases = tlc.read_ndjson(os.path.join(res.outdir, "cases.ndjson"))
    finally:
        tlc.cleanup(res)
    for c2, inv in (("Builder_setorder.cfg", "BuilderOK"), ("Builder_pairfilter.cfg", "BuilderOK")):
        r2 = tlc.run("Builder", c2, timeout=600)
        if r2.violated != inv:
            run.machinery("anti-vacuity: %s should violate %s, TLC says %r" % (c2, inv, r2.violated))
    inv = {v: k for k, v in LAB.items()}
    if tier != "thorough" and len(cases) > 400:
        cases = cases[::max(1, len(cases) // 400)]
    nbad = 0
    for ci, c in enumerate(cases):
        want = c["objects"]
        for variant in (0, 1):
            text = render(c, fs, variant)
            run.evaluations += 1
            try:
                tab = Configuration().read(io.StringIO(text))
                eams = list(tab.eam_potentials)
                got = dict(els=[inv.get(e.species, -1) for e in eams],
                           embed=[ident(e.embeddingFunction) for e in eams],
                           dens=[[ident(e.electronDensityFunction[o.species]) for o in eams] if fs else [ident(e.electronDensityFunction)] for e in eams],
                           pairs=sorted(sorted({inv.get(p.speciesA, -1), inv.get(p.speciesB, -1)}) for p in tab.potentials))
                extra = [k for e in eams for k in (e.electronDensityFunction if fs else {}) if k not in [o.species for o in eams]]
            except Exception as e:
                got, extra = "%s: %s" % (type(e).__name__, str(e)[:200]), []
            wantd = dict(els=want["els"], embed=[list(x) for x in want["embed"]], dens=[[list(y) for y in x] for x in want["dens"]],
                         pairs=sorted(sorted(set(p)) for p in c["pairs"]))
            if got != wantd or extra:
                nbad += 1
                if nbad <= 10:
                    run.violation(dict(engine="builder", clause="objects", fs=fs),
                                  "[objects] %s model, entries %s: the implementation builds %s%s, the specification prescribes %s" % (
                                      "Finnis-Sinclair" if fs else "EAM", "reversed" if variant else "in file order", json.dumps(got)[:500],
                                      " (density keys for species that are no elements: %s)" % extra if extra else "", json.dumps(wantd)[:500]), dict(case=c, ini=text))
        run.replayed += 1
        run.distinct("builder:%s:%d" % (fs, ci))
    run.notes["builder_files_%s" % ("fs" if fs else "eam")] = len(cases)
