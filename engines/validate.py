"""C16: error taxonomy.  (M) spec/Validate.tla: pipeline stages, where each malformation operator is noticed, lazy
stages after the output is opened (RejectedMeansNoTable); (R) every operator TLC emits applied to well-formed base
models and pushed through Configuration.read + write and the potable CLI: outcome class, exit status, message prefix,
no table left behind; every documented target spelling and generated well-formed models must be accepted."""
import io, json, os, shutil, sys, tempfile, copy, random

from lib import boot, tlc
from lib.harness import Run

P = boot.boot()
from atsim.potentials.config import Configuration                      # noqa: E402
from atsim.potentials.config._common import ConfigurationException     # noqa: E402
from engines.layout import run_cli                                     # noqa: E402

TARGETS = {"pair": "LAMMPS", "dlpoly": "DL_POLY", "eam": "setfl", "fs": "setfl_fs", "adp": "eam_adp"}
DOCUMENTED_TARGETS = {"DL_POLY": "dlpoly", "DLPOLY": "dlpoly", "DL_POLY_EAM_fs": "fs", "DL_POLY_EAM": "eam", "eam_adp": "adp", "excel": "pair",
                      "excel_eam": "eam", "excel_eam_fs": "fs", "GULP": "pair", "LAMMPS_eam_alloy": "eam", "setfl": "eam", "LAMMPS": "pair", "setfl_fs": "fs",
                      "lammps_eam_alloy": "eam"}


def base(fam):
    secs = [["Tabulation", [["target", TARGETS[fam]], ["nr", "8"], ["cutoff", "3.5"]]],
            ["Potential-Form", [["f(r,a)", "a*r + 1"], ["g(r, a, b)", "f(r, a) * b + pymath.sqrt(r)"]]],
            ["Table-Form:tf", [["interpolation", "cubic_spline"], ["x", "0.0 1.0 2.0 3.0 4.0"], ["y", "0.0 1.0 4.0 9.0 16.0"]]],
            ["Pair", [["Al-Al", "as.buck 1000.0 0.3 32.0"], ["Al-Cu", ">0 f 2.0 >=1.5 sum(g 1.0 2.0, tf)"],
                      ["Cu-Cu", "spline(>0 as.zbl 29 29 >=0.8 exp_spline >=1.4 as.buck 1000.0 0.3 32.0)"],
                      ["Fe-Fe", "spline(as.bornmayer 1000.0 0.3 >1.0 buck4_spline 1.5 >2.5 as.buck 0 1 32.0)"],
                      ["Fe-Al", "trans(as.lj 0.2 2.5, as.constant 0.5)"], ["Fe-Cu", "as.buck4 1000.0 0.3 32.0 1.0 1.5 2.5"]]]]
    if fam in ("eam", "fs", "adp"):
        secs[0][1] += [["nrho", "5"], ["cutoff_rho", "4.0"]]
        secs.append(["EAM-Embed", [["Al", "as.sqrt -1.0"], ["Cu", "product(as.constant -1, as.sqrt 1.0)"], ["Fe", "as.polynomial 0 -1"]]])
        if fam == "fs":
            secs.append(["EAM-Density", [["%s->%s" % (a, b), "as.bornmayer %d 0.5" % (1 + i * 3 + j)] for i, a in enumerate(("Al", "Cu", "Fe")) for j, b in enumerate(("Al", "Cu", "Fe"))]])
        else:
            secs.append(["EAM-Density", [["Al", "as.bornmayer 1 0.5"], ["Cu", "f 0.5"], ["Fe", "tf"]]])
        secs.append(["Species", [["Al.lattice_constant", "4.05"], ["Cu.atomic_mass", "63.5"]]])
    if fam == "adp":
        secs.append(["EAM-ADP-Dipole", [["Al-Al", "as.polynomial 1 1"], ["Al-Cu", "as.zero"]]])
        secs.append(["EAM-ADP-Quadrupole", [["Al-Al", "as.polynomial 2 1"], ["Cu-Cu", "f 1.0"]]])
    return secs


def render(secs, pre="", post="", layout=0):
    """layout 0: as listed; 1: sections and their entries in reverse order (the order carries no meaning)"""
    out = [pre] if pre else []
    if layout == 1:
        secs = [(name, list(reversed(items))) for name, items in reversed(secs)]
    for name, items in secs:
        out.append("[%s]" % name)
        for kv in items:
            if isinstance(kv, str):
                out.append(kv)
            else:
                out.append("%s %s %s" % (kv[0], "=" if name == "Potential-Form" else ":", kv[1]))
        out.append("")
    return "\n".join(out) + "\n" + post


def sec(secs, name):
    return [s for s in secs if s[0] == name][0]


def setv(secs, name, key, val):
    for kv in sec(secs, name)[1]:
        if kv[0] == key:
            kv[1] = val
            return
    sec(secs, name)[1].append([key, val])


def delk(secs, name, key):
    s = sec(secs, name)
    s[1] = [kv for kv in s[1] if kv[0] != key]


def dels(secs, name):
    secs[:] = [s for s in secs if s[0] != name]


def rename(secs, name, key, newkey):
    for kv in sec(secs, name)[1]:
        if kv[0] == key:
            kv[0] = newkey


# operator id -> list of (family, mutation); a mutation edits the section structure in place or returns raw text
def M(fam, fn):
    return (fam, fn)


def raw(fn):
    fn.raw = True
    return fn


def edits(*args):
    """the base file as it stands, edited on the command line (-e / -a) and through ConfigParser(overrides=, additional=)"""
    def fn(t):
        return t
    fn.raw = True
    fn.edits = args
    return fn


OPS = {
    # a file that is not text in the encoding potable reads (command line only: the Python API is handed an open text file)
    "not-text": [M("pair", raw(lambda t: t.encode("utf-16"))), M("pair", raw(lambda t: ("# caf\xe9\n" + t).encode("latin-1"))), M("eam", raw(lambda t: b"PK\x03\x04\x14\x00\x06\x00\x08\x00\xff\xfe\x9c\x80" + t.encode()))],
    "edit-placeholder-syntax": [M("pair", edits(("-e", "Tabulation", "cutoff", "$x"))), M("pair", edits(("-a", "Pair", "Cu-Fe", "as.buck 1000.0$ 0.3 32.0"))),
                                M("eam", edits(("-e", "Species", "Cu.atomic_mass", "${")))],
    "pair-key-empty-species": [M("pair", lambda s: rename(s, "Pair", "Al-Al", "-Al")), M("pair", lambda s: rename(s, "Pair", "Al-Cu", "Al-")), M("eam", lambda s: rename(s, "Pair", "Al-Al", " - ")),
                               M("adp", lambda s: rename(s, "EAM-ADP-Dipole", "Al-Cu", "-Cu"))],
    "grid-step-underflow": [M("pair", lambda s: (delk(s, "Tabulation", "nr"), setv(s, "Tabulation", "dr", "1e-310"))),
                            M("eam", lambda s: (delk(s, "Tabulation", "nrho"), setv(s, "Tabulation", "drho", "1e-320")))],
    "grid-overflow": [M("pair", lambda s: (delk(s, "Tabulation", "cutoff"), setv(s, "Tabulation", "nr", "3"), setv(s, "Tabulation", "dr", "1e308"))),
                      M("eam", lambda s: (delk(s, "Tabulation", "cutoff_rho"), setv(s, "Tabulation", "nrho", "5"), setv(s, "Tabulation", "drho", "1e308")))],
    "table-not-finite": [M("pair", lambda s: setv(s, "Table-Form:tf", "y", "0.0 1.0 nan 9.0 16.0")), M("pair", lambda s: setv(s, "Table-Form:tf", "y", "0.0 1.0 4.0 inf 16.0")),
                         M("eam", lambda s: setv(s, "Table-Form:tf", "x", "0.0 1.0 2.0 3.0 inf")),
                         M("pair", lambda s: (delk(s, "Table-Form:tf", "x"), delk(s, "Table-Form:tf", "y"), setv(s, "Table-Form:tf", "xy", "0 0 1 1 2 nan 3 9 4 16")))],
    "table-empty-name": [M("pair", lambda s: s.append(["Table-Form:", [["x", "0.0 1.0 2.0 3.0 4.0"], ["y", "0.0 1.0 4.0 9.0 16.0"]]])),
                         M("eam", lambda s: s.append(["Table-Form: ", [["xy", "0 0 1 1 2 4 3 9"]]]))],
    "table-named-like-library-function": [M("pair", lambda s: s.append(["Table-Form:pymath.sin", [["x", "0.0 1.0 2.0 3.0 4.0"], ["y", "0.0 1.0 4.0 9.0 16.0"]]])),
                                          M("eam", lambda s: s.append(["Table-Form:as.buck", [["x", "0.0 1.0 2.0 3.0 4.0"], ["y", "0.0 1.0 4.0 9.0 16.0"]]]))],
    # the expression library keeps variables and functions in one case-insensitive name space: a parameter of one formula
    # named like another form (or table form) cannot be bound
    "form-parameter-named-like-a-form": [M("pair", lambda s: sec(s, "Potential-Form")[1].append(["a(r, s)", "s*r"])),
                                         M("pair", lambda s: sec(s, "Potential-Form")[1].append(["B(r)", "r + 1"])),
                                         M("eam", lambda s: s.append(["Table-Form:a", [["x", "0.0 1.0 2.0 3.0 4.0"], ["y", "0.0 1.0 4.0 9.0 16.0"]]]))],
    "form-label-reserved": [M("pair", lambda s: sec(s, "Potential-Form")[1].append(["pi(r)", "r"])), M("pair", lambda s: sec(s, "Potential-Form")[1].append(["r(x)", "x"])),
                            M("eam", lambda s: sec(s, "Potential-Form")[1].append(["epsilon(r, s)", "s*r"])), M("pair", lambda s: sec(s, "Potential-Form")[1].append(["inf(r)", "r"]))],
    # the expression library's names are case-insensitive: of two forms whose labels differ only in case a formula can call but one
    "form-labels-differ-in-case": [M("pair", lambda s: sec(s, "Potential-Form")[1].append(["F(r,a)", "a*10"])),
                                   M("eam", lambda s: s.append(["Table-Form:TF", [["x", "0.0 1.0 2.0 3.0 4.0"], ["y", "9.0 9.0 9.0 9.0 9.0"]]])),
                                   M("pair", lambda s: s.append(["Table-Form:G", [["x", "0.0 1.0 2.0 3.0 4.0"], ["y", "9.0 9.0 9.0 9.0 9.0"]]])),
                                   M("pair", lambda s: s.append(["Table-Form:AS.CONSTANT", [["x", "0.0 1.0 2.0 3.0 4.0"], ["y", "9.0 9.0 9.0 9.0 9.0"]]]))],
    "form-signature-trailing-text": [M("pair", lambda s: rename(s, "Potential-Form", "f(r,a)", "f(r,a)x")), M("eam", lambda s: rename(s, "Potential-Form", "f(r,a)", "f(r,a) + 1"))],
    "not-ini": [M("pair", raw(lambda t: "hello world\nthis is not a potable file\n")), M("eam", raw(lambda t: "<xml><potential/></xml>\n"))],
    "text-before-header": [M("pair", raw(lambda t: "target : LAMMPS\n" + t))],
    "unclosed-header": [M("pair", raw(lambda t: t.replace("[Pair]", "[Pair"))), M("eam", raw(lambda t: t.replace("[EAM-Embed]", "[EAM-Embed")))],
    "no-delimiter": [M("pair", raw(lambda t: t.replace("Al-Al : as.buck", "Al-Al as.buck"))), M("eam", raw(lambda t: t.replace("Al : as.sqrt", "Al as.sqrt")))],
    "placeholder-missing": [M("pair", lambda s: setv(s, "Pair", "Al-Al", "as.buck ${nope} 0.3 32.0")), M("eam", lambda s: setv(s, "Tabulation", "nr", "${nsteps}")),
                            M("eam", lambda s: setv(s, "Species", "Al.lattice_constant", "${missing}")), M("eam", lambda s: setv(s, "Species", "Cu.atomic_mass", "${Variables:missing}")),
                            M("fs", lambda s: setv(s, "EAM-Density", "Al->Cu", "as.bornmayer ${a} 0.5")), M("eam", lambda s: setv(s, "EAM-Embed", "Al", "as.sqrt ${g}")),
                            M("pair", lambda s: setv(s, "Table-Form:tf", "y", "0.0 1.0 ${y3} 9.0 16.0")), M("pair", lambda s: setv(s, "Potential-Form", "f(r,a)", "a*r + ${c}")),
                            M("adp", lambda s: setv(s, "EAM-ADP-Dipole", "Al-Al", "as.polynomial ${p} 1"))],
    "placeholder-missing-section": [M("pair", lambda s: setv(s, "Pair", "Al-Al", "as.buck ${No:pe} 0.3 32.0")), M("eam", lambda s: setv(s, "Species", "Al.lattice_constant", "${NoSection:x}"))],
    "placeholder-syntax": [M("pair", lambda s: setv(s, "Pair", "Al-Al", "as.buck $x 0.3 32.0")), M("pair", lambda s: setv(s, "Pair", "Al-Al", "as.buck ${ 3 0.3")),
                           M("eam", lambda s: setv(s, "Species", "Cu.atomic_mass", "$x")), M("eam", lambda s: setv(s, "Tabulation", "cutoff", "$c"))],
    "placeholder-circular": [M("pair", lambda s: (s.insert(0, ["Variables", [["a", "${b}"], ["b", "${a}"]]]), setv(s, "Pair", "Al-Al", "as.buck ${a} 0.3 32.0"))),
                             M("eam", lambda s: (s.insert(0, ["Variables", [["a", "1${a}"]]]), setv(s, "EAM-Embed", "Al", "as.sqrt ${a}"))),
                             M("pair", lambda s: setv(s, "Pair", "Al-Al", "as.buck ${a:b:c} 0.3 32.0"))],
    "pair-key-no-dash": [M("pair", lambda s: rename(s, "Pair", "Al-Al", "AlAl")), M("eam", lambda s: rename(s, "Pair", "Cu-Cu", "Cu"))],
    "pair-key-two-dashes": [M("pair", lambda s: rename(s, "Pair", "Al-Cu", "Al-Cu-Fe"))],
    "adp-key-no-dash": [M("adp", lambda s: rename(s, "EAM-ADP-Dipole", "Al-Cu", "AlCu")), M("adp", lambda s: rename(s, "EAM-ADP-Quadrupole", "Cu-Cu", "Cu-Cu-Cu"))],
    "target-unknown": [M("pair", lambda s: setv(s, "Tabulation", "target", "FOO")), M("eam", lambda s: setv(s, "Tabulation", "target", "setfl2"))],
    "target-empty": [M("pair", lambda s: setv(s, "Tabulation", "target", ""))],
    "target-wrong-case": [M("pair", lambda s: setv(s, "Tabulation", "target", "lammps")), M("eam", lambda s: setv(s, "Tabulation", "target", "SETFL"))],
    "grid-all-three": [M("pair", lambda s: setv(s, "Tabulation", "dr", "0.5"))],
    "grid-step-alone": [M("pair", lambda s: (delk(s, "Tabulation", "nr"), delk(s, "Tabulation", "cutoff"), setv(s, "Tabulation", "dr", "0.5")))],
    "grid-zero-nr": [M("pair", lambda s: setv(s, "Tabulation", "nr", "0")), M("pair", lambda s: setv(s, "Tabulation", "nr", "-5"))],
    "grid-negative-cutoff": [M("pair", lambda s: setv(s, "Tabulation", "cutoff", "-3.5")), M("eam", lambda s: setv(s, "Tabulation", "cutoff", "0.0"))],
    "grid-nonnumeric-nr": [M("pair", lambda s: setv(s, "Tabulation", "nr", "many")), M("pair", lambda s: setv(s, "Tabulation", "nr", ""))],
    "grid-float-nr": [M("pair", lambda s: setv(s, "Tabulation", "nr", "8.0")), M("pair", lambda s: setv(s, "Tabulation", "nr", "8.5"))],
    "grid-nonnumeric-cutoff": [M("pair", lambda s: setv(s, "Tabulation", "cutoff", "ten")), M("eam", lambda s: setv(s, "Tabulation", "cutoff", "3,5"))],
    "rho-all-three": [M("eam", lambda s: setv(s, "Tabulation", "drho", "1.0"))],
    "rho-step-alone": [M("eam", lambda s: (delk(s, "Tabulation", "nrho"), delk(s, "Tabulation", "cutoff_rho"), setv(s, "Tabulation", "drho", "1.0")))],
    "rho-nonnumeric": [M("eam", lambda s: setv(s, "Tabulation", "nrho", "abc")), M("fs", lambda s: setv(s, "Tabulation", "cutoff_rho", "x"))],
    "grid-one-row": [M("pair", lambda s: setv(s, "Tabulation", "nr", "1")), M("eam", lambda s: setv(s, "Tabulation", "nr", "1")),
                     M("pair", lambda s: (delk(s, "Tabulation", "nr"), setv(s, "Tabulation", "dr", "4.0"))),       # cutoff 3.5 with a larger step: one row
                     M("fs", lambda s: (delk(s, "Tabulation", "nr"), setv(s, "Tabulation", "dr", "3.75")))],
    "rho-one-row": [M("eam", lambda s: setv(s, "Tabulation", "nrho", "1")), M("fs", lambda s: setv(s, "Tabulation", "nrho", "1")),
                    M("eam", lambda s: (delk(s, "Tabulation", "nrho"), setv(s, "Tabulation", "drho", "4.5")))],
    "dlpoly-four-rows": [M("dlpoly", lambda s: setv(s, "Tabulation", "nr", "4"))],
    # the row count that applies when the file gives none (1001) is no multiple of four either
    "dlpoly-default-rows": [M("dlpoly", lambda s: delk(s, "Tabulation", "nr")), M("dlpoly", lambda s: (delk(s, "Tabulation", "nr"), delk(s, "Tabulation", "cutoff")))],
    "dlpoly-not-multiple-of-four": [M("dlpoly", lambda s: setv(s, "Tabulation", "nr", "10")), M("dlpoly", lambda s: setv(s, "Tabulation", "nr", "7"))],
    "cutoff-nan": [M("pair", lambda s: setv(s, "Tabulation", "cutoff", "nan")), M("eam", lambda s: setv(s, "Tabulation", "cutoff_rho", "nan"))],
    "cutoff-inf": [M("pair", lambda s: setv(s, "Tabulation", "cutoff", "inf")), M("eam", lambda s: setv(s, "Tabulation", "cutoff_rho", "inf"))],
    "table-no-data": [M("pair", lambda s: (delk(s, "Table-Form:tf", "x"), delk(s, "Table-Form:tf", "y")))],
    "table-x-and-xy": [M("pair", lambda s: setv(s, "Table-Form:tf", "xy", "0 0 1 1 2 4 3 9"))],
    "table-length-mismatch": [M("pair", lambda s: setv(s, "Table-Form:tf", "y", "0.0 1.0 4.0 9.0"))],
    "table-odd-xy": [M("pair", lambda s: (delk(s, "Table-Form:tf", "x"), delk(s, "Table-Form:tf", "y"), setv(s, "Table-Form:tf", "xy", "0 0 1 1 2 4 3 9 4")))],
    "table-nonnumeric": [M("pair", lambda s: setv(s, "Table-Form:tf", "y", "0.0 1.0 four 9.0 16.0")), M("eam", lambda s: setv(s, "Table-Form:tf", "x", "0.0 1.0 2.0 3.0 b"))],
    "table-unknown-interpolation": [M("pair", lambda s: setv(s, "Table-Form:tf", "interpolation", "linear"))],
    "table-empty-interpolation": [M("pair", lambda s: setv(s, "Table-Form:tf", "interpolation", ""))],
    "table-only-x": [M("pair", lambda s: delk(s, "Table-Form:tf", "y"))],
    "table-only-y": [M("pair", lambda s: delk(s, "Table-Form:tf", "x"))],
    "table-three-points": [M("pair", lambda s: (setv(s, "Table-Form:tf", "x", "0.0 1.0 2.0"), setv(s, "Table-Form:tf", "y", "0.0 1.0 4.0")))],
    "table-not-increasing": [M("pair", lambda s: setv(s, "Table-Form:tf", "x", "0.0 2.0 1.0 3.0 4.0"))],
    "table-repeated-x": [M("pair", lambda s: setv(s, "Table-Form:tf", "x", "0.0 1.0 1.0 3.0 4.0"))],
    "table-empty-data": [M("pair", lambda s: (setv(s, "Table-Form:tf", "x", ""), setv(s, "Table-Form:tf", "y", "")))],
    "form-bad-signature": [M("pair", lambda s: rename(s, "Potential-Form", "f(r,a)", "f r a")), M("pair", lambda s: rename(s, "Potential-Form", "f(r,a)", "f(r,a"))],
    "form-dotted-name": [M("pair", lambda s: rename(s, "Potential-Form", "f(r,a)", "my.f(r,a)"))],
    "form-no-parameters": [M("pair", lambda s: (rename(s, "Potential-Form", "f(r,a)", "f()"), setv(s, "Potential-Form", "f()", "1.0")))],
    # a parameter named like one of the expression library's built-in constants cannot be bound
    "form-reserved-parameter": [M("pair", lambda s: (rename(s, "Potential-Form", "f(r,a)", "f(r,epsilon)"), setv(s, "Potential-Form", "f(r,epsilon)", "epsilon*r + 1"))),
                                M("pair", lambda s: (rename(s, "Potential-Form", "f(r,a)", "f(r,pi)"), setv(s, "Potential-Form", "f(r,pi)", "pi*r + 1"))),
                                M("eam", lambda s: (rename(s, "Potential-Form", "f(r,a)", "f(r,inf)"), setv(s, "Potential-Form", "f(r,inf)", "inf*r + 1"))),
                                # ... or like one of its keywords, in whatever case (the library's own check knows the lower-case spelling only)
                                M("pair", lambda s: (rename(s, "Potential-Form", "f(r,a)", "f(r,True)"), setv(s, "Potential-Form", "f(r,True)", "True*r + 1"))),
                                M("pair", lambda s: (rename(s, "Potential-Form", "f(r,a)", "f(r,NULL)"), setv(s, "Potential-Form", "f(r,NULL)", "NULL*r + 1"))),
                                M("eam", lambda s: (rename(s, "Potential-Form", "f(r,a)", "f(r,False)"), setv(s, "Potential-Form", "f(r,False)", "False*r + 1")))],
    # the expression library's symbols are case-insensitive: two parameters that differ only in case cannot both be bound
    "form-parameters-differ-in-case": [M("pair", lambda s: (rename(s, "Potential-Form", "g(r, a, b)", "g(r, a, A)"), setv(s, "Potential-Form", "g(r, a, A)", "f(r, a) * A + pymath.sqrt(r)"))),
                                       M("eam", lambda s: (rename(s, "Potential-Form", "f(r,a)", "f(r,R)"), setv(s, "Potential-Form", "f(r,R)", "R*r + 1")))],
    "form-parameter-repeated": [M("pair", lambda s: (rename(s, "Potential-Form", "g(r, a, b)", "g(r, a, a)"), setv(s, "Potential-Form", "g(r, a, a)", "f(r, a) * a + pymath.sqrt(r)"))),
                                M("eam", lambda s: (rename(s, "Potential-Form", "f(r,a)", "f(r,r)"), setv(s, "Potential-Form", "f(r,r)", "r + 1"))),
                                M("pair", lambda s: (rename(s, "Potential-Form", "g(r, a, b)", "g(r, a, b, a)"), setv(s, "Potential-Form", "g(r, a, b, a)", "f(r, a) * b"), setv(s, "Pair", "Al-Cu", ">0 f 2.0 >=1.5 sum(g 1.0 2.0 3.0, tf)")))],
    # the expression library has functions and keywords of its own (in any case): a form of that name is never what a formula calls
    "form-named-like-expression-builtin": [M("pair", lambda s: sec(s, "Potential-Form")[1].append(["pow(x, y)", "7"])), M("pair", lambda s: sec(s, "Potential-Form")[1].append(["Exp(r)", "r"])),
                                           M("eam", lambda s: s.append(["Table-Form:not", [["x", "0.0 1.0 2.0 3.0 4.0"], ["y", "0.0 1.0 4.0 9.0 16.0"]]])), M("pair", lambda s: sec(s, "Potential-Form")[1].append(["mod(p, q)", "p"])),
                                           M("pair", lambda s: s.append(["Table-Form:pymath.Floor", [["x", "0.0 1.0 2.0 3.0 4.0"], ["y", "0.0 1.0 4.0 9.0 16.0"]]]))],
    # a formula nothing uses is part of the model all the same
    "formula-unused-malformed": [M("pair", lambda s: sec(s, "Potential-Form")[1].append(["unused(r, a)", "a*r + + * 1"])), M("eam", lambda s: sec(s, "Potential-Form")[1].append(["unused(r)", "nosuch(r) + 1"])),
                                 M("pair", lambda s: (sec(s, "Potential-Form")[1].append(["late(r, a)", "a*(r + 1"]), setv(s, "Pair", "Al-Al", "as.buck 1000.0 0.3 32.0 >100 late 1")))],
    "label-not-ascii": [M("pair", lambda s: sec(s, "Potential-Form")[1].append(["h\u00e9(r)", "r"])), M("eam", lambda s: s.append(["Table-Form:\u00e9", [["x", "0.0 1.0 2.0 3.0 4.0"], ["y", "0.0 1.0 4.0 9.0 16.0"]]]))],
    "parameter-overflow": [M("pair", lambda s: setv(s, "Pair", "Al-Al", "as.constant 1e400")), M("pair", lambda s: setv(s, "Pair", "Al-Al", "as.constant " + "9" * 401)),
                           # ... the start of a range is a number of the definition like its parameters
                           M("pair", lambda s: setv(s, "Pair", "Al-Al", ">=1e400 as.buck 1000.0 0.3 32.0")),
                           M("pair", lambda s: setv(s, "Pair", "Al-Al", "spline(as.zbl 13 13 >=0.8 exp_spline >=1e400 as.buck 1000.0 0.3 32.0)")),
                           M("eam", lambda s: setv(s, "EAM-Density", "Cu", "as.bornmayer 5.0 0.7 >" + "9" * 401 + " as.zero")),
                           M("eam", lambda s: setv(s, "EAM-Embed", "Al", "as.polynomial 0 -1e999"))],
    "trans-second-multi-range": [M("pair", lambda s: setv(s, "Pair", "Fe-Al", "trans(as.lj 0.2 2.5, as.constant 1 >2 as.constant 3)"))],
    "spline-endpoint-unevaluable": [M("pair", lambda s: setv(s, "Pair", "Cu-Cu", "spline(>-1 as.zbl 29 29 >=0 exp_spline >=1.4 as.buck 1000.0 0.3 32.0)")),
                                    M("pair", lambda s: setv(s, "Pair", "Fe-Cu", "as.buck4 1000 0 32 1 1.5 2")),
                                    M("pair", lambda s: setv(s, "Pair", "Cu-Cu", "spline(>-3 as.sqrt 1 >=-2 exp_spline >=1.4 as.zero)")),
                                    # the same in the sections of an EAM model (embedding, density, Finnis-Sinclair density, the pair section of an EAM target)
                                    M("eam", lambda s: setv(s, "EAM-Embed", "Al", "spline(as.buck 1 0 1 >=1 exp_spline >=2 as.zero)")),
                                    M("eam", lambda s: setv(s, "EAM-Density", "Cu", "spline(>-1 as.zbl 29 29 >=0 exp_spline >=1.4 as.buck 1000.0 0.3 32.0)")),
                                    M("fs", lambda s: setv(s, "EAM-Embed", "Al", "as.buck4 1000 0 32 1 1.5 2")),
                                    M("eam", lambda s: setv(s, "Pair", "Al-Al", "spline(>-3 as.sqrt 1 >=-2 exp_spline >=1.4 as.zero)"))],
    "species-not-finite": [M("eam", lambda s: setv(s, "Species", "Cu.atomic_mass", "nan")), M("eam", lambda s: setv(s, "Species", "Al.lattice_constant", "inf")), M("fs", lambda s: setv(s, "Species", "Cu.atomic_mass", "-inf"))],
    "species-key-empty-part": [M("eam", lambda s: rename(s, "Species", "Cu.atomic_mass", ".atomic_mass")), M("eam", lambda s: rename(s, "Species", "Al.lattice_constant", "Al."))],
    "formula-library-call-wrong-arity": [M("pair", lambda s: setv(s, "Potential-Form", "f(r,a)", "pymath.log(r, 2, 3) + a")), M("eam", lambda s: setv(s, "Potential-Form", "f(r,a)", "pymath.hypot(r) + a"))],
    "form-numeric-parameter": [M("pair", lambda s: rename(s, "Potential-Form", "f(r,a)", "f(r,1)"))],
    "form-name-clash": [M("pair", lambda s: sec(s, "Potential-Form")[1].append(["sin(r)", "r"])), M("pair", lambda s: sec(s, "Potential-Form")[1].append(["if(r)", "r"]))],
    "form-same-label-other-arity": [M("pair", lambda s: sec(s, "Potential-Form")[1].append(["f(r)", "r"]))],
    "missing-pair-section": [M("pair", lambda s: dels(s, "Pair"))],
    "unknown-form": [M("pair", lambda s: setv(s, "Pair", "Al-Al", "as.bucky 1 2 3")), M("pair", lambda s: setv(s, "Pair", "Al-Al", "nosuchform 1"))],
    "unknown-modifier": [M("pair", lambda s: setv(s, "Pair", "Al-Al", "summ(as.zero, as.zero)"))],
    "nested-unknown-form": [M("pair", lambda s: setv(s, "Pair", "Al-Al", "sum(as.zero, product(as.nothing 1, as.zero))"))],
    "too-few-parameters": [M("pair", lambda s: setv(s, "Pair", "Al-Al", "as.buck 1000.0 0.3")), M("pair", lambda s: setv(s, "Pair", "Al-Cu", "f")), M("pair", lambda s: setv(s, "Pair", "Al-Al", "sum(as.lj 1.0, as.zero)"))],
    "too-many-parameters": [M("pair", lambda s: setv(s, "Pair", "Al-Al", "as.zero 1")), M("pair", lambda s: setv(s, "Pair", "Al-Cu", "g 1 2 3"))],
    "nonnumeric-parameter": [M("pair", lambda s: setv(s, "Pair", "Al-Al", "as.buck A rho C"))],
    "empty-value": [M("pair", lambda s: setv(s, "Pair", "Al-Al", ""))],
    "empty-sum": [M("pair", lambda s: setv(s, "Pair", "Al-Al", "sum()"))],
    "unbalanced-parenthesis": [M("pair", lambda s: setv(s, "Pair", "Al-Al", "sum(as.zero, as.zero")), M("pair", lambda s: setv(s, "Pair", "Al-Al", "sum as.zero, as.zero)"))],
    "bad-range-marker": [M("pair", lambda s: setv(s, "Pair", "Al-Al", ">x as.zero")), M("pair", lambda s: setv(s, "Pair", "Al-Al", ">= as.zero"))],
    "less-than-marker": [M("pair", lambda s: setv(s, "Pair", "Al-Al", "<1 as.zero"))],
    "table-with-parameters": [M("pair", lambda s: setv(s, "Pair", "Al-Al", "tf 1.0"))],
    "spline-one-part": [M("pair", lambda s: setv(s, "Pair", "Cu-Cu", "spline(as.zbl 29 29)"))],
    "spline-two-parts": [M("pair", lambda s: setv(s, "Pair", "Cu-Cu", "spline(>0 as.zbl 29 29 >=0.8 exp_spline)"))],
    "spline-four-parts": [M("pair", lambda s: setv(s, "Pair", "Cu-Cu", "spline(>0 as.zbl 29 29 >=0.8 exp_spline >=1.4 as.buck 1000.0 0.3 32.0 >2.0 as.zero)")),
                          M("pair", lambda s: setv(s, "Pair", "Fe-Fe", "spline(as.bornmayer 1000.0 0.3 >1.0 buck4_spline 1.5 >2.5 as.buck 0 1 32.0 >3.0 as.zero)"))],
    "spline-two-arguments": [M("pair", lambda s: setv(s, "Pair", "Cu-Cu", "spline(>0 as.zbl 29 29 >=0.8 exp_spline >=1.4 as.zero, as.zero)"))],
    "spline-unknown-type": [M("pair", lambda s: setv(s, "Pair", "Cu-Cu", "spline(>0 as.zbl 29 29 >=0.8 cubic_spline >=1.4 as.zero)"))],
    "spline-starts-not-increasing": [M("pair", lambda s: setv(s, "Pair", "Cu-Cu", "spline(>0 as.zbl 29 29 >=1.4 exp_spline >=0.8 as.zero)")),
                                     M("pair", lambda s: setv(s, "Pair", "Cu-Cu", "spline(>1 as.zbl 29 29 >=1 exp_spline >=2 as.zero)"))],
    "exp-spline-with-parameters": [M("pair", lambda s: setv(s, "Pair", "Cu-Cu", "spline(>0 as.zbl 29 29 >=0.8 exp_spline 1.0 >=1.4 as.buck 1000.0 0.3 32.0)"))],
    "buck4-spline-without-rmin": [M("pair", lambda s: setv(s, "Pair", "Fe-Fe", "spline(as.bornmayer 1000.0 0.3 >1.0 buck4_spline >2.5 as.buck 0 1 32.0)")),
                                  M("pair", lambda s: setv(s, "Pair", "Fe-Fe", "spline(as.bornmayer 1000.0 0.3 >1.0 buck4_spline 1.5 2.0 >2.5 as.buck 0 1 32.0)"))],
    "buck4-spline-rmin-below-detach": [M("pair", lambda s: setv(s, "Pair", "Fe-Fe", "spline(as.bornmayer 1000.0 0.3 >1.0 buck4_spline 0.5 >2.5 as.buck 0 1 32.0)"))],
    "buck4-spline-rmin-above-attach": [M("pair", lambda s: setv(s, "Pair", "Fe-Fe", "spline(as.bornmayer 1000.0 0.3 >1.0 buck4_spline 3.0 >2.5 as.buck 0 1 32.0)"))],
    "buck4-form-rmin-outside": [M("pair", lambda s: setv(s, "Pair", "Fe-Cu", "as.buck4 1000.0 0.3 32.0 1.0 3.0 2.5")), M("pair", lambda s: setv(s, "Pair", "Fe-Cu", "as.buck4 1000.0 0.3 32.0 2.5 1.5 1.0"))],
    "spline-middle-is-modifier": [M("pair", lambda s: setv(s, "Pair", "Cu-Cu", "spline(>0 as.zbl 29 29 >=0.8 sum(as.zero, as.zero) >=1.4 as.zero)"))],
    "trans-one-argument": [M("pair", lambda s: setv(s, "Pair", "Fe-Al", "trans(as.lj 0.2 2.5)"))],
    "trans-second-not-constant": [M("pair", lambda s: setv(s, "Pair", "Fe-Al", "trans(as.lj 0.2 2.5, as.zero)"))],
    "trans-constant-two-values": [M("pair", lambda s: setv(s, "Pair", "Fe-Al", "trans(as.lj 0.2 2.5, as.constant 1 2)"))],
    "trans-second-is-modifier": [M("pair", lambda s: setv(s, "Pair", "Fe-Al", "trans(as.lj 0.2 2.5, sum(as.constant 1, as.constant 2))"))],
    "eam-missing-embed-section": [M("eam", lambda s: dels(s, "EAM-Embed")), M("fs", lambda s: dels(s, "EAM-Embed"))],
    "eam-missing-density-section": [M("eam", lambda s: dels(s, "EAM-Density")), M("fs", lambda s: dels(s, "EAM-Density"))],
    "eam-missing-pair-section": [M("eam", lambda s: dels(s, "Pair"))],
    "adp-missing-dipole-section": [M("adp", lambda s: dels(s, "EAM-ADP-Dipole"))],
    "adp-missing-quadrupole-section": [M("adp", lambda s: dels(s, "EAM-ADP-Quadrupole"))],
    "eam-unknown-species": [M("eam", lambda s: (rename(s, "EAM-Embed", "Fe", "Xx"), rename(s, "EAM-Density", "Fe", "Xx")))],
    "fs-plain-keys": [M("fs", lambda s: rename(s, "EAM-Density", "Al->Cu", "Al"))],
    "fs-double-arrow": [M("fs", lambda s: rename(s, "EAM-Density", "Al->Cu", "Al->Fe->Al"))],
    "eam-arrow-keys": [M("eam", lambda s: rename(s, "EAM-Density", "Al", "Al->Cu"))],
    "fs-dangling-arrow": [M("fs", lambda s: rename(s, "EAM-Density", "Al->Cu", "Al->"))],
    "embed-unknown-form": [M("eam", lambda s: setv(s, "EAM-Embed", "Al", "as.squareroot -1.0")), M("fs", lambda s: setv(s, "EAM-Embed", "Al", "summ(as.zero)"))],
    "density-wrong-arity": [M("eam", lambda s: setv(s, "EAM-Density", "Al", "as.bornmayer 1")), M("fs", lambda s: setv(s, "EAM-Density", "Al->Cu", "as.bornmayer 1 2 3"))],
    "species-key-no-dot": [M("eam", lambda s: rename(s, "Species", "Cu.atomic_mass", "Cu_atomic_mass"))],
    "species-nonnumeric-number": [M("eam", lambda s: setv(s, "Species", "Cu.atomic_number", "twentynine"))],
    "species-nonnumeric-mass": [M("eam", lambda s: setv(s, "Species", "Cu.atomic_mass", "abc")), M("eam", lambda s: setv(s, "Species", "Al.lattice_constant", "four"))],
    "species-float-number": [M("eam", lambda s: setv(s, "Species", "Cu.atomic_number", "29.0"))],
    "formula-unparsable": [M("pair", lambda s: setv(s, "Potential-Form", "f(r,a)", "{ a*r + + * 1 }")), M("eam", lambda s: setv(s, "Potential-Form", "f(r,a)", "if (r > 1) { a*r } else { a*(r + 1 }")),
                           M("pair", lambda s: setv(s, "Potential-Form", "f(r,a)", "a*r + + * 1")), M("eam", lambda s: setv(s, "Potential-Form", "f(r,a)", "a*(r + 1")),
                           # characters the expression library cannot hold: a minus sign pasted from a paper (U+2212), a no-break space
                           M("pair", lambda s: setv(s, "Potential-Form", "f(r,a)", "a*exp(\u2212r)")), M("eam", lambda s: setv(s, "Potential-Form", "f(r,a)", "a *\u00a0r"))],
    "formula-undefined-symbol": [M("pair", lambda s: setv(s, "Potential-Form", "f(r,a)", "if (r > 1) { a*r } else { b }")), M("eam", lambda s: setv(s, "Potential-Form", "f(r,a)", "{ a*r + nosuch(r) }")),
                                 M("pair", lambda s: setv(s, "Potential-Form", "f(r,a)", "a*r + b")), M("pair", lambda s: setv(s, "Potential-Form", "f(r,a)", "a*r + nosuch(r)"))],
    "formula-call-wrong-arity": [M("pair", lambda s: setv(s, "Potential-Form", "g(r, a, b)", "{ f(r, a, b) * b }")),
                                 M("pair", lambda s: setv(s, "Potential-Form", "g(r, a, b)", "f(r, a, b) * b")), M("pair", lambda s: setv(s, "Potential-Form", "g(r, a, b)", "as.buck(r, a) * b"))],
}


def run_api(text, binary=False, edits=()):
    """('ok'|'config'|'internal', message, bytes written to the sink)"""
    sink = io.BytesIO() if binary else io.StringIO()
    try:
        if edits:
            from atsim.potentials.config import ConfigParser, ConfigParserOverrideTuple
            cp = ConfigParser(io.StringIO(text), overrides=[ConfigParserOverrideTuple(*e[1:]) for e in edits if e[0] == "-e"],
                              additional=[ConfigParserOverrideTuple(*e[1:]) for e in edits if e[0] == "-a"])
            tab = Configuration().read_from_parser(cp)
        else:
            tab = Configuration().read(io.StringIO(text))
        tab.write(sink)
        return "ok", "", sink.getvalue()
    except ConfigurationException as e:
        return "config", str(e)[:200], sink.getvalue()
    except Exception as e:
        return "internal", "%s: %s" % (type(e).__name__, str(e)[:200]), sink.getvalue()


def run_cli_file(text, d, binary=False, edits=()):
    inp, outp = os.path.join(d, "in.ini"), os.path.join(d, "out.dat")
    with open(inp, "wb" if isinstance(text, bytes) else "w") as f:
        f.write(text)
    if os.path.exists(outp):
        os.remove(outp)
    try:
        status, so, se = run_cli([inp, outp] + [a for e in edits for a in (e[0], "%s:%s=%s" % e[1:])])
    except Exception as e:
        return "internal", "%s: %s" % (type(e).__name__, str(e)[:200]), None
    data = open(outp, "rb").read() if os.path.exists(outp) else None
    last = se.strip().splitlines()[-1][:200] if se.strip() else ""
    if status == 0:
        return "ok", "", data
    if status == 2 and "configuration error - " in se:
        return "config", last, data
    return "internal", "exit status %s: %s" % (status, last), data


def main(prop, tier, seed):
    run = Run("C16", tier, seed)
    run.assumptions = ["a configuration error is a ConfigurationException (API) / exit status 2 with 'configuration error - ' on stderr (CLI)",
                       "the catalogue of malformation operators is the one of spec/Validate.tla (DESIGN appendix C); unknown keys / sections, which the code ignores, are not malformations"]
    try:
        res = tlc.run("Validate", "Validate_fixed.cfg", env={"EMIT": "1"}, coverage=True, keep=True, timeout=600)
        try:
            if res.violated:
                run.machinery("TLC: %s violated\n%s" % (res.violated, res.stdout[-1500:]))
            else:
                run.add_tlc("Validate_fixed", res)
                ops = tlc.read_ndjson(os.path.join(res.outdir, "operators.ndjson"))
        finally:
            tlc.cleanup(res)
        r2 = tlc.run("Validate", "Validate_code.cfg", timeout=600)
        run.notes["unrepaired_model_violates"] = r2.violated
        if r2.violated != "MalformedIsConfigError":
            run.machinery("anti-vacuity: the unrepaired pipeline model should violate MalformedIsConfigError, TLC says %r" % r2.violated)
        if run.machinery_errors:
            return run.finish()
        missing = [o["id"] for o in ops if o["id"] not in OPS]
        if missing:
            run.machinery("operators of the specification without a concrete rendering: %s" % missing)
            return run.finish()
        d = tempfile.mkdtemp(prefix="verif-validate-")
        try:
            # ---- valid models are never refused: every base family, every documented target spelling
            for tgt, fam in sorted(DOCUMENTED_TARGETS.items()):
                secs = base(fam)
                setv(secs, "Tabulation", "target", tgt)
                text = render(secs)
                binary = tgt.startswith("excel")
                for route, got in (("api", run_api(text, binary)), ("cli", run_cli_file(text, d, binary))):
                    run.evaluations += 1
                    run.replayed += 1
                    if got[0] != "ok" or not got[2]:
                        run.violation(dict(engine="validate", clause="valid-refused", op="target:" + tgt, route=route),
                                      "[valid-refused] documented target '%s' with a well-formed model: %s %s" % (tgt, got[0], got[1]), dict(ini=text))
            # a made-up species label is valid when [Species] supplies its data (and this model, built first, must not
            # make the same label acceptable WITHOUT data later on: operator eam-unknown-species below)
            secs = base("eam")
            rename(secs, "EAM-Embed", "Fe", "Xx")
            rename(secs, "EAM-Density", "Fe", "Xx")
            sec(secs, "Species")[1] += [["Xx.atomic_number", "120"], ["Xx.atomic_mass", "300.5"]]
            for route, got in (("api", run_api(render(secs))), ("cli", run_cli_file(render(secs), d))):
                run.evaluations += 1
                run.replayed += 1
                if got[0] != "ok":
                    run.violation(dict(engine="validate", clause="valid-refused", op="species-data", route=route),
                                  "[valid-refused] made-up species with [Species] data: %s %s" % (got[0], got[1]), dict(ini=render(secs)))
            # well-formed definitions from the grammar on every base family
            rnd = random.Random(seed)
            defs = ["as.polynomial 1 2 3", "sum(as.buck 1000 0.3 32, as.coul 1 -1)", ">=0 as.zero >1 product(as.constant 2, as.polynomial 1 1) >=2.5 as.zero",
                    "pow(as.polynomial 2 1, as.constant 2)", "trans(>0.5 as.lj 0.2 2.5, as.constant 0.25)", "sum(f 1.5)", "product(tf, g 1 2)",
                    "spline(>0 as.zbl 13 13 >0.7 exp_spline >1.2 as.zero)", "sum(spline(as.bornmayer 900 0.3 >1.0 buck4_spline 1.4 >2.0 as.zero), as.constant 1)",
                    # a modifier as the first / as the last sub-potential of a spline
                    "spline(sum(as.buck 1000 0.3 0, as.constant 1) >=0.8 exp_spline >=1.4 as.zero)",
                    "spline(>0 as.zbl 13 13 >0.7 exp_spline >1.2 sum(as.buck 1000 0.3 32, as.constant 0.5))",
                    "spline(product(as.constant 2, as.bornmayer 900 0.3) >1.0 buck4_spline 1.4 >2.0 as.buck 0 1 32)"]
            for fam in TARGETS:
                for dd in defs:
                    secs = base(fam)
                    setv(secs, "Pair", "Al-Al", dd)
                    if fam in ("eam", "adp"):
                        setv(secs, "EAM-Density", "Al", dd)
                    got = run_api(render(secs))
                    run.evaluations += 1
                    run.replayed += 1
                    if got[0] != "ok":
                        run.violation(dict(engine="validate", clause="valid-refused", op="definition", route="api"),
                                      "[valid-refused] well-formed definition '%s' in a %s model: %s %s" % (dd, fam, got[0], got[1]), dict(ini=render(secs)))
            # the order of the entries of a section carries no meaning: a formula may call one that is defined further down
            for fam in TARGETS:
                secs = base(fam)
                pf = sec(secs, "Potential-Form")[1]
                pf.reverse()
                setv(secs, "Pair", "Al-Al", "g 1.5 2.0")
                for route, got in (("api", run_api(render(secs))), ("cli", run_cli_file(render(secs), d))):
                    run.evaluations += 1
                    run.replayed += 1
                    if got[0] != "ok":
                        run.violation(dict(engine="validate", clause="valid-refused", op="forms-reversed", route=route),
                                      "[valid-refused] %s model whose [Potential-Form] entries are listed caller first: %s %s" % (fam, got[0], got[1]), dict(ini=render(secs)))
            # under-specified EAM models are valid: an embedding entry without any density entry, a density entry without an
            # embedding entry, an empty [Pair] section (the manual: missing functions are zero)
            for fam in ("eam", "fs"):
                for what, edit in (("embedding species in no density key", lambda s: [sec(s, "EAM-Density")[1].remove(kv) for kv in list(sec(s, "EAM-Density")[1]) if "Fe" in kv[0]]),
                                   ("density species without embedding entry", lambda s: delk(s, "EAM-Embed", "Cu")),
                                   ("no density entries at all", lambda s: sec(s, "EAM-Density")[1].clear()),
                                   ("empty [Pair] section", lambda s: sec(s, "Pair")[1].clear())):
                    secs = base(fam)
                    edit(secs)
                    for route, got in (("api", run_api(render(secs))), ("cli", run_cli_file(render(secs), d))):
                        run.evaluations += 1
                        run.replayed += 1
                        if got[0] != "ok":
                            run.violation(dict(engine="validate", clause="valid-refused", op="under-specified:" + what, route=route),
                                          "[valid-refused] %s model with %s: %s %s" % (fam, what, got[0], got[1]), dict(ini=render(secs)))
            # sections of the user's own, referred to through ${SECTION:KEY} (the manual: any other section may hold values): whatever
            # they are called - also names close to the names of potable's own sections
            for fam in ("pair", "eam"):
                for name in ("Potential-Parameters", "Potential-Params", "Fit-Variables", "Variables-Fe", "Species-Data", "Pairs", "Tabulation-Notes", "Constants", "EAM-Embed-Old", "Table-Forms"):
                    secs = base(fam)
                    secs.append([name, [["A_AlAl", "1000.0"], ["note", "kept for reference"]]])
                    setv(secs, "Pair", "Al-Al", "as.buck ${%s:A_AlAl} 0.3 32.0" % name)
                    for route, got in (("api", run_api(render(secs))), ("cli", run_cli_file(render(secs), d))):
                        run.evaluations += 1
                        run.replayed += 1
                        if got[0] != "ok":
                            run.violation(dict(engine="validate", clause="valid-refused", op="user-section", route=route),
                                          "[valid-refused] %s model with a section of the user's own, [%s], referred to by ${%s:A_AlAl}: %s %s" % (fam, name, name, got[0], got[1]), dict(ini=render(secs)))
            # ---- the models the repository ships (manual examples, quick start, tests' resources) are well-formed: each must be
            # accepted as it stands, through the command line and the Python API
            import glob
            from lib import boot as _boot
            shipped = sorted(glob.glob(os.path.join(_boot.REPO, "**", "*.aspot"), recursive=True))
            for path in shipped:
                text = open(path).read()
                rel = os.path.relpath(path, _boot.REPO)
                binary = "excel" in text.split("[Tabulation]")[-1].split("[")[0]
                for route, got in (("api", run_api(text, binary)), ("cli", run_cli_file(text, d, binary))):
                    run.evaluations += 1
                    run.replayed += 1
                    run.distinct("shipped:%s:%s" % (rel, route))
                    if got[0] != "ok" or not got[2]:
                        run.violation(dict(engine="validate", clause="valid-refused", op="shipped:" + rel, route=route),
                                      "[valid-refused] %s (shipped with the repository) via %s: %s %s" % (rel, route, got[0], got[1]), dict(file=rel))
            run.notes["shipped_models_accepted"] = len(shipped)
            # ---- every malformation operator
            for o in sorted(ops, key=lambda o: o["id"]):
                variants = []
                for vi, (fam, fn) in enumerate(OPS[o["id"]]):
                    secs = base(fam)
                    if getattr(fn, "edits", None):
                        variants.append((vi, fam, (render(secs), fn.edits)))
                    elif getattr(fn, "raw", False):
                        variants.append((vi, fam, fn(render(secs))))
                    else:
                        fn(secs)
                        variants.append((vi, fam, render(secs)))
                        if tier == "thorough":      # the same malformed model with its sections and entries listed in reverse order
                            variants.append((vi + 100, fam, render(secs, layout=1)))
                for vi, fam, text in variants:
                    ed = ()
                    if isinstance(text, tuple):
                        text, ed = text
                    routes = [("cli", lambda: run_cli_file(text, d, edits=ed))]
                    if not isinstance(text, bytes):
                        routes.insert(0, ("api", lambda: run_api(text, edits=ed)))
                    for route, thunk in routes:
                        got = thunk()
                        if isinstance(text, bytes):
                            text = repr(text[:300])
                        run.evaluations += 1
                        run.replayed += 1
                        run.distinct("%s:%d:%s" % (o["id"], vi, route))
                        if len(run.samples) < 4 and o["id"] in ("buck4-spline-rmin-below-detach", "fs-double-arrow", "formula-call-wrong-arity", "table-only-x") and route == "cli":
                            run.sample(dict(operator=o["id"], noticed_at=o["where"], family=fam, outcome=got[0], message=got[1], file=text))
                        sig = dict(engine="validate", op=o["id"], route=route)
                        if got[0] == "ok":
                            run.violation(dict(sig, clause="malformed-accepted"), "[malformed-accepted] %s (%s model, variant %d) via %s: a table was written" % (o["id"], fam, vi, route), dict(ini=text, op=o))
                        elif got[0] == "internal":
                            run.violation(dict(sig, clause="internal-exception"), "[internal-exception] %s (%s model, variant %d) via %s: %s" % (o["id"], fam, vi, route, got[1]), dict(ini=text, op=o))
                        elif got[2]:
                            run.violation(dict(sig, clause="table-left-behind"), "[table-left-behind] %s via %s: configuration error reported but %d characters of output exist" % (o["id"], route, len(got[2])), dict(ini=text, op=o))
        finally:
            shutil.rmtree(d, ignore_errors=True)
        run.rule = "cases = %d malformation operators (TLC) x 1-3 concrete variants on pair / DL_POLY / EAM / FS / ADP base models x {API, CLI}; + every documented target spelling, 9 well-formed definitions on 5 families and the 22 potable files shipped with the repository (must be accepted); non-trivial = every case; distinct by (operator, variant, route)" % len(ops)
    except tlc.TLCError as e:
        run.machinery(str(e))
    return run.finish()
