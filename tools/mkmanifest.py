#!/usr/bin/env python3
"""Generate /verif/MANIFEST.json from the table below (kept in one place so the manifest is always schema-valid)."""
import json, os, sys
V = os.path.dirname(os.path.dirname(os.path.abspath(__file__)))

CHECKS = {
 "C01": dict(engine="layout", design="5 C01", technique="TLA+ writer step machine (Layout.tla) model-checked with TLC; every model of the bound replayed through 4 routes of the real code and compared cell-by-cell with exact rationals of the probe algebra",
   text="TLC enumerates every pair model of the bound (declaration orders, orientations, row counts) and checks header/body agreement and the grid identity on the LAMMPS writer model; each model is replayed through LAMMPS_PairTabulation, writePotentials, Configuration.read and the potable CLI and the file read back as pair_style table reads it; energies and forces are compared with exact rational values of polynomial probes (analytic and numeric-derivative flavours) to the printed precision.",
   note="Trusted: the pair_style table reader model, TLC. Cell values are decided for polynomial probes only; that transcendental forms return the right numbers is C06/C07."),
 "C02": dict(engine="layout", design="5 C02", technique="TLA+ writer step machine + rejection guard model-checked with TLC; replay of every model through 4 routes with fixed-width reader and exact rational oracle",
   text="As C01 for the DL_POLY TABLE layout: header delpot/cutpot/ngrid to %15.8e exactness, 8-character labels, records of four 15-character fields, ngrid energies then ngrid -r dU/dr values at k*delpot; every row count not divisible by four must be rejected on every route with nothing written.",
   note="ngrid = 4 (delpot undefined) is outside the statement and excluded; the exception class of a rejection is C16's clause."),
 "C03": dict(engine="layout", design="5 C03", technique="TLA+ writer model composed with the eam/alloy reader model, invariants checked by TLC for every model <= 3 elements; replay through writeSetFL / SetFL_EAMTabulation / .ini / CLI with exact rational oracle",
   text="TLC checks Reader(eam/alloy) o Writer = model for every element order, pair subset and orientation; each model is replayed through four routes (both documented target spellings) and compared value by value, including the per-element metadata under the three metadata sources.",
   note="Trusted: the eam/alloy reader model. The header's fifth number (cutoff) is not constrained by the statement and not asserted."),
 "C04": dict(engine="layout", design="5 C04", technique="TLA+ writer models (setfl/fs, EEAM, Excel) composed with consumer models (LAMMPS eam/fs, DL_POLY EEAM, Excel headings); ConsumerReadsDeclared and ClusterDensity invariants by TLC over every declared subset; replay with a distinct probe per ordered pair",
   text="Exhaustive over all Finnis-Sinclair density matrices (every subset of ordered pairs declared), element orders and three formats in the bound: the function the consumer reads for (site A, neighbour B) is the one declared A->B, zero when undeclared; every model replayed through the Python API and potable.",
   note="Trusted: the consumer models in spec/Layout.tla (calibrated against the formats' documentation)."),
 "C05": dict(engine="layout", design="5 C05", technique="TLA+ TABEAM/EEAM writer models, DeclaredCountIsBlockCount and BlockCensus invariants by TLC; replay through writeTABEAM*, tabulation classes, .ini and CLI with exact %f oracle",
   text="Declared function count = number of blocks = n(n+5)/2 or 3n(n+1)/2; one pair block per unordered pair (zero-filled, either orientation), embe/dens census, block headers n/0/(n-1)step and n values at i*step.",
   note="Trusted: keyword-based TABEAM reader model."),
 "C06": dict(engine="forms", design="5 C06", technique="TLA+ binding machine of the four access routes (Builtin.tla: RoutesAgree, PotableArityChecked) checked by TLC; exact rational denotations, special points and signatures computed by TLC and replayed through all four routes of the real code (bitwise route agreement, exact closed forms, exact relations)",
   text="Signatures from the reference manual; for constant, zero, polynomial (orders 0..8), exponential (integer and half-integer n), hbnd, lj, coul, buck(A=0) the exact rational value for parameter vectors with pairwise distinct entries (incl. zero and negative) at rational r; exact special points for morse, exp_spline, sqrt; relations buck - bornmayer = -C/r^6, bornmayer functional equation, morse = D(b^2-2b), exp_spline - C = exp(q); every case through f(r,p), factory(p)(r), 'as.NAME p' in [Pair] and as.NAME(r,p) in a formula, in a fresh process (ascending then descending polynomial orders).",
   note="Not decided: closed-form values of zbl (general Z) and tang_toennies - only route agreement and derivative/energy consistency; exp() itself is trusted to libm."),
 "C07": dict(engine="algebra", design="5 C07", technique="TLA+ jet semantics of the definition language (PotExpr.tla: exact value/first/second derivative by sum, Leibniz, power, shift and range-selection rules; Offers; analytic vs numeric source) computed by TLC for every definition of the grammar; replayed on the real callables (.deriv/.deriv2 presence and values, Potential.force); Builtin.tla exact derivatives and differential relations for the leaves",
   text="For every definition of depth <=1 (exhaustive, ~1.2k) and depth 2 (TLC simulation) over analytic and non-analytic leaves: hasattr(.deriv/.deriv2) = Offers, offered values = exact derivatives (1e-9 for analytic subtrees; 1e-6 / 2e-3 only where a numerically differentiated component is involved), force = -slope; leaves: exact derivatives of the rational forms at rational points incl. r=0, V'=-V/rho etc. for bornmayer/buck/morse/sqrt/exp_spline (C != 0), finite-difference consistency for zbl and tang_toennies.",
   note="Not asserted on range boundaries nor where the implemented power rule takes log of a non-positive value. zbl / tang_toennies derivative formulas only against finite differences (1e-6). Defect F18 repaired. Table-form and spline derivatives: see C18 / C10."),
 "C09": dict(engine="algebra", design="5 C09", technique="TLA+ denotational semantics of the model language (PotExpr.tla) and of custom formulas (FormEval.tla: per-form mutable symbol tables threaded through the evaluation vs substitution, from arbitrary initial tables; pymath identity table) checked / computed by TLC; every definition and program replayed through Configuration.read under surface variants, in five section kinds, and against the Python-API composition",
   text="Definitions: exact pointwise value of sum/product/pow/trans/multi-range nestings (implicit '>0' around every modifier argument) vs tabulation.potentials[i].energy, in [Pair], [EAM-Embed], [EAM-Density] (both kinds) and [EAM-ADP-Dipole], 12 surface styles (':' '=', whitespace, continuation lines, entry and section order), equality with plus/product/pow/Multi_Range composition. Formulas: ImplIsSubstitution for all 360 acyclic 3-form programs and the mutually recursive one; each program evaluated for every (form, argument, r) twice in shuffled orders; calls of as.* and pymath.* inside formulas; 122 exact pymath identities.",
   note="Defect F14 (re-entrant custom forms) repaired; the model without save/restore is kept as FormEval_cyclic_unrepaired.cfg and must violate ImplIsSubstitution."),
 "C08": dict(engine="multirange", design="5 C08", technique="TLA+ transcription of the sorted setter and the _range_search loop (MultiRange.tla) checked by TLC against the declarative Allowed set for every listing; every listing replayed on Multi_Range_Potential_Form* (API and potable text) with range-identifying sub-potentials, four query orders per object",
   text="TLC proves, for every listing of <=3 (quick) / <=5 (thorough) ranges over {>,>=} x 4 starts and 9 query points, that the transcribed algorithm selects an allowed range, is listing-order independent and returns the default only below the first range; the replay checks the real class against the TLC-emitted allowed sets for value, deriv and deriv2 (same range), across evaluation histories on one object, across all listings of one multiset, and API vs potable text incl. the implicit '>0'.",
   note="Tie above a start shared by '>' and '>=': either range accepted (the suite pins the exclusive one); identical (marker,start) duplicates excluded from order independence (DESIGN C08)."),
 "C10": dict(engine="splines", design="5 C10", technique="TLA+ region machine (Spline.tla: transcription of Custom_SplinePotential.__call__ / _which_spline vs the statement, TLC over knot triples x query lattice), defining equations of both spline kinds as exact rational rows and the cubic identity family computed by TLC; replay: residuals of the rows with the implementation's coefficients, C2 continuity, regions, identity family, construction routes",
   text="RegionOK for every knot triple and query point; for every emitted knot triple x 7 start/end pairs of built-in forms (several with zero / negative end values) x {buck4, exp}: each of the 10 / 6 defining equations holds for splineCoefficients and the end-point jets, value/slope/curvature agree at detach, attach and across r_min, slope 0 at r_min, the callable is start below detach, end above attach and the advertised polynomial / exp(quintic)+C between; start = end = cubic stationary at r_min gives exactly that cubic; Buck4_SplinePotential = potentialforms.buck4 = as.buck4 = spline(... buck4_spline ...), SplinePotential = spline(... exp_spline ...).",
   note="Well-conditioned knot range only (half-integer knots 0.5..3); tolerances 1e-7/1e-8 relative to the cancellation scale of the polynomial evaluation. Two passes over the knots in one process (no dependence on earlier splines)."),
 "C18": dict(engine="tables", design="5 C18", technique="TLA+ transcription of TableReader.getValue/_findIndex vs the declarative linear interpolant, of the line-by-line file reader (StripsLastChar deviation), of plotToFile's rows, and exact cubic table-form cases (TableForm.tla, TLC); every emitted data set, file, plot range and table replayed on TableReader, plot/plotToFile/plotPotentialObjectToFile and [Table-Form] sections",
   text="ReaderOK / BetweenNeighbours for all data sets <=3 rows x 9 query points (ASSUME-checked by TLC), FileReadOK for all files of <=2 lines x 5 line kinds x final newline or not; replay of all of them in shuffled row order; 54 plot cases x 3 entry points (row count, x_i, y_i); 16 cubic table forms x 3 input spellings (x/y, xy, reordered with interpolation): pass-through, zero outside, equality of spellings, value/deriv/deriv2 = the cubic, force, sum(tf, ...) derivative; random non-cubic tables up to 200 points: pass-through, zero outside, derivative consistency.",
   note="Derivatives of interpolants of non-cubic data are only checked against finite differences of the same interpolant (1e-5). Defect F12 repaired."),
 "C11": dict(engine="grid", design="5 C11", technique="TLA+ transcription of _TabulationCutoff._init_cutoff (Grid.tla) checked by TLC against the declarative decision table for all 216 presence/sign classes; decision table and a decimal commensurate lattice emitted by TLC replayed on ConfigParser, Configuration.read and written tables for both grids",
   text="ImplAgrees (transcription = statement) for every class of (nr, dr, cutoff); the replay runs each class and ~2.5k (quick) / ~70k (thorough) decimal (step, k) pairs typed as decimal strings through the real parser for both grids, and reads row count, spacing and last row back from LAMMPS, setfl and Excel tables.",
   note="The unrepaired-code model (Python truthiness) is kept as Grid_code.cfg and must violate ImplAgrees (anti-vacuity). Two genuine defects repaired (F01, F19)."),
 "C12": dict(engine="session", design="5 C12", technique="TLA+ model of processes with hash seeds and build/evaluate/write histories (Session.tla: output content is a function of the model; SetOrder and Timestamps deviations) checked by TLC, histories emitted; references from fresh interpreters under 4-8 PYTHONHASHSEED values; every emitted history replayed in one process against the references",
   text="ContentIsFunctionOfModel for every history of <=4 operations over 3 models and 4 seeds; replay: 4 models (under-specified EAM and Finnis-Sinclair with zero-filled species, custom forms sharing sub-forms and recursive forms, two files re-using form names, [Species] overrides of a built-in element, splines, table forms) x 11 model/target outputs byte-compared across hash seeds, and every history (build, write, shuffled evaluation of all potentials incl. points exactly on exclusive range boundaries) compared with the fresh-process bytes and energies. Purity of formula evaluation from arbitrary symbol tables: FormEval.tla (C09).",
   note="Known finding F03: Excel containers embed the time of writing (cells compared instead). Defect F02 repaired."),
 "C13": dict(engine="inidoc", design="5 C13", technique="TLA+ model of filtered views over one parsed file (Views.tla: Create/Read histories, ReadIsFilter invariant, SharedSlot deviation) checked by TLC; every (file, view) case replayed through potable --include/--exclude-species and FilteredConfigParser against the hand-deleted file rendered from the spec's DeleteMentioning; all create/read histories of <=3 events replayed on real views",
   text="ReadIsFilter and SurvivorsInOrder for every history of <=3 events over 2 views x 32 filters x 2 files; the replay compares outputs on 7 (EAM file) / 3 (Finnis-Sinclair file) targets with those of the file from which the unwanted entries were deleted, for all 64 (file, view) pairs incl. empty sets and unknown labels, via CLI and API, and checks every read in every history against the TLC-computed filtered list.",
   note="The hand-deleted file keeps its section headers. ADP dipole/quadrupole sections are not named by the statement. Defects F04, F05 repaired."),
 "C15": dict(engine="inidoc", design="5 C15", technique="TLA+ model of the templated file (Vars.tla: positions lifted into [Variables], naming schemes, unreferenced variables; InterpolationIsSubstitution and VariablesInert; DefaultsLeak deviation) checked by TLC; every emitted template rendered and tabulated through Configuration.read and the CLI against the substituted file",
   text="For every subset of <=3 (quick) / all 9 (thorough) literal positions across [Tabulation], [Pair], [Potential-Form], [Species], [Table-Form], [EAM-*], four naming schemes (plain, option names of other sections, shared variables, ${SECTION:KEY}) and <=2 unreferenced variables (incl. names of real keys): every section's consumer sees exactly the base file; replay: byte-identical output on pair and EAM targets.",
   note="A variable is never named like an option of the section that refers to it (configparser resolves ${name} in the referring section first). Defect F09 repaired."),
 "C20": dict(engine="inidoc", design="5 C20", technique="TLA+ model of the reader's duplicate-detection stages (Dups.tla: 20 duplication operators x stages; IniDoc.tla: strict reader on raw vs normalised keys) checked by TLC (NoDuplicateSurvives); every operator x duplicated entry x spelling x position replayed through Configuration.read and the CLI",
   text="Every way of defining a thing twice (same key, reversed pair, whitespace spellings of A-B / A->B / f(r,a) / Table-Form:name, other arity, table form named like a formula or a built-in, duplicated section; pair-like ADP sections) applied to every entry of 3-species pair / EAM / FS / ADP models at three positions must be refused as a configuration error on both routes.",
   note="Whitespace variants are spellings with blanks/tabs inside the key (leading whitespace is INI continuation syntax). Defects F13a-c repaired."),
 "C14": dict(engine="inidoc", design="5 C14", technique="TLA+ transcription of potable's option merge rule and ConfigParser's override/addition application (IniDoc.tla) checked by TLC against text-editor semantics (HandEdit) for every option sequence; every case replayed through the CLI and ConfigParser(overrides=, additional=) and compared with tabulating the hand-edited file; --list-items/--item-value compared with the edited document",
   text="EditsAreHandEdits and ListEachOnce for every sequence of <=2 (quick) / <=3 (thorough) options over 3 sections x 3 keys x 2 key spellings x 2 values (one empty), 2 base files; each case rendered under two themes (pair model; EAM model whose sections share key texts) and replayed: outcome class and output bytes equal those of the hand-edited file, listing equals the edited document.",
   note="Options of different kinds are unordered on the command line (overrides, removals, additions); an emptied section may keep or lose its header; identical --remove-item options count once. Defect F06 repaired."),
 "C16": dict(engine="validate", design="5 C16", technique="TLA+ pipeline model of a potable run (Validate.tla: stages in code order, 95 malformation operators with the stage that must notice them, lazy evaluation stages after the output is opened; MalformedIsConfigError, ValidIsAccepted, RejectedMeansNoTable) checked by TLC; every operator rendered on well-formed base models and pushed through Configuration.read+write and the CLI",
   text="Every operator of the catalogue (non-INI text, placeholders, malformed species keys, unknown target/form/modifier/interpolation, arity, grid contradictions and degenerate grids, missing sections, spline part count / parameters / r_min, trans arguments, table-form data, species values, signature and formula errors that only surface at evaluation time) in 1-3 concrete variants on pair / DL_POLY / EAM / FS / ADP models must end in a ConfigurationException (API) and exit status 2 with 'configuration error - ' (CLI) with no output left behind; all 14 documented target spellings, a made-up species with [Species] data and 9 well-formed definitions on 5 families must be accepted.",
   note="The catalogue is the enumerated one (DESIGN appendix C); unknown keys / sections that the code ignores and a custom form named like an expression-library built-in are not in the statement's list and not asserted. 17 defect groups repaired (F10a-p, F15)."),
 "C17": dict(engine="layout", design="5 C17", technique="TLA+ fault model (Layout.tla: EvalFails at every evaluation k, flush discipline per writer) model-checked with TLC; every failing position replayed on the real writers through recording file objects, the potable CLI with a formula leaving its domain, and a second write() on the same object",
   text="TLC checks AllOrNothing / WholeOrNothing for every writer model and every failing evaluation k; the replay makes the k-th evaluation of the real write raise for every k of every model (API routes), makes a formula leave its domain at first/middle/last grid index of every function slot (Configuration and CLI routes, with a pre-existing output file), and requires an empty sink / empty-or-absent file, and that a later write() of the same object emits the whole table or nothing.",
   note="Fault = exception from a user function evaluation; I/O errors of the file system are out of scope. Three genuine defects found and repaired (known_findings.json F11a, F11b, F17)."),
 "C19": dict(engine="layout", design="5 C19", technique="TLA+ writer models for GULP, ADP, funcfl and the three Excel targets with reader models, invariants by TLC; replay with exact rational oracle (funcfl: Z^2*27.2*0.529/r against the pair probe)",
   text="Same machinery as C01/C03 for the secondary targets; ADP is checked to be the setfl file of the same model followed by unscaled dipole and quadrupole arrays in (i, j<=i) order.",
   note="Excel workbooks are compared at cell level through openpyxl."),
}

def main():
    props = [json.loads(l)["id"] for l in open(os.path.join(V, "properties.jsonl"))]
    checks = []
    for pid in props:
        if pid not in CHECKS:
            continue
        c = CHECKS[pid]
        checks.append(dict(
            property_id=pid,
            quick_cmd="./check %s --tier quick" % pid,
            thorough_cmd="./check %s --tier thorough" % pid,
            evidence_file="/verif/evidence/%s.json" % pid,
            replay_cmd_template="./check %s --replay {path}" % pid,
            engine=c["engine"],
            level_claimed=dict(category="model_checking", text=c["text"], design_ref="DESIGN.md section " + c["design"]),
            level_note=c["note"],
            technique=c["technique"]))
    na = [dict(property_id=p, reason=NA.get(p, "check not built yet in this round (planned, see DESIGN.md section 10)")) for p in props if p not in CHECKS]
    man = dict(
        version=1,
        setup_cmd="./setup.sh",
        hooks=dict(guard="ATSIM_POTENTIALS_VERIF", enable="none needed: no source hooks are installed; checks import /repo's working tree directly (lib/boot.py)",
                   baseline_off_cmd="cd /repo && /venv/bin/python -m pytest -ra -q -p no:cacheprovider --timeout=900 --continue-on-collection-errors",
                   source_commits=[], add_only=True),
        engines=[dict(name=e, path="engines/%s.py" % e, serves_properties=[p for p in props if CHECKS.get(p, {}).get("engine") == e], kind_free_text=k)
                 for e, k in ENGINES.items() if any(CHECKS.get(p, {}).get("engine") == e for p in props)],
        checks=checks,
        notes="Model-based verification with explicit TLA+ specifications under /verif/spec; see DESIGN.md.",
        not_applicable=na)
    json.dump(man, open(os.path.join(V, "MANIFEST.json"), "w"), indent=1)
    try:
        import jsonschema
        jsonschema.validate(man, json.load(open("/root/.vp/MANIFEST.schema.json")))
    except ImportError:
        print("(jsonschema not importable here; run with python3-vt to validate)")
    print("MANIFEST.json written: %d checks, %d not_applicable" % (len(checks), len(na)))

NA = {}
ENGINES = {
 "layout": "TLC on spec/Layout.tla (writer step machines x consumer models x fault model) + replay of every emitted case through the real code",
 "multirange": "TLC on spec/MultiRange.tla + replay of every listing on the real multi-range classes",
 "forms": "TLC on spec/Builtin.tla + replay through the four access routes in a fresh process",
 "validate": "TLC on spec/Validate.tla + replay of every malformation operator and of the valid models through the API and the CLI",
 "session": "TLC on spec/Session.tla + fresh-process references under several hash seeds + in-process histories",
 "splines": "TLC on spec/Spline.tla + replay on the spline classes, modifier and as.buck4",
 "tables": "TLC on spec/TableForm.tla + replay on TableReader, plot helpers and [Table-Form]",
 "algebra": "TLC on spec/PotExpr.tla and spec/FormEval.tla (+ Builtin.tla for leaf derivatives) + replay of every definition / program on the real registry, builders and combinators",
 "inidoc": "TLC on spec/IniDoc.tla / Vars.tla / Views.tla + replay of every emitted case through potable and the ConfigParser API against the hand-edited file",
 "grid": "TLC on spec/Grid.tla + replay of the decision table and decimal lattice on the real parser and written tables",
}
if __name__ == "__main__":
    main()
