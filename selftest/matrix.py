#!/usr/bin/env python3
"""Detection matrix: every seeded change applied to a scratch worktree of /repo (outside /repo and /verif), the property's
own check (and optionally others) run against it with VERIF_REPO pointing at the scratch tree. Development tool."""
import json, os, subprocess, sys, glob, shutil, time

V = os.path.dirname(os.path.dirname(os.path.abspath(__file__)))
extra = {"C01-m1": ["C07"], "C02-m2": ["C17"], "C11-m2": ["C19"], "C16-m1": ["C12"], "C03-m2": ["C12"], "C12-m2": ["C08"], "C04-m3": ["C13"], "C12-m4": ["C13"], "C01-m5": ["C17"], "C01-m6": ["C10"], "C04-m6": ["C13"], "C09-m5": ["C14"], "C20-m3": ["C14"], "C02-m3": ["C16"], "C01-m7": ["C07"], "C16-m7": ["C04"], "C02-m8": ["C18"], "C11-m7": ["C15"], "C15-m8": ["C14"], "C01-m9": ["C07", "C08"], "C01-m10": ["C12"], "C07-m10": ["C18"], "C19-m9": ["C13"], "C11-m10": ["C12"], "C15-m9": ["C14"], "C13-m10": ["C18"], "C10-m9": ["C16"], "C02-m9": ["C16"], "C01-m11": ["C18"], "C01-m12": ["C11"], "C03-m11": ["C13"], "C12-m11": ["C01"], "C14-m11": ["C15"], "C07-m11": ["C08"]}
extra.update({"C02-m11": ["C16"], "C04-m13": ["C09"], "C08-m11": ["C09", "C12"], "C12-m13": ["C18"], "C03-m13": ["C12"], "C01-m13": ["C12", "C17"], "C11-m12": ["C03"], "C14-m14": ["C15"],
              "C01-m14": ["C07"], "C08-m12": ["C09"], "C12-m14": ["C19", "C17"], "C07-m14": ["C10"], "C09-m15": ["C07"], "C03-m15": ["C13"], "C08-m13": ["C09"], "C12-m15": ["C17"]})
args = sys.argv[1:]
jobs = 1
if args and args[0] == "--jobs":
    jobs = int(args[1])
    args = args[2:]
only = args


def one(d):
    name = os.path.basename(d)
    prop = name.split("-")[0]
    wt = "/tmp/wt/matrix-%s" % name
    subprocess.run("git -C /repo worktree remove --force %s" % wt, shell=True, stdout=subprocess.DEVNULL, stderr=subprocess.DEVNULL)
    subprocess.run("git -C /repo worktree add --detach %s HEAD" % wt, shell=True, check=True, stdout=subprocess.DEVNULL, stderr=subprocess.DEVNULL)
    res = {}
    try:
        ap = subprocess.run("git apply %s/patch.diff" % d, shell=True, cwd=wt, stdout=subprocess.PIPE, stderr=subprocess.STDOUT, universal_newlines=True)
        if ap.returncode != 0:
            res["apply"] = "FAILED: " + ap.stdout[-200:]
        else:
            for p in [prop] + extra.get(name, []):
                outdir = "/tmp/wt/matrix-out-%s-%s" % (name, p)
                env = dict(os.environ, VERIF_REPO=wt, VERIF_OUT_DIR=outdir)
                t0 = time.time()
                r = subprocess.run([os.path.join(V, "check"), p, "--tier", "quick"], cwd=V, env=env, stdout=subprocess.PIPE, stderr=subprocess.STDOUT, universal_newlines=True)
                lines = r.stdout.splitlines()
                first = next((lines[i + 1].strip()[:260] for i, l in enumerate(lines) if l.startswith("VIOLATION") and i + 1 < len(lines)), "")
                res[p] = dict(exit=r.returncode, violations=sum(1 for l in lines if l.startswith("VIOLATION")), first=first, wall_s=round(time.time() - t0, 1))
                shutil.rmtree(outdir, ignore_errors=True)
    finally:
        subprocess.run("git -C /repo worktree remove --force %s" % wt, shell=True, stdout=subprocess.DEVNULL, stderr=subprocess.DEVNULL)
    json.dump(res, open(os.path.join(d, "detection.json"), "w"), indent=1)
    print(name, {k: (v["exit"], v["violations"]) if isinstance(v, dict) else v for k, v in res.items()}, flush=True)
    return name, res


dirs = [d for d in sorted(glob.glob(os.path.join(V, "seeded", "C*-m*"))) if not only or os.path.basename(d) in only]
if jobs > 1:
    from multiprocessing.pool import ThreadPool
    out = dict(ThreadPool(jobs).map(one, dirs))
else:
    out = dict(one(d) for d in dirs)
mp = os.path.join(V, "selftest", "matrix.json")
if only and os.path.exists(mp):
    full = json.load(open(mp))
    full.update(out)
    out = full
json.dump(out, open(mp, "w"), indent=1, sort_keys=True)
