#!/usr/bin/env python3
"""Confirm seeded changes independently: in a scratch worktree (outside /repo and /verif) check that the patch applies,
the repository's suite still passes with it, the demonstration fails with it and passes without it. Writes meta.json."""
import json, os, subprocess, sys, shutil

def sh(cmd, cwd=None, env=None, timeout=1200):
    p = subprocess.run(cmd, shell=True, cwd=cwd, env=env, stdout=subprocess.PIPE, stderr=subprocess.STDOUT, universal_newlines=True, timeout=timeout)
    return p.returncode, p.stdout

def confirm(d):
    d = os.path.abspath(d)
    name = os.path.basename(d.rstrip("/"))
    wt = "/tmp/wt/confirm-%s" % name
    sh("git -C /repo worktree remove --force %s" % wt)
    rc, out = sh("git -C /repo worktree add --detach %s HEAD" % wt)
    assert rc == 0, out
    env = dict(os.environ, ATSIM_ROOT=wt)
    res = {}
    try:
        rc, out = sh("/tmp/seedtools/py %s/demo.py" % d, cwd=wt, env=env)
        res["demo_without_change"] = "passes" if rc == 0 else "FAILS(%d)" % rc
        rc, out = sh("git apply %s/patch.diff" % os.path.abspath(d), cwd=wt)
        res["applies"] = rc == 0
        rc, out = sh("/tmp/seedtools/runtests", cwd=wt, env=env)
        res["suite_with_change"] = "SUITE-OK" if "SUITE-OK" in out else "BROKEN: " + out[-300:]
        rc, out = sh("/tmp/seedtools/py %s/demo.py" % d, cwd=wt, env=env)
        res["demo_with_change"] = "fails" if rc != 0 else "PASSES"
        res["demo_message"] = out.strip().splitlines()[-1][:300] if out.strip() else ""
    finally:
        sh("git -C /repo worktree remove --force %s" % wt)
    agent = json.load(open(os.path.join(d, "meta.agent.json")))
    ok = res.get("applies") and res["suite_with_change"] == "SUITE-OK" and res["demo_with_change"] == "fails" and res["demo_without_change"] == "passes"
    meta = dict(id=name, property=agent.get("property"), summary=agent.get("summary"), needs=agent.get("needs"), files=agent.get("files"),
                confirmed=bool(ok), confirmation=res,
                ran=["git apply patch.diff in a scratch worktree of /repo HEAD", "repository suite via /tmp/seedtools/runtests (162 baseline tests)",
                     "demo.py with and without the change (ATSIM_ROOT wrapper)"])
    json.dump(meta, open(os.path.join(d, "meta.json"), "w"), indent=1)
    print(name, "CONFIRMED" if ok else "NOT-CONFIRMED", res)

for d in sys.argv[1:]:
    try:
        confirm(d)
    except Exception as e:
        print(d, "ERROR", e)
