"""Run a script / module with `atsim` (and tests.config) resolved to the tree under $ATSIM_ROOT (default: cwd)."""
import os, sys, runpy
root = os.path.abspath(os.environ.get("ATSIM_ROOT") or os.getcwd())
try:
    import __editable___atsim_potentials_0_4_1_finder as f
    f.MAPPING.clear()
    f.MAPPING.update({"atsim": root + "/atsim", "tests.config": root + "/tests/config"})
except Exception:
    pass
m = sys.modules.get("atsim")
if m is not None and hasattr(m, "__path__"):
    try:
        m.__path__[:] = [root + "/atsim"]
    except TypeError:
        m.__path__ = [root + "/atsim"]
elif root not in sys.path:
    sys.path.insert(0, root)
for k in [k for k in sys.modules if k.startswith("atsim.")]:
    del sys.modules[k]
import atsim.potentials as p
assert os.path.abspath(p.__file__).startswith(root + "/"), (p.__file__, root)
args = sys.argv[1:]
if args and args[0] == "-m":
    sys.argv = args[1:]
    runpy.run_module(args[1], run_name="__main__", alter_sys=True)
else:
    sys.argv = args
    sys.path.insert(0, os.path.dirname(os.path.abspath(args[0])))
    runpy.run_path(args[0], run_name="__main__")
