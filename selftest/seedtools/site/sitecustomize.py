"""With ATSIM_ROOT set, every python started with this directory on PYTHONPATH (also a child process of a demonstration)
imports atsim from that tree."""
import os, sys
root = os.environ.get("ATSIM_ROOT")
if root:
    root = os.path.abspath(root)
    try:
        import __editable___atsim_potentials_0_4_1_finder as f
        f.MAPPING.clear()
        f.MAPPING.update({"atsim": root + "/atsim", "tests.config": root + "/tests/config"})
    except Exception:
        pass
    m = sys.modules.get("atsim")
    if m is not None and hasattr(m, "__path__"):
        try:
            m.__path__[:] = [root + "/atsim"]
        except TypeError:
            m.__path__ = [root + "/atsim"]
    elif root not in sys.path:
        sys.path.insert(0, root)
    for k in [k for k in sys.modules if k.startswith("atsim.")]:
        del sys.modules[k]
