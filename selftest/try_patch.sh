#!/bin/sh
# usage: selftest/try_patch.sh <patch.diff> <tier> <Cxx> [<Cyy> ...]  -- apply a seeded change to /repo, run the checks, undo it
patch=$(realpath $1); tier=$2; shift 2
cd /verif || exit 2
git -C /repo diff --quiet || { echo "/repo is dirty; refusing"; exit 2; }
git -C /repo apply "$patch" || { echo "patch does not apply"; exit 2; }
for p in "$@"; do
  ./check $p --tier $tier > /tmp/try_$p.out 2>&1; rc=$?
  echo "== $p exit=$rc  $(grep -c '^VIOLATION' /tmp/try_$p.out) violation lines"; grep -m3 -A1 '^VIOLATION' /tmp/try_$p.out | cut -c1-300
  grep 'MACHINERY' /tmp/try_$p.out | head -3
done
git -C /repo checkout -- . ; git -C /repo status --short | head -3
