"""Run bookkeeping shared by all engines: verdicts, known findings, replay files, evidence, exit codes."""
import json, os, sys, time, hashlib

VERIF = os.path.dirname(os.path.dirname(os.path.abspath(__file__)))
# evidence/ and replays/ normally live in /verif; the self-test matrix (seeded changes in scratch copies) redirects them
OUT = os.environ.get("VERIF_OUT_DIR") or VERIF
LEVEL = "model_checking"


def _load_findings():
    p = os.path.join(VERIF, "known_findings.json")
    if not os.path.exists(p):
        return []
    with open(p) as f:
        return json.load(f).get("findings", [])


def _matches(entry, prop, sig):
    if entry.get("property") != prop or entry.get("status") != "known":
        return False
    for k, v in entry.get("match", {}).items():
        s = sig.get(k)
        if isinstance(v, list):
            if s not in v:
                return False
        elif s != v:
            return False
    return True


class Run(object):
    def __init__(self, prop, tier, seed):
        self.prop = prop
        self.tier = tier
        self.seed = seed
        self.t0 = time.time()
        self.states = 0
        self.transitions = 0
        self.evaluations = 0          # concrete executions of the implementation
        self.replayed = 0             # spec behaviours / cases replayed on the implementation
        self.traces = 0               # implementation traces validated by TLC
        self.nontrivial = set()
        self.samples = []
        self.violations = []          # (sig, message, replay_path)
        self.known_hits = {}          # finding id -> count
        self.exhaustive = True
        self.configs = []
        self.coverage_actions = {}
        self.assumptions = []
        self.rule = ""
        self.notes = {}
        self.findings = _load_findings()
        self._printed_known = set()
        self.machinery_errors = []

    # ---- model checking statistics
    def add_tlc(self, name, res, exhaustive=True):
        self.states += res.distinct
        self.transitions += res.generated
        self.configs.append(dict(config=name, states=res.distinct, transitions=res.generated, depth=res.depth,
                                 wall_s=round(res.wall, 2), exhaustive=exhaustive))
        for k, v in res.coverage.items():
            self.coverage_actions[k] = self.coverage_actions.get(k, 0) + v
        if not exhaustive:
            self.exhaustive = False

    def sample(self, s, limit=6):
        if len(self.samples) < limit:
            self.samples.append(s)

    def distinct(self, key):
        self.nontrivial.add(key if isinstance(key, str) else json.dumps(key, sort_keys=True, default=str))

    # ---- verdicts
    def violation(self, sig, message, case):
        """sig: dict identifying the failing case class (matched against known_findings.json); case: JSON-able replay."""
        for e in self.findings:
            if _matches(e, self.prop, sig):
                self.known_hits[e["id"]] = self.known_hits.get(e["id"], 0) + 1
                if e["id"] not in self._printed_known:
                    self._printed_known.add(e["id"])
                    print("KNOWN-FINDING: property=%s %s [%s]" % (self.prop, e["what"], e["id"]))
                return False
        d = os.path.join(OUT, "replays", self.prop)
        os.makedirs(d, exist_ok=True)
        h = hashlib.sha1(json.dumps([sig, message], sort_keys=True, default=str).encode()).hexdigest()[:12]
        path = os.path.join(d, "%s.json" % h)
        with open(path, "w") as f:
            json.dump(dict(property=self.prop, sig=sig, message=message, case=case), f, indent=1, default=str)
        if len(self.violations) < 25:
            print("VIOLATION property=%s replay=%s" % (self.prop, path))
            print("  " + message[:600])
        self.violations.append((sig, message, path))
        return True

    def machinery(self, msg):
        self.machinery_errors.append(msg)
        print("MACHINERY-ERROR: " + msg[:2000], file=sys.stderr)

    # ---- evidence
    def finish(self, extra=None):
        wall = time.time() - self.t0
        cov = dict(states=max(self.states, 0), transitions=max(self.transitions, 0),
                   traces_validated_against_impl=self.replayed + self.traces,
                   spec_behaviours_replayed_on_impl=self.replayed,
                   impl_traces_validated_by_tlc=self.traces,
                   samples=self.samples if self.samples else ["(none)"],
                   evaluations=self.evaluations, distinct_nontrivial=len(self.nontrivial), rule=self.rule,
                   exhaustive=self.exhaustive, tlc_configs=self.configs, coverage_actions=self.coverage_actions,
                   known_findings=self.known_hits)
        cov.update(self.notes)
        if extra:
            cov.update(extra)
        ev = dict(property_id=self.prop, tier=self.tier, seed=self.seed, level=LEVEL, coverage=cov,
                  assumptions=self.assumptions, wall_s=round(wall, 2), violations=len(self.violations))
        os.makedirs(os.path.join(OUT, "evidence"), exist_ok=True)
        with open(os.path.join(OUT, "evidence", "%s.json" % self.prop), "w") as f:
            json.dump(ev, f, indent=1, default=str)
        if self.machinery_errors:
            print("%s: machinery failure (%d); no verdict" % (self.prop, len(self.machinery_errors)))
            return 2
        if self.violations:
            print("%s: %d violation(s)" % (self.prop, len(self.violations)))
            return 1
        print("%s %s: held on everything explored (states=%d, replayed=%d, traces=%d, impl executions=%d, %.1fs)%s" % (
            self.prop, self.tier, self.states, self.replayed, self.traces, self.evaluations, wall,
            "" if not self.known_hits else " known findings: %s" % self.known_hits))
        return 0
