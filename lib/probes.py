"""Probe algebra: exact Laurent polynomials over Q that the harness can evaluate exactly (fractions.Fraction)
and the implementation can evaluate in floating point (as.polynomial, callables, formulas).

A probe is identified by the abstract function id of the specification: {f, s, t}.  Distinct ids give
polynomials that differ at every grid point by O(1), so every printed cell identifies the function and
the grid index it came from.
"""
from fractions import Fraction as F
from decimal import Decimal
import math

KIND = {"pair": 1, "embed": 2, "dens": 3, "dip": 4, "quad": 5}


class Poly(object):
    """sum c[i] * x**(i+lo) with Fraction coefficients; lo may be negative (Laurent)."""

    def __init__(self, coeffs, lo=0):
        self.c = [F(c) for c in coeffs]
        self.lo = lo

    def __call__(self, x):
        x = F(x)
        tot = F(0)
        for i, c in enumerate(self.c):
            if c != 0:
                tot += c * x ** (i + self.lo)
        return tot

    def deriv(self):
        cs = [c * (i + self.lo) for i, c in enumerate(self.c)]
        return Poly(cs, self.lo - 1)

    def absval(self, x):
        x = abs(F(x))
        return sum(abs(c) * x ** (i + self.lo) for i, c in enumerate(self.c) if c != 0)

    def is_zero(self):
        return all(c == 0 for c in self.c)

    def fl(self, x):          # float evaluation (for callables handed to the implementation)
        tot = 0.0
        for i, c in enumerate(self.c):
            if c != 0:
                tot += float(c) * x ** (i + self.lo)
        return tot

    def shifted(self, d):     # p(x+d) for ordinary polynomials
        assert self.lo == 0
        out = [F(0)] * len(self.c)
        for i, c in enumerate(self.c):
            for j in range(i + 1):
                out[j] += c * math.comb(i, j) * F(d) ** (i - j)
        return Poly(out)

    def __repr__(self):
        return "Poly(%s, lo=%d)" % ([str(c) for c in self.c], self.lo)


ZERO = Poly([0])


def probe(fn):
    """Abstract function id -> exact polynomial (degree 2, integer coefficients, without a zero on [0, inf); pair and embedding
    functions positive, every second density / dipole / quadrupole function negative)."""
    if fn["f"] == "zero":
        return ZERO
    uid = KIND[fn["f"]] * 100 + fn["s"] * 10 + fn["t"]
    a0 = uid
    a2 = (uid % 5) + 1
    a1 = -((uid % 7) + 1)          # a1^2 < 4 a0 a2  => positive everywhere (needed by funcfl's sqrt)
    if fn["f"] in ("dens", "dip", "quad") and uid % 2:
        # a density contribution / dipole / quadrupole function may be negative: the file stores the declared function whatever its
        # sign (only the SUM over the neighbours is embedded); every second one is negative on the whole grid
        return Poly([-a0, -a1, -a2])
    return Poly([a0, a1, a2])


def coeffs_int(p):
    assert p.lo == 0 and all(c.denominator == 1 for c in p.c)
    return [int(c) for c in p.c]


# ---------------------------------------------------------------------------------------------------
# comparing printed numbers with exact rationals

def token_value(tok):
    """printed token -> (Fraction value, Fraction unit of the last printed place)"""
    d = Decimal(tok)
    if not d.is_finite():
        raise ValueError("non-finite number %r" % tok)
    sign, digits, exp = d.as_tuple()
    return F(d), F(10) ** exp


EPS = F(1, 2 ** 52)


def agrees(tok, exact, cond=F(0), extra=F(0)):
    """Is the printed token `tok` the exact rational `exact`, to the printed precision?
    cond  : magnitude scale of the floating point evaluation (sum of |terms| + |x p'(x)|), absorbs rounding
    extra : additional absolute slack (numeric differentiation)"""
    try:
        v, unit = token_value(tok)
    except Exception:
        return False
    tol = unit * F(51, 100) + 64 * EPS * (abs(exact) + cond) + extra
    return abs(v - exact) <= tol
