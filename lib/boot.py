"""Import bootstrap: make `atsim` resolve to the working tree under $VERIF_REPO (default /repo).

The editable install pins the namespace package `atsim` to /repo through an nspkg .pth that
pre-creates sys.modules['atsim']; PYTHONPATH cannot redirect it, so we re-point it here.
"""
import os, sys

REPO = os.path.abspath(os.environ.get("VERIF_REPO", "/repo"))
VERIF = os.path.dirname(os.path.dirname(os.path.abspath(__file__)))

_BOOTED = None


def boot(quiet=True):
    """idempotent: a second call must not re-import the package (two generations of its classes would coexist).
    quiet=False leaves the logging configuration alone (a process that behaves like the real command line)"""
    global _BOOTED
    if _BOOTED is not None:
        return _BOOTED
    root = REPO
    try:
        import __editable___atsim_potentials_0_4_1_finder as f
        f.MAPPING.clear()
        f.MAPPING.update({"atsim": root + "/atsim", "tests.config": root + "/tests/config"})
    except Exception:
        pass
    m = sys.modules.get("atsim")
    if m is not None and hasattr(m, "__path__"):
        try:
            m.__path__[:] = [root + "/atsim"]
        except TypeError:
            m.__path__ = [root + "/atsim"]
    else:
        if root not in sys.path:
            sys.path.insert(0, root)
    for k in [k for k in sys.modules if k.startswith("atsim.")]:
        del sys.modules[k]
    import warnings
    warnings.filterwarnings("ignore")
    if quiet:
        import logging
        logging.disable(logging.CRITICAL)
    import atsim.potentials as p
    assert os.path.abspath(p.__file__).startswith(root + "/"), (p.__file__, root)
    _BOOTED = p
    return p
