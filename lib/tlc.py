"""Thin TLC driver: run a spec/config from /verif/spec, collect statistics, coverage and emitted cases."""
import json, os, re, shutil, subprocess, tempfile, time

VERIF = os.path.dirname(os.path.dirname(os.path.abspath(__file__)))
SPEC = os.path.join(VERIF, "spec")
JAR = "/opt/veriftools/tla/tla2tools.jar:/opt/veriftools/tla/CommunityModules-deps.jar"


class TLCError(Exception):
    """Machinery failure (parse error, timeout, unexpected TLC exit) - never a property violation."""


class TLCResult(object):
    def __init__(self):
        self.generated = 0       # states generated (= transitions explored, incl. initial states)
        self.distinct = 0        # distinct states
        self.depth = 0
        self.stdout = ""
        self.ok = False          # finished, no invariant violated
        self.violated = None     # name of violated invariant / property, if any
        self.coverage = {}       # action name -> count (when coverage requested)
        self.wall = 0.0
        self.outdir = None
        self.printed = []        # PrintT payloads (raw strings)

    def summary(self):
        return dict(states=self.distinct, transitions=self.generated, depth=self.depth, wall_s=round(self.wall, 2))


def scratch(prefix="verif-"):
    base = os.environ.get("VERIF_SCRATCH") or tempfile.gettempdir()
    return tempfile.mkdtemp(prefix=prefix, dir=base)


def run(module, cfg, env=None, workers=None, timeout=900, simulate=None, depth=None, seed=None,
        coverage=False, keep=False, deadlock=False, extra=None, dfs=False, tolerate=False):
    """Run TLC on spec/<module>.tla with spec/<cfg>. `env` entries are visible to the spec as IOEnv.X.
    Returns TLCResult. Raises TLCError on machinery failures."""
    out = scratch("tlc-")
    meta = os.path.join(out, "meta")
    e = dict(os.environ)
    e.update({k: str(v) for k, v in (env or {}).items()})
    e["VERIF_OUT"] = out
    jopts = ["-XX:+UseParallelGC", "-Xmx6g"]
    if dfs:
        jopts.append("-Dtlc2.tool.queue.IStateQueue=StateDeque")
    cmd = ["java"] + jopts + ["-cp", JAR, "tlc2.TLC", "-metadir", meta, "-noGenerateSpecTE",
           "-config", os.path.join(SPEC, cfg)]
    if workers is None:
        workers = "auto"
    cmd += ["-workers", str(workers)]
    if not deadlock:
        cmd += ["-deadlock"]
    if coverage:
        cmd += ["-coverage", "1"]
    if simulate:
        cmd += ["-simulate", simulate]
    if depth:
        cmd += ["-depth", str(depth)]
    if seed is not None:
        cmd += ["-seed", str(seed)]
    if extra:
        cmd += list(extra)
    cmd += [os.path.join(SPEC, module + ".tla")]
    t0 = time.time()
    try:
        p = subprocess.run(cmd, cwd=SPEC, env=e, stdout=subprocess.PIPE, stderr=subprocess.STDOUT,
                           timeout=timeout, universal_newlines=True)
    except subprocess.TimeoutExpired:
        subprocess.call(["pkill", "-f", meta])
        shutil.rmtree(out, ignore_errors=True)
        raise TLCError("TLC timed out after %ss on %s/%s" % (timeout, module, cfg))
    r = TLCResult()
    r.wall = time.time() - t0
    r.stdout = p.stdout
    r.outdir = out
    m = re.findall(r"(\d+) states generated, (\d+) distinct states found", p.stdout)
    if m:
        r.generated, r.distinct = int(m[-1][0]), int(m[-1][1])
    m = re.search(r"The depth of the complete state graph search is (\d+)", p.stdout)
    if m:
        r.depth = int(m.group(1))
    m = re.search(r"Invariant (\S+) is violated", p.stdout) or re.search(r"Action property (\S+) is violated", p.stdout) \
        or re.search(r"Temporal properties were violated", p.stdout) or re.search(r"(Deadlock) reached", p.stdout)
    if m:
        r.violated = m.group(1) if m.groups() else "temporal"
    if "Assumption" in p.stdout and "is false" in p.stdout:
        r.violated = "ASSUME"
    if re.search(r"The postcondition .* violated|Evaluating the post-condition.*failed|postcondition", p.stdout) and \
            re.search(r"violat|fail|false", p.stdout.split("postcondition")[-1][:200] if "postcondition" in p.stdout else ""):
        r.violated = r.violated or "POSTCONDITION"
    if coverage:
        for mm in re.finditer(r"<(\w+) line \d+, col \d+ to line \d+, col \d+ of module (\w+)>: (\d+):(\d+)", p.stdout):
            r.coverage[mm.group(1)] = r.coverage.get(mm.group(1), 0) + int(mm.group(4))
    r.ok = (p.returncode == 0 and r.violated is None and "Model checking completed. No error has been found" in p.stdout) \
        or (simulate is not None and p.returncode == 0 and r.violated is None)
    r.error = None
    if not r.ok and r.violated is None and tolerate:
        # a sampling run that stopped early (e.g. 32-bit overflow of TLC's integers on a large product): what it printed
        # before stopping is still usable, the caller records the early stop
        r.error = "\n".join(p.stdout.splitlines()[-15:])
        if not keep:
            shutil.rmtree(out, ignore_errors=True)
            r.outdir = None
        return r
    if not r.ok and r.violated is None:
        tail = "\n".join([l for l in p.stdout.splitlines() if not l.startswith(("Parsing file", "Semantic processing", "Linting of", "  |", "<", "  line ", "The coverage", "End of statistics"))][-40:])
        if not keep:
            shutil.rmtree(out, ignore_errors=True)
        raise TLCError("TLC failed (exit %s) on %s/%s:\n%s" % (p.returncode, module, cfg, tail))
    if not keep:
        # nothing of the scratch directory (TLC's state files, emitted cases) is wanted by the caller
        shutil.rmtree(out, ignore_errors=True)
        r.outdir = None
    return r


def cleanup(r):
    if r is not None and r.outdir:
        shutil.rmtree(r.outdir, ignore_errors=True)


def read_ndjson(path):
    out = []
    with open(path) as f:
        for line in f:
            line = line.strip()
            if line:
                out.append(json.loads(line))
    return out


def sany(module):
    cmd = ["java", "-cp", JAR, "tla2sany.SANY", os.path.join(SPEC, module + ".tla")]
    p = subprocess.run(cmd, cwd=SPEC, stdout=subprocess.PIPE, stderr=subprocess.STDOUT, universal_newlines=True, timeout=120)
    ok = p.returncode == 0 and "Semantic errors" not in p.stdout and "Parse Error" not in p.stdout and "Fatal" not in p.stdout
    return ok, p.stdout


def batch_validate(module, cfg, traces, timeout=1200, env=None):
    """Validate many recorded traces in one TLC run (spec pattern: tid / l variables, Progress constraint, Report post-condition).
    Returns (TLCResult, [(reached, total, complete)] per trace)."""
    import re as _re
    d = scratch("traces-")
    try:
        path = os.path.join(d, "traces.ndjson")
        with open(path, "w") as f:
            for t in traces:
                f.write(json.dumps(t) + "\n")
        e = {"TRACE_FILE": path}
        e.update(env or {})
        res = run(module, cfg, env=e, workers=1, timeout=timeout, keep=True)
        rep = {}
        for mm in _re.finditer(r'<<"TRACE", (\d+), (\d+), (\d+), (\d+)>>', res.stdout):
            rep[int(mm.group(1))] = (int(mm.group(2)), int(mm.group(3)), int(mm.group(4)))
        cleanup(res)
        if res.violated:
            raise TLCError("trace validation: TLC reports %s violated\n%s" % (res.violated, res.stdout[-1500:]))
        if len(rep) != len(traces):
            raise TLCError("trace validation: TLC reported %d of %d traces\n%s" % (len(rep), len(traces), res.stdout[-1500:]))
        return res, [rep[i + 1] for i in range(len(traces))]
    finally:
        shutil.rmtree(d, ignore_errors=True)


def tlaps(path, timeout=300):
    """Run the TLA+ proof system on a module of arithmetic facts (stretch evidence, never a verdict).
    Returns dict(proved=int, total=int, ok=bool, note=str)."""
    d = scratch("tlaps-")
    try:
        shutil.copy(path, d)
        try:
            p = subprocess.run(["tlapm", "--toolbox", "0", "0", os.path.basename(path)], cwd=d, stdout=subprocess.PIPE, stderr=subprocess.STDOUT,
                               timeout=timeout, universal_newlines=True)
        except (OSError, subprocess.TimeoutExpired) as e:
            return dict(proved=0, total=0, ok=False, note="tlapm not run: %s" % type(e).__name__)
        m = re.search(r"All (\d+) obligations? proved", p.stdout)
        if m:
            return dict(proved=int(m.group(1)), total=int(m.group(1)), ok=True, note="all obligations proved")
        m = re.search(r"(\d+)/(\d+) obligations? failed", p.stdout)
        return dict(proved=0, total=0, ok=False, note=(m.group(0) if m else p.stdout[-300:]))
    finally:
        shutil.rmtree(d, ignore_errors=True)
