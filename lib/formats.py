"""Readers for the files atsim.potentials writes: each is as lenient as the consuming simulation code (free-format
token streams where the consumer reads free format) and as strict as the property statement where it fixes a layout.
They return abstract records in the vocabulary of spec/Layout.tla with the printed tokens attached."""
import io, re


class FormatError(Exception):
    """The file cannot be read the way its consumer reads it."""


def _lines(text):
    return text.split("\n")


# ------------------------------------------------------------------------------------------- LAMMPS table
def parse_lammps_table(text):
    """pair_style table reader: keyword line, 'N n R lo hi' line, then N lines 'i r e f'. Blank lines / # comments skipped
    between sections (as LAMMPS does)."""
    lines = [l for l in _lines(text)]
    i = 0
    blocks = []

    def skip(i):
        while i < len(lines) and (lines[i].strip() == "" or lines[i].lstrip().startswith("#")):
            i += 1
        return i
    i = skip(i)
    while i < len(lines):
        kw = lines[i].split()
        if len(kw) != 1:
            raise FormatError("line %d: expected a section keyword, found %r" % (i + 1, lines[i]))
        title = kw[0]
        i = skip(i + 1)
        if i >= len(lines):
            raise FormatError("section %s has no parameter line" % title)
        p = lines[i].split()
        if len(p) < 5 or p[0] != "N" or p[2] != "R":
            raise FormatError("line %d: expected 'N n R lo hi', found %r" % (i + 1, lines[i]))
        try:
            N = int(p[1])
        except ValueError:
            raise FormatError("line %d: N is not an integer: %r" % (i + 1, p[1]))
        lo, hi = p[3], p[4]
        i = skip(i + 1)
        rows = []
        for n in range(N):
            if i >= len(lines):
                raise FormatError("section %s: premature end of file, %d of %d rows" % (title, n, N))
            t = lines[i].split()
            if len(t) != 4:
                raise FormatError("line %d: expected 'i r e f', found %r" % (i + 1, lines[i]))
            rows.append(t)
            i += 1
        blocks.append(dict(title=title, N=N, lo=lo, hi=hi, rows=rows))
        i = skip(i)
    return blocks


# ------------------------------------------------------------------------------------------- DL_POLY TABLE
def _fields(line, width, n, lineno):
    if len(line.rstrip("\r")) != width * n:
        raise FormatError("line %d: expected %d fields of %d characters, found %r" % (lineno, n, width, line))
    return [line[k * width:(k + 1) * width] for k in range(n)]


def parse_dlpoly_table(text):
    lines = _lines(text)
    if lines and lines[-1] == "":
        lines = lines[:-1]
    if len(lines) < 2:
        raise FormatError("TABLE: fewer than two lines")
    hdr = lines[1]
    if len(hdr) < 40:
        raise FormatError("TABLE line 2: expected delpot(15) cutpot(15) ngrid(10), found %r" % hdr)
    delpot, cutpot, ngrid = hdr[0:15].strip(), hdr[15:30].strip(), hdr[30:40].strip()
    try:
        ng = int(ngrid)
    except ValueError:
        raise FormatError("TABLE line 2: ngrid not an integer %r" % ngrid)
    out = dict(title=lines[0], delpot=delpot, cutpot=cutpot, ngrid=ng, blocks=[])
    i = 2
    nrec = (ng + 3) // 4
    while i < len(lines):
        lab = lines[i]
        if len(lab) != 16:
            raise FormatError("TABLE line %d: expected two 8-character species fields, found %r" % (i + 1, lab))
        a, b = lab[0:8].strip(), lab[8:16].strip()
        i += 1
        secs = []
        for sec in ("E", "F"):
            vals = []
            for r in range(nrec):
                if i >= len(lines):
                    raise FormatError("TABLE: premature end in %s-%s %s section" % (a, b, sec))
                f = _fields(lines[i], 15, 4, i + 1)
                vals.extend(x.strip() for x in f)
                i += 1
            secs.append(vals)
        out["blocks"].append(dict(a=a, b=b, E=secs[0], F=secs[1]))
    return out


# ------------------------------------------------------------------------------------------- GULP
def parse_gulp(text):
    lines = [l for l in _lines(text) if l.strip() != ""]
    blocks = []
    i = 0
    while i < len(lines):
        if lines[i].split() != ["spline", "cubic"]:
            raise FormatError("GULP line: expected 'spline cubic', found %r" % lines[i])
        if i + 1 >= len(lines):
            raise FormatError("GULP: missing species line")
        h = lines[i + 1].split()
        if len(h) != 3:
            raise FormatError("GULP: expected 'A B cutoff', found %r" % lines[i + 1])
        i += 2
        rows = []
        while i < len(lines) and lines[i].split()[0] != "spline":
            t = lines[i].split()
            if len(t) != 2:
                raise FormatError("GULP: expected 'energy r', found %r" % lines[i])
            rows.append(t)
            i += 1
        blocks.append(dict(a=h[0], b=h[1], cutoff=h[2], rows=rows))
    return blocks


# ------------------------------------------------------------------------------------------- setfl family
def parse_setfl(text, kind):
    """kind: 'alloy' | 'fs' | 'adp'.  Lines 1-3 comments, line 4 'n names', line 5 grid; the rest is read as LAMMPS reads
    it: per element one line of four fields then free-format numbers."""
    lines = _lines(text)
    if len(lines) < 5:
        raise FormatError("setfl: fewer than five header lines")
    t4 = lines[3].split()
    try:
        n = int(t4[0])
    except (ValueError, IndexError):
        raise FormatError("setfl line 4: expected 'ntypes names...', found %r" % lines[3])
    names = t4[1:]
    if len(names) != n:
        raise FormatError("setfl line 4: declares %d elements but names %d" % (n, len(names)))
    g = lines[4].split()
    if len(g) != 5:
        raise FormatError("setfl line 5: expected 'nrho drho nr dr cutoff', found %r" % lines[4])
    try:
        nrho, nr = int(g[0]), int(g[2])
    except ValueError:
        raise FormatError("setfl line 5: nrho / nr not integers: %r" % lines[4])
    toks = " ".join(lines[5:]).split()
    pos = [0]

    def take(k, what):
        if pos[0] + k > len(toks):
            raise FormatError("setfl: premature end of file while reading %s (%d values wanted, %d left)" % (what, k, len(toks) - pos[0]))
        out = toks[pos[0]:pos[0] + k]
        pos[0] += k
        return out
    els = []
    for e in range(n):
        hdr = take(4, "element line %d" % (e + 1))
        embed = take(nrho, "embedding function of %s" % names[e])
        ndens = n if kind == "fs" else 1
        dens = [take(nr, "density %d of %s" % (d + 1, names[e])) for d in range(ndens)]
        els.append(dict(hdr=hdr, embed=embed, dens=dens))
    ntri = n * (n + 1) // 2
    pairs = [take(nr, "pair array %d" % (x + 1)) for x in range(ntri)]
    dip = quad = None
    if kind == "adp":
        dip = [take(nr, "dipole array %d" % (x + 1)) for x in range(ntri)]
        quad = [take(nr, "quadrupole array %d" % (x + 1)) for x in range(ntri)]
    rest = toks[pos[0]:]
    return dict(comments=lines[0:3], names=names, nrho=nrho, drho=g[1], nr=nr, dr=g[3], cutoff=g[4],
                els=els, pairs=pairs, dip=dip, quad=quad, rest=rest)


def parse_funcfl(text):
    lines = _lines(text)
    if len(lines) < 3:
        raise FormatError("funcfl: fewer than three header lines")
    e = lines[1].split()
    g = lines[2].split()
    if len(e) != 4 or len(g) != 5:
        raise FormatError("funcfl: bad header lines %r %r" % (lines[1], lines[2]))
    nrho, nr = int(g[0]), int(g[2])
    toks = " ".join(lines[3:]).split()
    if len(toks) < nrho + 2 * nr:
        raise FormatError("funcfl: header declares %d+%d+%d values but %d were found" % (nrho, nr, nr, len(toks)))
    return dict(title=lines[0], el=e, nrho=nrho, drho=g[1], nr=nr, dr=g[3], cutoff=g[4],
                embed=toks[0:nrho], Z=toks[nrho:nrho + nr], dens=toks[nrho + nr:nrho + 2 * nr], rest=toks[nrho + 2 * nr:])


# ------------------------------------------------------------------------------------------- TABEAM
def parse_tabeam(text):
    lines = _lines(text)
    if len(lines) < 2:
        raise FormatError("TABEAM: fewer than two lines")
    try:
        count = int(lines[1].split()[0])
    except (ValueError, IndexError):
        raise FormatError("TABEAM line 2: expected the number of functions, found %r" % lines[1])
    i = 2
    blocks = []
    body = [l for l in lines[2:]]
    toks_by_line = [l.split() for l in body]
    li = 0
    while li < len(toks_by_line):
        h = toks_by_line[li]
        if not h:
            li += 1
            continue
        kw = h[0].lower()
        if kw not in ("pair", "embe", "embed", "dens"):
            raise FormatError("TABEAM: expected a block header, found %r" % body[li])
        # header: kw species... n start end ; species count is 1 or 2
        if len(h) < 5:
            raise FormatError("TABEAM: short block header %r" % body[li])
        n_, start, end = h[-3], h[-2], h[-1]
        who = h[1:-3]
        try:
            n = int(n_)
        except ValueError:
            raise FormatError("TABEAM: point count not an integer in %r" % body[li])
        li += 1
        vals = []
        while len(vals) < n:
            if li >= len(toks_by_line):
                raise FormatError("TABEAM: premature end of file in block %s %s" % (kw, " ".join(who)))
            row = toks_by_line[li]
            if row and row[0].lower() in ("pair", "embe", "embed", "dens"):
                raise FormatError("TABEAM: block %s %s declares %d values but only %d precede the next header" % (kw, " ".join(who), n, len(vals)))
            vals.extend(row)
            li += 1
        if len(vals) != n:
            raise FormatError("TABEAM: block %s %s declares %d values, %d found" % (kw, " ".join(who), n, len(vals)))
        blocks.append(dict(kw=kw[:4], who=who, n=n, start=start, end=end, vals=vals))
    return dict(title=lines[0], count=count, blocks=blocks)


# ------------------------------------------------------------------------------------------- Excel
def parse_xlsx(data):
    import openpyxl
    wb = openpyxl.load_workbook(io.BytesIO(data), read_only=False)
    out = {}
    for ws in wb.worksheets:
        rows = list(ws.iter_rows(values_only=True))
        if not rows:
            out[ws.title] = dict(heads=[], cols={}, n=0)
            continue
        heads = list(rows[0])
        cols = {}
        for ci, h in enumerate(heads):
            if h is None:
                continue
            if h in cols:
                raise FormatError("xlsx sheet %s: column heading %r appears twice" % (ws.title, h))
            cols[h] = [r[ci] for r in rows[1:]]
        out[ws.title] = dict(heads=heads, cols=cols, n=len(rows) - 1)
    return out
