#!/bin/sh
# Offline setup: nothing to build. Parse every specification module and check the harness imports /repo's working tree.
cd "$(dirname "$0")" || exit 2
export PYTHONHASHSEED=0
/venv/bin/python -W ignore - <<'PY' || exit 1
import sys, glob, os
sys.path.insert(0, os.getcwd())
from lib import tlc, boot
bad = 0
for f in sorted(glob.glob("spec/*.tla")):
    ok, out = tlc.sany(os.path.basename(f)[:-4])
    print("SANY", f, "ok" if ok else "FAILED")
    if not ok:
        print(out[-1500:]); bad += 1
p = boot.boot()
print("atsim.potentials from", p.__file__)
sys.exit(1 if bad else 0)
PY
